"""C19 - cached bytecode never changes what a script does.

Generator : (a) a Hypothesis state machine over ONE script path (awkward names: upper case, `_`, `.`,
            blanks, `$`, non-ASCII, long components, nested dirs, optionally reached through a symlinked
            directory; extensions .xsh / .py / none) and one scratch $XONSH_DATA_DIR.  The harness owns the
            clock: every write of the source and every (re)written cache entry is os.utime()d from a
            logical counter, so "newer" / "older" are exact without sleeping.  Rules: edit(new body) with a
            strictly newer mtime (bodies print a fresh token, set a global, exit with a code, raise, are
            syntactically invalid, use xonsh-only syntax ($ENV, $(cmd)), nested functions / classes,
            empty / comment-only / no trailing newline / non-ASCII); touch; run the script through
            run_script_with_cache or through XonshImportHook.get_code under switches drawn from
            {$XONSH_CACHE_SCRIPTS, $XONSH_CACHE_EVERYTHING, execer.scriptcache (= --no-script-cache),
            execer.cacheall (= --cache-everything)}; run_code_with_cache(code, mode) for code strings from
            a small pool (so texts recur and near-twins exist: common 60-char prefix, case twins, trailing
            newline / blank twins) in exec / single / eval; corrupt the entry of the script or of a code
            string: truncate (drawn length), foreign header (other xonsh version, other Python version,
            glued / swapped / missing header lines, sibling file for another cache tag) in front of a
            *valid foreign code object that prints a marker*, valid header + marshalled non-code object,
            valid header + random bytes, random bytes, header only, chmod 000, directory in its place.
            (b) complete enumeration: for a fixed list of entries (script bodies x names, code strings x
            modes) EVERY truncation length 0..len is written and run.
            (c) the same machine with the runs done by child processes (`python -m xonsh`-equivalent
            entry: xonsh.main.main() with --no-rc, script file / -c / stdin), sampled.
            (d) get_cache_filename / code_cache_name over generated pairs of confusable paths / texts.
Oracle    : every run's observation (captured stdout, returned exc_info type+message+line, exception raised
            out of the call, resulting namespace; for child processes stdout + exit status) equals the
            observation of compiling and running the *current source* without any cache (compile_code +
            run_compiled_code called directly on the text in a fresh namespace; for child processes a run
            with a fresh empty data dir and every switch off).  Hence: after an edit with a newer mtime the
            new token appears; a foreign / truncated / non-code / unreadable entry is never executed (the
            foreign marker never shows) and never fatal.  After a run with every cache switch on and a
            source that compiles, a corrupted entry (truncated, foreign, garbage, non-code) has been
            replaced by a well-formed one whose code reproduces the reference observation.  Different
            code strings / different real paths never map to the same cache file, and no cache file is an
            ancestor directory of another.
Known     : C19-F1 valid header + marshalled non-code object is executed / TypeError / None;
            C19-F2 an entry that cannot be opened (EACCES) is fatal; C19-F3 code entries are keyed by the
            text only, so an entry compiled for one mode is executed for another mode;
            C19-F4 a script whose cache file name exceeds NAME_MAX cannot be run with the cache on.
            Each has a narrow predicate (classify); while open, exactly that shape is not generated
            (counted in excluded_known) and the replay tier reproduces it.
"""

from __future__ import annotations

import errno
import io
import json
import marshal
import os
import shutil
import stat
import subprocess
import sys
import time as _time
import types

from vlib import common
from vlib.common import Failure, Mismatch, Stats

PROP = "C19"
LEVEL = "exploration"
HOOKS = False
RULE = ("histories of init(path) / edit(body, newer mtime) / touch / run(switches, script|import) / "
        "code(text, mode, switches) / corrupt(entry, how) on one script + one data dir under a harness-owned "
        "clock, drawn by a Hypothesis state machine (in-process and, sampled, with child processes); plus "
        "every truncation length 0..len of a fixed list of entries (complete); plus pairs of confusable "
        "paths / code strings for the cache-name functions. non-trivial = the history contains a run with "
        "the cache consulted while an entry exists that is stale (edit or touch after it was written) or "
        "corrupted / for a truncation case: length < len / for a pair: distinct members that both contain "
        "an escaped character or share a 16-char prefix; distinct = hash of the operation list / (entry, "
        "length) / pair")

F1, F2, F3, F4 = "C19-F1", "C19-F2", "C19-F3", "C19-F4"
BASE_TIME = 1_600_000_000           # logical clock origin (well before the real clock)
FOREIGN_MARK = "FOREIGN-ENTRY-EXECUTED"
EVIL_MARK = "EVIL-STRING-EXECUTED"
CACHE_TAG = sys.implementation.cache_tag
NAME_MAX = 255

ALL_ON = [1, 1, 1, 1]               # env_scripts, env_everything, execer.scriptcache, execer.cacheall
DEFAULTS = [1, 0, 1, 0]
ALL_OFF = [0, 0, 0, 0]

# ----------------------------------------------------------------------------------------
# generated material: bodies, names

SCRIPT_KINDS = ["print", "set", "both", "exit", "raise", "name", "invalid", "invalid2", "func", "klass",
                "env", "sub", "fstr", "empty", "comment", "nonl", "unicode", "where", "big"]
PY_SAFE_KINDS = [k for k in SCRIPT_KINDS if k not in ("env", "sub")]
CODE_KINDS = ["print", "expr", "set", "raise", "invalid", "env", "exit", "nonl", "multi", "prefixed", "blank"]
CODE_TOKS = ["c0", "c1", "C0"]
MODES = ["exec", "single", "eval"]
LONG_PREFIX = "# " + "verif-common-prefix-" * 3 + "\n"


def render_body(kind, tok):
    """Source text of a script body.  `tok` is unique per edit, so two edits never write the same text."""
    if kind == "print":
        return "print('%s')\n" % tok
    if kind == "set":
        return "v_tok = '%s'\n" % tok
    if kind == "both":
        return "v_tok = '%s'\nprint(v_tok)\n" % tok
    if kind == "exit":
        return "print('%s')\nraise SystemExit(%d)\nprint('not reached')\n" % (tok, 2 + len(tok) % 5)
    if kind == "raise":
        return "print('%s')\n\nraise ValueError('%s')\n" % (tok, tok)
    if kind == "name":
        return "print('%s')\nundefined_%s\n" % (tok, tok.lower())
    if kind == "invalid":
        return "print('%s'\nprint(\n" % tok
    if kind == "invalid2":
        return "v_tok = '%s'\ndef (:\n    pass\n" % tok
    if kind == "func":
        return ("def f_(a, *, b='%s'):\n    def g_():\n        return [a + b for _ in range(2)]\n    return g_()\n"
                "v_tok = f_('x')\nprint(v_tok)\n" % tok)
    if kind == "klass":
        return ("class C_:\n    tok = '%s'\n    def m(self):\n        return lambda: self.tok\n"
                "v_tok = C_().m()()\nprint(v_tok, {k: v for k, v in [(1, 2)]}, (lambda *a, **k: (a, k))(1, z=2))\n" % tok)
    if kind == "env":
        return "$V_TOK = '%s'\nprint($V_TOK)\nv_tok = ${'V_' + 'TOK'}\n" % tok
    if kind == "sub":
        return "v_tok = $(echo %s).strip()\nprint('got', v_tok)\n" % tok
    if kind == "fstr":
        return "v_tok = f\"{'%s'!r:>12}|{3 * 7:03d}\"\nprint(v_tok)\n" % tok
    if kind == "empty":
        return ""
    if kind == "comment":
        return "# %s" % tok
    if kind == "nonl":
        return "print('%s')" % tok
    if kind == "unicode":
        return "v_tok = '%s é✓中'\nprint(v_tok)\n" % tok
    if kind == "where":
        return ("import sys\nfr_ = sys._getframe()\nprint('%s', fr_.f_code.co_filename == __file__, fr_.f_lineno)\n"
                "del fr_, sys\n" % tok)
    if kind == "big":
        return "".join("w_%d = ('%s', %d, %r)\n" % (i, tok, i * 7919, "x" * (i % 9)) for i in range(48)) + \
            "print(w_47)\n"
    raise common.HarnessError("unknown body kind %r" % (kind,))


def body_shows_token(kind):
    return kind not in ("empty", "comment", "invalid", "invalid2")


def render_code(kind, tok):
    """Code strings for run_code_with_cache; a small pool, so the same text recurs (cache hits) and
    near-twins exist."""
    if kind == "print":
        return "print('%s')\n" % tok
    if kind == "expr":
        return "'%s' * 2\n" % tok           # single mode displays it, exec mode does not
    if kind == "set":
        return "v_code = '%s'\n" % tok
    if kind == "raise":
        return "raise KeyError('%s')\n" % tok
    if kind == "invalid":
        return "print('%s'\n" % tok
    if kind == "env":
        return "$V_CODE = '%s'; print($V_CODE)\n" % tok
    if kind == "exit":
        return "print('%s'); raise SystemExit(3)\n" % tok
    if kind == "nonl":
        return "print('%s')" % tok         # twin of "print" without the newline
    if kind == "multi":
        return "v_code = '%s'\nprint(v_code)\nv_code + '!'\n" % tok
    if kind == "prefixed":
        return LONG_PREFIX + "print('%s')\n" % tok   # texts sharing a long prefix
    if kind == "blank":
        return "print('%s') \n" % tok      # twin of "print" with a blank before the newline
    raise common.HarnessError("unknown code kind %r" % (kind,))


NAME_CHARS = "abzABZ09__..  -$%+=,~@éÉ"
FIXED_NAMES = ["script.xsh", "My_Script.V2.xsh", "A", "_a", "a.b", "a_.b", "UPPER CASE.XSH", "x__y.xsh", "__", "_.x",
               "run.py", "Tool.PY.xsh", ".hidden.xsh", "x.xsh.%s" % CACHE_TAG, "trailing_", "A_", "a b .xsh",
               "$HOME.xsh", "~user.xsh", "Été.xsh", "Z" * 60 + ".xsh", "q" * 200 + ".xsh"]
LONG_NAMES = ["L" * 122 + ".xsh", "m" * 244 + ".xsh", "N_." * 41 + "x", "k" * 250]


def mapped_len(name):
    """Length of the cache-file component xonsh derives from a script's base name (docstring of
    get_cache_filename: Mercurial-style escaping; upper case, `_` and `.` take two characters)."""
    n = 0
    for ch in name:
        n += 2 if ("A" <= ch <= "Z" or ch in "._") else len(ch.encode("utf-8"))
    return n + 1 + len(CACHE_TAG)


def name_too_long(name):
    return mapped_len(name) > NAME_MAX


def valid_component(c):
    return bool(c) and c not in (".", "..") and "/" not in c and "\0" not in c and len(c.encode("utf-8")) <= NAME_MAX


# ----------------------------------------------------------------------------------------
# marshal safety: never hand the unmarshaller a body that could allocate gigabytes


def risky_body(b):
    for i, ch in enumerate(b):
        if (ch & 0x7F) in b"([<>":
            n = int.from_bytes(bytes(b[i + 1:i + 5]).ljust(4, b"\0"), "little")
            if n > 4096:
                return True
    return False


def classify_body(b):
    """'risky' | 'unloadable' | 'noncode' | 'code' for the bytes that follow a header."""
    if risky_body(b):
        return "risky"
    try:
        o = marshal.loads(bytes(b))
    except Exception:  # noqa: BLE001
        return "unloadable"
    return "code" if isinstance(o, types.CodeType) else "noncode"


NONCODE_OBJS = {
    "str": "print('%s')" % EVIL_MARK,
    "bytes": ("print('%s')" % EVIL_MARK).encode(),
    "int": 123,
    "none": None,
    "tuple": (1, "two"),
    "dict": {"a": 1},
    "true": True,
}


def expected_header():
    import xonsh

    return xonsh.__version__.encode() + b"\n" + ".".join(map(str, sys.version_info)).encode() + b"\n"


def foreign_code_bytes():
    src = "print('%s')\nforeign_executed = 1\n" % FOREIGN_MARK
    return marshal.dumps(compile(src, "<foreign>", "exec"))


HEADER_VARIANTS = ["xver-other", "xver-longer", "xver-shorter", "xver-empty", "pyver-minor", "pyver-micro",
                   "pyver-level", "pyver-empty", "glued-space", "glued", "no-second-newline", "swapped",
                   "extra-line", "sibling-tag", "header-only", "first-line-only"]


def corrupt_bytes(how, arg, current):
    """File content for a corruption (None = no file content; handled by the caller)."""
    import xonsh

    xv = xonsh.__version__.encode()
    pv = ".".join(map(str, sys.version_info)).encode()
    hdr = xv + b"\n" + pv + b"\n"
    foreign = foreign_code_bytes()
    if how == "trunc":
        return current[: min(len(current), arg)]
    if how == "noncode":
        return hdr + marshal.dumps(NONCODE_OBJS[arg])
    if how == "random":
        return hdr + bytes.fromhex(arg)
    if how == "garbage":
        return bytes.fromhex(arg)
    if how == "header":
        vi = sys.version_info
        table = {
            "xver-other": b"0.0.1\n" + pv + b"\n",
            "xver-longer": xv + b"0\n" + pv + b"\n",
            "xver-shorter": xv[:-1] + b"\n" + pv + b"\n",
            "xver-empty": b"\n" + pv + b"\n",
            "pyver-minor": xv + b"\n" + ("%d.%d.%d.%s.%d" % (vi[0], vi[1] - 1, vi[2], vi[3], vi[4])).encode() + b"\n",
            "pyver-micro": xv + b"\n" + ("%d.%d.%d.%s.%d" % (vi[0], vi[1], vi[2] + 1, vi[3], vi[4])).encode() + b"\n",
            "pyver-level": xv + b"\n" + ("%d.%d.%d.%s.%d" % (vi[0], vi[1], vi[2], "beta", 1)).encode() + b"\n",
            "pyver-empty": xv + b"\n\n",
            "glued-space": xv + b" " + pv + b"\n",
            "glued": xv + pv + b"\n",
            "no-second-newline": xv + b"\n" + pv,
            "swapped": pv + b"\n" + xv + b"\n",
            "extra-line": b"#\n" + hdr,
            "sibling-tag": hdr,
        }
        if arg == "header-only":
            return hdr
        if arg == "first-line-only":
            return xv + b"\n"
        return table[arg] + foreign
    raise common.HarnessError("corrupt_bytes: %r" % (how,))


# ----------------------------------------------------------------------------------------
# system under test: one session per worker process

_state = {}


def _drop_dac():
    """Make EACCES real although the sandbox runs as root: drop CAP_DAC_OVERRIDE / CAP_DAC_READ_SEARCH
    from this process (uid stays 0; our own files stay accessible through the owner bits)."""
    if os.geteuid() != 0:
        return
    try:
        import ctypes

        class Hdr(ctypes.Structure):
            _fields_ = [("version", ctypes.c_uint32), ("pid", ctypes.c_int)]

        class Data(ctypes.Structure):
            _fields_ = [("effective", ctypes.c_uint32), ("permitted", ctypes.c_uint32),
                        ("inheritable", ctypes.c_uint32)]

        libc = ctypes.CDLL(None, use_errno=True)
        hdr = Hdr(0x20080522, 0)
        data = (Data * 2)()
        if libc.capget(ctypes.byref(hdr), data) != 0:
            return
        mask = ~((1 << 1) | (1 << 2)) & 0xFFFFFFFF
        data[0].effective &= mask
        data[0].permitted &= mask
        data[0].inheritable &= mask
        libc.capset(ctypes.byref(hdr), data)
    except Exception:  # noqa: BLE001
        return


def _perm_enforced(scratch):
    p = os.path.join(scratch, "perm-probe")
    with open(p, "w") as f:
        f.write("x")
    os.chmod(p, 0)
    try:
        with open(p, "rb"):
            ok = False
    except OSError:
        ok = True
    os.chmod(p, 0o600)
    os.remove(p)
    return ok


def _echo_alias(args, stdin=None):
    return " ".join(args) + "\n"


def _setup(scratch):
    if _state:
        return _state
    from vlib import session

    os.makedirs(scratch, exist_ok=True)
    _drop_dac()
    XSH = session.load_session(scratch)
    from xonsh import codecache

    XSH.aliases["echo"] = _echo_alias
    _state["XSH"] = XSH
    _state["ex"] = session.get_execer()
    _state["cc"] = codecache
    _state["scratch"] = scratch
    _state["perm"] = _perm_enforced(scratch)
    _state["seq"] = 0
    _state["header"] = expected_header()
    _state["base_data_dir"] = XSH.env["XONSH_DATA_DIR"]
    return _state


def use_cache_formula(sw, mode):
    """What should_use_cache documents ("caching has been enabled for this mode through command line flags
    or environment variables").  Used for labels / non-triviality and to know when an entry can have been
    consulted - never for a verdict on its own."""
    es, ea, xs, xa = sw
    if mode == "exec":
        return bool((xs or xa) and (es or ea))
    return bool(xa or ea)


def _simple(v):
    if isinstance(v, (str, int, float, bool, bytes, type(None))):
        return repr(v)
    if isinstance(v, (tuple, list)) and all(isinstance(x, (str, int, float, bool, bytes, type(None), tuple)) for x in v):
        return repr(v)
    return "<%s>" % type(v).__name__


def _ns_view(glb):
    return {k: _simple(v) for k, v in sorted(glb.items()) if k != "__builtins__"}


def _exc_view(tp, val, tb):
    if tp is None:
        return None
    where = None
    last = None
    while tb is not None:
        last = tb
        tb = tb.tb_next
    if last is not None:
        where = [os.path.basename(last.tb_frame.f_code.co_filename), last.tb_lineno]
    if tp is SystemExit:
        msg = repr(getattr(val, "code", None))
    elif issubclass(tp, SyntaxError):
        msg = "%s line %s" % (getattr(val, "msg", ""), getattr(val, "lineno", None))
        where = None
    else:
        msg = str(val)
    return {"type": tp.__name__, "msg": msg[:300], "where": where}


def observe(fn, glb):
    """Call fn() (which returns an exc_info triple or raises) with stdout/stderr captured."""
    out, err = io.StringIO(), io.StringIO()
    old = sys.stdout, sys.stderr, sys.displayhook
    sys.stdout, sys.stderr = out, err
    sys.displayhook = sys.__displayhook__
    obs = {}
    try:
        try:
            r = fn()
            if r is None:
                obs["returned"] = "None instead of an exc_info triple"
            else:
                obs["returned"] = _exc_view(*r)
        except BaseException as e:  # noqa: BLE001
            if isinstance(e, KeyboardInterrupt):
                raise
            obs["raised"] = _exc_view(type(e), e, None)
    finally:
        sys.stdout, sys.stderr, sys.displayhook = old
        import builtins

        if hasattr(builtins, "_"):
            try:
                del builtins._
            except AttributeError:
                pass
    obs["stdout"] = out.getvalue()
    obs["ns"] = _ns_view(glb)
    obs["_stderr"] = err.getvalue()[-400:]
    return obs


def same_obs(a, b):
    return all(a.get(k) == b.get(k) for k in ("returned", "raised", "stdout", "ns", "rc"))


def obs_diff(a, b):
    out = []
    for k in ("raised", "returned", "stdout", "rc", "ns"):
        if a.get(k) != b.get(k):
            out.append("%s: got %r, uncached reference %r" % (k, a.get(k), b.get(k)))
    return "; ".join(out)


def set_switches(sw):
    XSH, ex = _state["XSH"], _state["ex"]
    XSH.env["XONSH_CACHE_SCRIPTS"] = bool(sw[0])
    XSH.env["XONSH_CACHE_EVERYTHING"] = bool(sw[1])
    ex.scriptcache = bool(sw[2])
    ex.cacheall = bool(sw[3])


def reset_switches():
    set_switches(DEFAULTS)


def ref_observe(text, filename, mode, glb):
    """The uncached reference: compile the *text* and run it, never looking at any cache."""
    cc, ex = _state["cc"], _state["ex"]

    def fn():
        code = cc.compile_code(filename, text, ex, glb, glb, mode)
        return cc.run_compiled_code(code, glb, None, mode)

    return observe(fn, glb)


# ----------------------------------------------------------------------------------------
# child processes

CHILD_SHIM = ("import sys; sys.path.insert(0, %r); from vlib import tables; tables.install(); "
              "from xonsh.main import main; main()")


def child_env(data_dir, sw_env):
    e = dict(os.environ)
    e["PYTHONPATH"] = common.REPO
    e["VERIF_REPO"] = common.REPO
    e["XONSH_DATA_DIR"] = data_dir
    e["PATH"] = "/usr/bin:/bin"
    e.pop("XONSH_CACHE_SCRIPTS", None)
    e.pop("XONSH_CACHE_EVERYTHING", None)
    for k, v in sw_env.items():
        if v is not None:
            e[k] = v
    return e


def run_child(args, data_dir, sw_env, cwd, stdin_text=None):
    os.makedirs(data_dir, exist_ok=True)
    cmd = [sys.executable, "-c", CHILD_SHIM % common.VERIF, "--no-rc"] + list(args)
    try:
        r = subprocess.run(cmd, env=child_env(data_dir, sw_env), cwd=cwd, capture_output=True, timeout=120,
                           input=(stdin_text.encode() if stdin_text is not None else None),
                           stdin=(subprocess.DEVNULL if stdin_text is None else None))
    except subprocess.TimeoutExpired:
        return {"stdout": "", "rc": "timeout", "_stderr": ""}
    return {"stdout": r.stdout.decode("utf-8", "replace"), "rc": r.returncode,
            "_stderr": r.stderr.decode("utf-8", "replace")[-600:]}


# ----------------------------------------------------------------------------------------
# one history = one script, one data dir, one logical clock

REBUILDABLE = ("trunc", "header", "noncode", "random", "garbage")


class History:
    def __init__(self, open_ids=(), backend="inproc"):
        self.open = set(open_ids)
        self.backend = backend
        self.ops = []
        self.labels = []
        self.nontrivial = False
        self.excluded = {}
        self.root = None
        self.clock = BASE_TIME
        self.edits = 0
        self.script = None
        self.script_text = None
        self.script_kind = None
        self.last_change = "edit"
        self.entry_path = None          # script cache entry (found by scanning the data dir)
        self.entry_stamp = None         # st_mtime_ns we gave it last
        self.entry_corrupt = None       # (how, arg, bytes) while our corruption is still in place
        self.codes = {}                 # text -> dict(file, stamp, corrupt, written_mode)
        self.code_files = {}            # cache file -> text
        self.refs = {}
        self.nref = 0

    # -- plumbing ---------------------------------------------------------------------------
    def close(self):
        reset_switches()
        try:
            _state["XSH"].env["XONSH_DATA_DIR"] = _state["base_data_dir"]
        except Exception:  # noqa: BLE001
            pass
        if self.root:
            for dp, dn, fn in os.walk(self.root):
                for f in fn:
                    p = os.path.join(dp, f)
                    try:
                        if not os.path.islink(p) and not os.access(p, os.R_OK):
                            os.chmod(p, 0o600)
                    except OSError:
                        pass
            shutil.rmtree(self.root, ignore_errors=True)
            self.root = None

    def tick(self):
        self.clock += 1
        return self.clock

    def bad(self, kind, detail, finding=None, bucket=None):
        raise Mismatch(Failure(kind, {"ops": list(self.ops), "backend": self.backend}, detail,
                               finding=finding, bucket=bucket or kind))

    def lab(self, s):
        self.labels.append(s)

    def exclude(self, fid):
        self.excluded[fid] = self.excluded.get(fid, 0) + 1
        self.ops.pop()          # the operation was not executed: keep the recorded history exact

    # -- operations -------------------------------------------------------------------------
    def step(self, op):
        self.ops.append(op)
        name = op["op"]
        if name == "init":
            return self.op_init(op)
        if self.root is None:
            raise common.HarnessError("history does not start with init: %r" % (self.ops,))
        if name == "edit":
            return self.op_edit(op)
        if name == "touch":
            return self.op_touch(op)
        if name == "run":
            return self.op_run(op)
        if name == "code":
            return self.op_code(op)
        if name == "corrupt":
            return self.op_corrupt(op)
        raise common.HarnessError("unknown op %r" % (op,))

    def op_init(self, op):
        st = _state
        st["seq"] += 1
        comps = list(op["path"])
        if not comps or not all(valid_component(c) for c in comps):
            raise common.HarnessError("generator produced an invalid path %r" % (comps,))
        if name_too_long(comps[-1]) and F4 in self.open:
            self.excluded[F4] = self.excluded.get(F4, 0) + 1
            comps[-1] = "short_%d.xsh" % len(comps[-1])
            op["path"] = comps
        self.root = os.path.join(st["scratch"], "m%d-%d" % (os.getpid(), st["seq"]))
        shutil.rmtree(self.root, ignore_errors=True)
        self.data = os.path.join(self.root, "data")
        real = os.path.join(self.root, "src")
        os.makedirs(os.path.join(real, *comps[:-1]))
        os.makedirs(self.data)
        top = real
        if op.get("link"):
            top = os.path.join(self.root, "lnk")
            os.symlink(real, top)
        self.script = os.path.join(top, *comps)
        self.rel = bool(op.get("rel"))
        st["XSH"].env["XONSH_DATA_DIR"] = self.data
        self.lab("name:" + ("too-long" if name_too_long(comps[-1]) else
                            "py" if comps[-1].endswith(".py") else "xsh" if comps[-1].endswith(".xsh") else "other"))
        if op.get("link"):
            self.lab("name:via-symlink")
        if len(comps) > 1:
            self.lab("name:nested")

    def op_edit(self, op):
        self.edits += 1
        kind = op["kind"]
        tok = "K%dx%s" % (self.edits, op.get("salt", ""))
        text = render_body(kind, tok)
        with open(self.script, "w", encoding="utf-8") as f:
            f.write(text)
        t = self.tick()
        os.utime(self.script, (t, t))
        self.script_text, self.script_kind, self.script_tok = text, kind, tok
        self.last_change = "edit"
        self.lab("edit:" + kind)

    def op_touch(self, op):
        if self.script_text is None:
            return self.ops.pop()
        t = self.tick()
        os.utime(self.script, (t, t))
        self.last_change = "touch"
        self.lab("touch")

    # -- the script's cache entry -------------------------------------------------------------
    def find_entry(self):
        if self.entry_path is not None and os.path.lexists(self.entry_path):
            return self.entry_path
        hits = []
        for dp, dn, fn in os.walk(os.path.join(self.data, "xonsh_script_cache")):
            for f in fn:
                if f.endswith("." + CACHE_TAG):
                    hits.append(os.path.join(dp, f))
        if len(hits) > 1:
            self.bad("two-entries", "one script, but %d script-cache entries: %r" % (len(hits), hits))
        self.entry_path = hits[0] if hits else None
        return self.entry_path

    def entry_condition(self, path, corrupt, stamp, mtime_matters):
        if path is None or not os.path.lexists(path):
            return "absent"
        if corrupt is not None:
            return "corrupt:" + corrupt[0]
        if mtime_matters and os.stat(path).st_mtime < os.stat(self.script).st_mtime:
            return "stale-after-" + self.last_change
        return "fresh"

    def stamp(self, path, old_stamp):
        """After a run: a cache file whose mtime is not the one we gave it was (re)written - give it
        the next logical time.  Returns (new stamp, rewritten?)."""
        if path is None:
            return old_stamp, False
        try:
            s = os.lstat(path)
        except OSError:
            return None, False
        if not stat.S_ISREG(s.st_mode):
            return old_stamp, False
        if old_stamp is not None and s.st_mtime_ns == old_stamp:
            return old_stamp, False
        t = self.tick()
        os.utime(path, (t, t))
        return os.lstat(path).st_mtime_ns, True

    def well_formed(self, path):
        """(ok, reason, code object) by the layout update_cache documents: version line, Python version
        line, marshalled code."""
        try:
            with open(path, "rb") as f:
                data = f.read()
        except OSError as e:
            return False, "cannot be read: %s" % e, None
        hdr = _state["header"]
        if not data.startswith(hdr):
            return False, "does not start with the header %r: %r" % (hdr, data[:40]), None
        body = data[len(hdr):]
        if risky_body(body):
            return False, "body not inspected (size field too large)", None
        try:
            code = marshal.loads(body)
        except Exception as e:  # noqa: BLE001
            return False, "body does not unmarshal: %s" % e, None
        if not isinstance(code, types.CodeType):
            return False, "body is a %s, not a code object" % type(code).__name__, None
        return True, "", code

    # -- running the script -------------------------------------------------------------------
    def script_ns(self, via):
        if via == "import":
            return {"__name__": "verif_mod", "__file__": self.script}
        return {"__name__": "__main__", "__file__": self.spelling()}

    def spelling(self):
        if self.backend == "proc" and self.rel:
            return os.path.relpath(self.script, self.root)
        return self.script

    def reference(self, key, make):
        if key not in self.refs:
            self.refs[key] = make()
        return self.refs[key]

    def proc_ref(self, args, stdin_text=None):
        self.nref += 1
        d = os.path.join(self.root, "refdata%d" % self.nref)
        obs = run_child(["--no-script-cache"] + args, d, {"XONSH_CACHE_SCRIPTS": "0", "XONSH_CACHE_EVERYTHING": "0"},
                        self.root, stdin_text)
        shutil.rmtree(d, ignore_errors=True)
        return obs

    @staticmethod
    def proc_switches(sw):
        flags = []
        if not sw[2]:
            flags.append("--no-script-cache")
        if sw[3]:
            flags.append("--cache-everything")
        return flags, {"XONSH_CACHE_SCRIPTS": "1" if sw[0] else "0", "XONSH_CACHE_EVERYTHING": "1" if sw[1] else "0"}

    def op_run(self, op):
        if self.script_text is None:
            return self.ops.pop()
        st = _state
        cc, ex = st["cc"], st["ex"]
        sw = list(op["sw"])
        via = op.get("via", "script")
        if via == "import" and (self.backend == "proc" or not self.script.endswith(".xsh")):
            via = op["via"] = "script"
        text, fn = self.script_text, self.spelling()
        path = self.find_entry()
        cond = self.entry_condition(path, self.entry_corrupt, self.entry_stamp, True)
        on = use_cache_formula(sw, "exec")
        if self.backend == "proc":
            ref = self.reference(("proc-script", text), lambda: self.proc_ref([fn]))
            flags, envsw = self.proc_switches(sw)
            obs = run_child(flags + [fn], self.data, envsw, self.root)
        else:
            ref = self.reference(("script", via, text), lambda: ref_observe(text, fn, "exec", self.script_ns(via)))
            glb = self.script_ns(via)
            set_switches(sw)
            try:
                if via == "import":
                    from xonsh.imphooks import XonshImportHook

                    hook = XonshImportHook(ex)
                    hook._filenames["verif_mod"] = fn

                    def call():
                        code = hook.get_code("verif_mod")
                        return cc.run_compiled_code(code, glb, None, "exec")
                else:
                    def call():
                        return cc.run_script_with_cache(fn, ex, glb=glb, loc=None, mode="exec")
                obs = observe(call, glb)
            finally:
                reset_switches()
        if body_shows_token(self.script_kind) and self.script_tok not in ref["stdout"] + repr(ref.get("ns")) \
                and not (fn.endswith(".py") and self.script_kind in ("env", "sub")):
            raise common.HarnessError("the uncached reference does not show the token %r: %r" % (self.script_tok, ref))
        self.lab("run:%s:%s" % (cond, "cache-on" if on else "cache-off"))
        if via == "import":
            self.lab("via:import")
        if on and (cond.startswith("stale") or cond.startswith("corrupt")):
            self.nontrivial = True
        corrupt = self.entry_corrupt
        if not same_obs(obs, ref):
            self.fail_run(op, obs, ref, cond, corrupt, None)
        path = self.find_entry()
        self.entry_stamp, rewritten = self.stamp(path, self.entry_stamp)
        if rewritten:
            self.entry_corrupt = None
        # a corrupted entry must have been replaced when the cache is on under every reading of the switches
        if corrupt is not None and sw[0] and sw[2] and corrupt[0] in REBUILDABLE and "raised" not in ref \
                and not (corrupt[0] == "header" and corrupt[1] == "sibling-tag") \
                and not (corrupt[0] == "trunc" and corrupt[3]):
            self.check_rebuilt(path, corrupt, ref, via)

    def check_rebuilt(self, path, corrupt, ref, via, code_mode=None, text=None):
        what = "%s(%s)" % (corrupt[0], corrupt[1])
        if path is None or not os.path.isfile(path):
            self.bad("not-rebuilt", "after a cached run over a corrupted entry [%s] there is no entry file" % what,
                     bucket="not-rebuilt:" + corrupt[0])
        ok, why, code = self.well_formed(path)
        if not ok:
            with open(path, "rb") as f:
                same = f.read() == corrupt[2]
            self.bad("not-rebuilt", "after a cached run the corrupted entry [%s] %s: %s" % (
                what, "is still in place" if same else "was replaced by something that is not a valid entry", why),
                bucket="not-rebuilt:" + corrupt[0])
        if self.backend == "proc":
            return
        # the rebuilt entry must be the compilation of the *current* source
        if code_mode is None:
            glb = self.script_ns(via)
            mode = "exec"
        else:
            glb = {"__name__": "__main__"}
            mode = code_mode
        cc = _state["cc"]
        obs = observe(lambda: cc.run_compiled_code(code, glb, None, mode), glb)
        if not same_obs(obs, ref):
            self.bad("rebuilt-wrong", "the entry written after the corruption [%s] does not behave like the source: %s"
                     % (what, obs_diff(obs, ref)), bucket="rebuilt-wrong:" + corrupt[0])

    def fail_run(self, op, obs, ref, cond, corrupt, code_info):
        raised = obs.get("raised")
        fatal = raised is not None and raised != ref.get("raised")
        if self.backend == "proc":
            fatal = obs.get("rc") != ref.get("rc") and "Traceback" in obs.get("_stderr", "")
        executed = FOREIGN_MARK in obs.get("stdout", "") or EVIL_MARK in obs.get("stdout", "") or \
            "foreign_executed" in (obs.get("ns") or {})
        kind = "foreign-entry-executed" if executed else "fatal" if fatal else \
            "stale-result" if cond.startswith("stale") else "result-differs"
        finding = None
        if corrupt is not None:
            if corrupt[0] == "noncode" or (corrupt[0] == "random" and classify_body(bytes.fromhex(corrupt[1])) == "noncode"):
                finding = F1
            if corrupt[0] == "chmod0" and (raised or {}).get("type") == "PermissionError":
                finding = F2
        if code_info is not None and code_info.get("written_mode") not in (None, op["mode"]) and corrupt is None:
            finding = F3
        if raised and raised["type"] == "OSError" and "File name too long" in raised["msg"] and \
                name_too_long(os.path.basename(self.script)) and op["op"] == "run":
            finding = F4
        if self.backend == "proc" and op["op"] == "run" and name_too_long(os.path.basename(self.script)) \
                and "File name too long" in obs.get("_stderr", ""):
            finding = F4
        detail = "%s with switches %r, entry %s: %s" % (
            "script run" if op["op"] == "run" else "code %r in mode %s" % (code_info["text"], op["mode"]),
            op["sw"], cond + ("(%s)" % (corrupt[1],) if corrupt else ""), obs_diff(obs, ref))
        if obs.get("_stderr") and fatal:
            detail += " | stderr: " + obs["_stderr"][-200:]
        self.bad(kind, detail, finding=finding, bucket="%s:%s:%s" % (kind, op["op"], cond.split(":")[-1]
                                                                   if cond.startswith("corrupt") else cond))

    # -- code strings ---------------------------------------------------------------------------
    def code_entry(self, text):
        cc = _state["cc"]
        info = self.codes.get(text)
        if info is None:
            f = cc.get_cache_filename(cc.code_cache_name(text), code=True)
            if os.path.commonpath([f, self.data]) != self.data:
                self.bad("entry-outside-data-dir", "code %r is cached at %r, outside $XONSH_DATA_DIR %r" % (text, f, self.data))
            other = self.code_files.get(f)
            if other is not None and other != text:
                self.bad("code-entry-shared", "two different code strings share the cache file %r: %r and %r" % (f, other, text))
            self.code_files[f] = text
            info = self.codes[text] = {"text": text, "file": f, "stamp": None, "corrupt": None, "written_mode": None}
        return info

    def op_code(self, op):
        st = _state
        cc, ex = st["cc"], st["ex"]
        mode, sw = op["mode"], list(op["sw"])
        text = render_code(op["kind"], op["tok"])
        info = self.code_entry(text)
        cond = self.entry_condition(info["file"], info["corrupt"], info["stamp"], False)
        on = use_cache_formula(sw, mode)
        if F3 in self.open and cond == "fresh" and info["written_mode"] not in (None, mode) and (sw[1] or sw[3]):
            return self.exclude(F3)
        if self.backend == "proc":
            pmode = "exec" if mode == "exec" else "single"
            op["mode"] = mode = pmode
            if F3 in self.open and cond == "fresh" and info["written_mode"] not in (None, mode) and (sw[1] or sw[3]):
                return self.exclude(F3)
            if pmode == "single":
                args, stdin_text = ["-c", text], None
            else:
                args, stdin_text = [], text
            ref = self.reference(("proc-code", pmode, text), lambda: self.proc_ref(args, stdin_text))
            flags, envsw = self.proc_switches(sw)
            obs = run_child(flags + args, self.data, envsw, self.root, stdin_text)
        else:
            ref = self.reference(("code", mode, text), lambda: ref_observe(text, "<string>", mode, {"__name__": "__main__"}))
            glb = {"__name__": "__main__"}
            set_switches(sw)
            try:
                obs = observe(lambda: cc.run_code_with_cache(text, "<string>", ex, glb=glb, loc=None, mode=mode), glb)
            finally:
                reset_switches()
        self.lab("code:%s:%s:%s" % (mode, cond, "cache-on" if on else "cache-off"))
        if on and cond.startswith("corrupt"):
            self.nontrivial = True
        corrupt = info["corrupt"]
        if not same_obs(obs, ref):
            self.fail_run(op, obs, ref, cond, corrupt, info)
        info["stamp"], rewritten = self.stamp(info["file"], info["stamp"])
        if rewritten:
            info["corrupt"] = None
            info["written_mode"] = mode
        if corrupt is not None and sw[1] and sw[3] and corrupt[0] in REBUILDABLE and "raised" not in ref \
                and not (corrupt[0] == "header" and corrupt[1] == "sibling-tag") \
                and not (corrupt[0] == "trunc" and corrupt[3]):
            self.check_rebuilt(info["file"], corrupt, ref, None, code_mode=mode, text=text)

    # -- corruption -------------------------------------------------------------------------------
    def op_corrupt(self, op):
        how, arg = op["how"], op.get("arg")
        if op.get("target") == "code":
            info = self.code_entry(render_code(op["kind"], op["tok"]))
            path = info["file"]
        else:
            info = None
            path = self.find_entry()
        if path is None or not os.path.isfile(path) or os.path.islink(path):
            self.lab("corrupt:no-entry")
            return self.ops.pop()
        with open(path, "rb") as f:
            current = f.read()
        noop = False
        if how in ("noncode", "random"):
            cls = classify_body(marshal.dumps(NONCODE_OBJS[arg]) if how == "noncode" else bytes.fromhex(arg))
            if cls in ("risky", "code"):
                self.lab("corrupt:discarded-" + cls)
                return self.ops.pop()
            if cls == "noncode" and F1 in self.open:
                return self.exclude(F1)
        if how == "chmod0":
            if F2 in self.open:
                return self.exclude(F2)
            os.chmod(path, 0)
            new = current
            if not _state["perm"]:
                self.lab("corrupt:chmod0-not-enforced")
                noop = True
        elif how == "dir":
            os.remove(path)
            os.mkdir(path)
            new = None
        elif how == "header" and arg == "sibling-tag":
            sib = path[: -len(CACHE_TAG)] + ("cpython-27" if CACHE_TAG != "cpython-27" else "cpython-39")
            with open(sib, "wb") as f:
                f.write(corrupt_bytes(how, arg, current) + foreign_code_bytes())
            new = current
            noop = True
        else:
            new = corrupt_bytes(how, arg, current)
            noop = new == current
            with open(path, "wb") as f:
                f.write(new)
        stamp = None
        if how != "dir":
            t = self.tick()
            os.utime(path, (t, t))
            stamp = os.lstat(path).st_mtime_ns
        state = None if (noop and how != "chmod0") else (how, arg, new, noop)
        if how == "chmod0" and noop:
            state = None
        if info is None:
            self.entry_stamp, self.entry_corrupt = stamp, state
        else:
            info["stamp"], info["corrupt"] = stamp, state
        self.lab("corrupt:%s" % how + (":" + arg if how == "header" else ""))

"""C16 - `$PWD`, the process directory and the directory stack stay in step.

Generator : a Hypothesis RuleBasedStateMachine issues histories of the real `cd` / `pushd` / `popd` /
            `dirs` aliases (two thirds of the commands as `XSH.aliases[name](args)`, a third through
            `Execer.exec("_r = !(cd x)")`) on a scratch tree with nested directories, symlinks to
            directories (one pointing upwards), a directory named `-`, one named `+1`, one with a blank,
            a regular file, a dangling link, a directory that a rule removes and recreates, and - when the
            worker can make permission checks real (see `_drop_dac`) - directories without search
            permission.  Argument forms: none, relative, absolute, `..`, through-symlink `..`, `-`,
            `-N`, `-P`, `+N/-N`, `-n`, `-q`, out of range, malformed, two arguments, unknown options.
            Further rules toggle `$AUTO_PUSHD`, `$PUSHD_MINUS`, `$PUSHD_SILENT`, `$CDPATH`,
            `$DIRSTACK_SIZE`, change the process directory behind xonsh's back followed by
            `BaseShell._fix_cwd`, use the `p'...'.cd()` context manager and do `pushd d; popd`.
Oracle    : a reference model written from the documentation (bash manual "Directory Stack Builtins",
            the docstrings of `pushd_fn` / `popd_fn` / `dirs_fn` / `cd`, the `$CDPATH` / `$DIRSTACK_SIZE`
            descriptions in environ.py; zsh's PUSHD_MINUS "exchanges the meaning of + and -").  Where the
            documentation admits two readings (logical vs physical `..` through a symlink, a word that is
            both `+N` and a directory name, `cd -` next to a directory called `-`, the undocumented
            `cd -N`, `pushd -n +N`) the model accepts every reading and only what all readings forbid is
            a failure.  After *every* step: `realpath($PWD) == os.getcwd()`; a successful change sets
            `$OLDPWD` to the previous `$PWD`; a command that must fail returns non-zero, writes to
            stderr and leaves cwd, `$PWD`, `$OLDPWD` and `DIRSTACK` exactly as they were; `DIRSTACK`
            equals the model's stack (exact strings); `len(DIRSTACK) <= $DIRSTACK_SIZE` after a
            successful `pushd` / auto-push; `pushd d; popd` restores directory and stack; what
            `pushd` / `popd` / `dirs` print is the stack.
Findings  : three recorded defects have narrow predicates (alternatives tagged `known` in the model):
            F1 extraction instead of rotation, F2 swallowed chdir failure, F3 relative word remembered by
            `pushd -n`.  While a finding is open in known_findings.json its exact shape is tolerated (F1, F2;
            counted) or not generated (F3; counted); otherwise it is reported with `finding=<id>`.
            Failing histories are shrunk by Hypothesis and then by `minimize_ops`; `check_history`
            replays a history without Hypothesis.
"""

from __future__ import annotations

import io
import json
import os
import re
import sys

from vlib import common
from vlib.common import Failure, Mismatch, Stats

PROP = "C16"
LEVEL = "exploration"
RULE = ("history of cd/pushd/popd/dirs commands (all argument forms), settings changes, external chdir + "
        "_fix_cwd, path-literal cd() and removal/recreation of a remembered directory, run against the real "
        "aliases on a scratch tree with symlinks; one evaluation = one history (the invariants are checked "
        "after each of its steps, step counts are in the histogram); non-trivial = the history contains a "
        "step executed while the stack held >= 2 remembered entries, or a command that had to fail; "
        "distinct = hash of the operation list")
HOOKS = False

F1 = "C16-F1"   # pushd +N/-N extracts the entry instead of rotating
F2 = "C16-F2"   # chdir failure inside _change_working_directory is swallowed
F3 = "C16-F3"   # pushd -n <relative dir> remembers the word, not the directory

# ----------------------------------------------------------------------------------------
# scratch tree

TREE_DIRS = ["a/b/c", "a/x", "d/e", "e", "home/proj", "-", "+1", "sp ace", "gone",
             "noexec", "noperm", "locked/inner"]
TREE_LINKS = [("ln", "a/b"), ("lnd", "d"), ("dangling", "nowhere"), ("a/b/up", "../..")]

REL = ["a", "a/b", "b", "c", "b/c", "x", "d", "e", "d/e", "..", "../..", ".", "ln", "lnd", "lnd/e",
       "ln/..", "ln/../x", "../x", "../d", "ln/c", "up", "up/d", "home", "proj", "sp ace", "-", "./-",
       "+1", "./+1", "gone", "file", "dangling", "missing", "a/missing"]
ABS = ["@", "@/a", "@/a/b", "@/a/b/c", "@/a/x", "@/d", "@/d/e", "@/e", "@/ln", "@/ln/c", "@/lnd",
       "@/lnd/e", "@/home", "@/home/proj", "@/sp ace", "@/-", "@/+1", "@/gone", "@/file", "@/missing",
       "@/a/b/up", "@/ln/../x", "@/ln/.."]
PERM_REL = ["noexec", "noperm", "locked/inner"]
PERM_ABS = ["@/noexec", "@/noperm", "@/locked/inner"]
CDPATHS = [[], [], ["@/a"], ["@/d"], ["@/a", "@"], ["@/missing", "@/d"]]
SIZES = [1, 2, 3, 4, 20, 20]


def build_tree(root):
    if os.path.isdir(root):
        return
    for d in TREE_DIRS:
        os.makedirs(os.path.join(root, d))
    with open(os.path.join(root, "file"), "w") as f:
        f.write("x\n")
    for name, target in TREE_LINKS:
        os.symlink(target, os.path.join(root, name))
    lock_tree(root)


def lock_tree(root):
    os.chmod(os.path.join(root, "noexec"), 0o600)
    os.chmod(os.path.join(root, "noperm"), 0o000)
    os.chmod(os.path.join(root, "locked"), 0o000)


def unlock_tree(root):
    for d in ("noexec", "noperm", "locked"):
        try:
            os.chmod(os.path.join(root, d), 0o755)
        except OSError:
            pass


def _drop_dac():
    """Make permission failures real although the sandbox runs as root: drop CAP_DAC_OVERRIDE and
    CAP_DAC_READ_SEARCH from the effective, permitted and inheritable sets of *this* (worker) process.
    The uid stays 0, so the interpreter's files stay readable - no need for the warm-up that a
    setuid(65534) would require.  Returns nothing; `perm_enforced` measures the effect."""
    if os.geteuid() != 0 or os.environ.get("VERIF_C16_KEEP_CAPS"):
        return      # (the variable exists to exercise the "class skipped" path of this check)
    try:
        import ctypes

        class Hdr(ctypes.Structure):
            _fields_ = [("version", ctypes.c_uint32), ("pid", ctypes.c_int)]

        class Data(ctypes.Structure):
            _fields_ = [("effective", ctypes.c_uint32), ("permitted", ctypes.c_uint32),
                        ("inheritable", ctypes.c_uint32)]

        libc = ctypes.CDLL(None, use_errno=True)
        hdr = Hdr(0x20080522, 0)
        data = (Data * 2)()
        if libc.capget(ctypes.byref(hdr), data) != 0:
            return
        mask = ~((1 << 1) | (1 << 2)) & 0xFFFFFFFF
        data[0].effective &= mask
        data[0].permitted &= mask
        data[0].inheritable &= mask
        libc.capset(ctypes.byref(hdr), data)
    except Exception:  # noqa: BLE001
        return


def perm_enforced(root):
    """True when this process really cannot enter the directories without search permission."""
    ok = True
    for d in ("noexec", "noperm", "locked/inner"):
        p = os.path.join(root, d)
        if os.access(p, os.X_OK):
            ok = False
        try:
            fd = os.open(p, os.O_RDONLY | os.O_DIRECTORY)
        except OSError:
            continue
        try:
            os.fchdir(fd)
            ok = False
        except OSError:
            pass
        finally:
            os.close(fd)
    return ok


# ----------------------------------------------------------------------------------------
# reference model


def rp(p):
    return os.path.realpath(p)


def acc(p):
    """An accessible directory: what chdir(2) needs."""
    return os.path.isdir(p) and os.access(p, os.X_OK)


FAIL = {"kind": "fail"}
_NUM = re.compile(r"^[+-]\d+$")


class Model:
    def __init__(self, root, home):
        self.root = root
        self.home = home
        self.pwd = root
        self.oldpwd = None
        self.stack = []
        self.auto = False
        self.minus = False
        self.silent = False
        self.cdpath = []
        self.size = 20

    # -- resolving a word / remembered entry to directories --------------------------------
    def resolve(self, w, physical=False):
        """-> (candidate real directories, strict).  The logical reading removes `..` textually from
        $PWD/w (bash default, what xonsh's abspath() does), the physical reading lets the OS resolve w
        from the real working directory (what `-P`, isdir() and chdir() do).  strict: every reading
        names an accessible directory, i.e. the command must succeed."""
        L, P = self.logical(w), self.physical(w)
        okL, okP = L is not None and acc(L), P is not None and acc(P)
        if physical:
            return ([P], True) if okP else ([], False)
        c = []
        if okL:
            c.append(rp(L))
        if okP and P not in c:
            c.append(P)
        return c, okL and okP

    def logical(self, w):
        """POSIX cd step 8: `..` removes the preceding component textually, provided that what precedes
        it names a directory.  -> path or None"""
        cur = []
        for comp in os.path.join(self.pwd, w).split("/"):
            if comp in ("", "."):
                continue
            if comp == "..":
                if not os.path.isdir("/" + "/".join(cur)):
                    return None
                if cur:
                    cur.pop()
            else:
                cur.append(comp)
        return "/" + "/".join(cur)

    def physical(self, w):
        """what the OS makes of w, seen from the real working directory.  -> real path or None"""
        try:
            return os.path.realpath(os.path.join(rp(self.pwd), w), strict=True)
        except OSError:
            return None

    def local_isdir(self, w):
        L, P = self.logical(w), self.physical(w)
        return (L is not None and os.path.isdir(L)) or (P is not None and os.path.isdir(P))

    def trunc(self, stack):
        return list(stack[: self.size])

    def dirs(self):
        return [self.pwd] + list(self.stack)

    def abbrev(self, e):
        h = self.home
        if e == h or e.startswith(h + "/"):
            return "~" + e[len(h):]
        return e

    # -- alternatives ----------------------------------------------------------------------
    # an alternative is a dict:
    #   kind 'fail'                      rc != 0, message on stderr, nothing changed
    #   kind 'ok'    target   real dir the new $PWD must name, None = $PWD string unchanged
    #                physical $PWD must be its own realpath
    #                oldpwd   'old' (= previous $PWD) | 'keep' | 'either'
    #                stack    list of exact strings or ('names', realdir, base) items, or
    #                         ('perm', multiset-source, length) for "any order"
    #                known    finding id when this alternative is a recorded defect, else absent
    #   kind 'swallow' (known F2)  rc == 0, 'cd: [Errno' on stderr, cwd/$PWD/$OLDPWD unchanged,
    #                stacks   list of acceptable stacks

    def _moves(self, cands, strict, stack, physical=False, swallow_stacks=None):
        alts = [{"kind": "ok", "target": c, "physical": physical, "oldpwd": "old", "stack": stack}
                for c in cands]
        if not strict:
            alts.append(FAIL)
            if swallow_stacks is not None:
                alts.append({"kind": "swallow", "stacks": swallow_stacks, "known": F2})
        return alts

    def plan_cd(self, args):
        a = list(args)
        phys = False
        if a and a[0] == "-P":
            phys = True
            a = a[1:]
        if len(a) > 1:
            return [FAIL]
        pushed = self.trunc([self.pwd] + self.stack) if self.auto else list(self.stack)
        sw = [list(self.stack), pushed]
        if not a:
            c, s = self.resolve(self.home, phys)
            return self._moves(c, s, pushed, phys, sw)
        w = a[0]
        if w == "-":
            cl, sl = self.resolve("-", phys)
            co, so = self.resolve(self.oldpwd, phys) if self.oldpwd is not None else ([], False)
            cands = cl + [x for x in co if x not in cl]
            strict = (sl and so) or (not self.local_isdir("-") and not cl and so)
            return self._moves(cands, strict, pushed, phys, sw)
        if re.match(r"^-\d+$", w) and not self.local_isdir(w):
            num = int(w[1:])
            dirs = self.dirs()
            n = len(dirs)
            if num >= n:
                return [FAIL]
            alts = []
            strict = True
            for idx in sorted({num, n - 1 - num}):
                if idx == 0:
                    # the current directory: nothing to do (undocumented form; accept it with or
                    # without the side effects of a cd to ".")
                    for st in (list(self.stack), pushed):
                        alts.append({"kind": "ok", "target": None, "physical": False, "oldpwd": "either",
                                     "stack": st})
                        alts.append({"kind": "ok", "target": rp(self.pwd), "physical": phys,
                                     "oldpwd": "either", "stack": st})
                    continue
                c, s = self.resolve(dirs[idx], phys)
                strict = strict and s
                alts += self._moves(c, True, pushed, phys)
            if not strict:
                alts += [FAIL, {"kind": "swallow", "stacks": sw, "known": F2}]
            return alts
        # a path
        c, s = self.resolve(w, phys)
        if c:
            return self._moves(c, s, pushed, phys, sw)
        alts = []
        if self.cdpath and not os.path.isabs(w):
            # environ.py: "A list of paths to be used as roots for a cd ... xonsh always prefer an
            # existing relative path"
            first_exists = None
            for cdp in self.cdpath:
                j = os.path.join(cdp, w)
                if first_exists is None and os.path.lexists(j):
                    first_exists = j
                cj, sj = self.resolve(j, phys)
                if cj:
                    strict = (sj and j == first_exists and not w.startswith(".") and not self.local_isdir(w)
                              and not os.path.lexists(os.path.join(self.pwd, w)))
                    alts = self._moves(cj, strict, pushed, phys)
                    break
        if not alts:
            alts = [FAIL, {"kind": "swallow", "stacks": sw, "known": F2}]
        elif FAIL in alts:
            alts.append({"kind": "swallow", "stacks": sw, "known": F2})
        return alts

    @staticmethod
    def _split_flags(args, flags):
        """-> (set of flags, positionals) or None when the command line is malformed."""
        fl, pos = set(), []
        for x in args:
            if x in flags:
                fl.add(x)
            elif x.startswith("-") and x != "-" and not re.match(r"^-\d+$", x):
                return None
            else:
                pos.append(x)
        if len(pos) > 1:
            return None
        return fl, pos

    def _index(self, w, n):
        """`+N` counts from the left of the list printed by dirs, `-N` from the right, starting with
        zero; $PUSHD_MINUS exchanges the two.  -> index or None when out of range."""
        num = int(w[1:])
        if num >= n:
            return None
        from_left = (w[0] == "+") != self.minus
        return num if from_left else n - 1 - num

    def plan_pushd(self, args):
        sp = self._split_flags(args, ("-n", "-q"))
        if sp is None:
            return [FAIL], True
        fl, pos = sp
        nocd = "-n" in fl
        quiet = "-q" in fl or self.silent
        dirs = self.dirs()
        n = len(dirs)
        alts = []

        def any_order():
            return {"kind": "ok", "target": None, "physical": False, "oldpwd": "keep",
                    "stack": ("perm", list(self.stack), min(len(self.stack), self.size))}

        def rotate(idx, exchange=False):
            out = []
            if idx == 0:
                out.append({"kind": "ok", "target": None, "physical": False, "oldpwd": "either",
                            "stack": self.trunc(self.stack)})
                return out, True
            if nocd:
                # "only the stack is manipulated": the current directory stays first, so a literal
                # rotation is impossible; bash and xonsh differ - any order of the same entries
                return [any_order()], True
            c, s = self.resolve(dirs[idx])
            ext = self.trunc(dirs[:idx] + dirs[idx + 1:])
            rot = ext if exchange else self.trunc(dirs[idx + 1:] + dirs[:idx])
            for x in c:
                out.append({"kind": "ok", "target": x, "physical": False, "oldpwd": "old", "stack": rot})
                if ext != rot:
                    out.append({"kind": "ok", "target": x, "physical": False, "oldpwd": "old", "stack": ext,
                                "known": F1})
            if not s:
                out.append({"kind": "swallow", "stacks": [list(self.stack), rot, ext], "known": F2})
            return out, s

        if not pos:
            if not self.stack:
                return [FAIL], quiet
            if nocd:
                return [any_order()], quiet
            a, s = rotate(1, exchange=True)   # "With no arguments, pushd exchanges the top two elements"
            return a + ([] if s else [FAIL]), quiet
        w = pos[0]
        strict = True
        have = False
        if _NUM.match(w):
            idx = self._index(w, n)
            if idx is not None:
                a, s = rotate(idx)
                alts += a
                strict = strict and s
                have = True
        # the word as a directory ("as if it had been supplied as an argument to the cd builtin")
        if w == "-":
            c, s = self.resolve("-")
            if self.oldpwd is not None:
                co, so = self.resolve(self.oldpwd)
                c = c + [x for x in co if x not in c]
                s = s and so
            s = s and bool(c) and self.local_isdir("-")
        else:
            c, s = self.resolve(w)
            if not c and self.cdpath and not os.path.isabs(w):
                for cdp in self.cdpath:
                    cj, _ = self.resolve(os.path.join(cdp, w))
                    if cj:
                        c, s = cj, False
                        break
        if c or self.local_isdir(w):
            have = True
            strict = strict and s
            if nocd:
                named = list(c)
                if self.local_isdir(w) and not c:
                    # remembering a directory that cannot be entered is not an error of `pushd -n`
                    named = [rp(x) for x in (self.logical(w), self.physical(w))
                             if x is not None and os.path.isdir(x)]
                for x in named:
                    # the stack remembers directories: the new entry must keep naming x wherever the
                    # shell goes next, i.e. be absolute; the word as typed (relative) is finding F3
                    alts.append({"kind": "ok", "target": None, "physical": False, "oldpwd": "keep",
                                 "stack": self.trunc([("names", x, self.pwd, "abs")] + self.stack)})
                    alts.append({"kind": "ok", "target": None, "physical": False, "oldpwd": "keep",
                                 "stack": self.trunc([("names", x, self.pwd, "rel")] + self.stack), "known": F3})
            else:
                psh = self.trunc([self.pwd] + self.stack)
                for x in c:
                    alts.append({"kind": "ok", "target": x, "physical": False, "oldpwd": "old", "stack": psh})
                if not s:
                    alts.append({"kind": "swallow", "stacks": [list(self.stack), psh], "known": F2})
        if not have:
            return [FAIL], quiet
        if not strict:
            alts.append(FAIL)
        return alts, quiet

    def plan_popd(self, args):
        sp = self._split_flags(args, ("-n", "-q"))
        if sp is None:
            return [FAIL], True
        fl, pos = sp
        nocd = "-n" in fl
        quiet = "-q" in fl or self.silent
        if not self.stack:
            return [FAIL], quiet
        if pos:
            w = pos[0]
            if not _NUM.match(w):
                return [FAIL], quiet
            idx = self._index(w, len(self.stack) + 1)
            if idx is None:
                return [FAIL], quiet
        else:
            idx = 0
        if idx > 0:
            st = list(self.stack)
            del st[idx - 1]
            return [{"kind": "ok", "target": None, "physical": False, "oldpwd": "keep", "stack": st}], quiet
        rest = list(self.stack[1:])
        if nocd:
            return [{"kind": "ok", "target": None, "physical": False, "oldpwd": "keep", "stack": rest}], quiet
        c, s = self.resolve(self.stack[0])
        return self._moves(c, s, rest, False, [list(self.stack), rest]), quiet

    def plan_dirs(self, args):
        """-> ('fail',) | ('clear',) | ('print', expected text or predicate)"""
        sp = self._split_flags(args, ("-c", "-p", "-v", "-l"))
        if sp is None:
            return ("fail",)
        fl, pos = sp
        if "-c" in fl:
            return ("clear",)
        dirs = self.dirs()
        shown = dirs if "-l" in fl else [self.abbrev(e) for e in dirs]
        if pos:
            w = pos[0]
            if not _NUM.match(w):
                return ("fail",)
            idx = self._index(w, len(dirs))
            if idx is None:
                return ("fail",)
            # bash prints the index too under -v; xonsh only the entry
            return ("contains" if "-v" in fl else "print", shown[idx])
        if "-v" in fl:
            return ("verbose", shown)
        if "-p" in fl:
            return ("print", "\n".join(shown))
        return ("print", " ".join(shown))


# ----------------------------------------------------------------------------------------
# system under test + comparison

_state = {}


def _setup(scratch):
    """Once per process: session, tree, permission enforcement."""
    from vlib import session

    root = os.path.join(os.path.realpath(scratch), "tree")
    if _state.get("root") == root:
        lock_tree(root)
        _state["perm"] = perm_enforced(root)
        return _state
    _drop_dac()
    build_tree(root)
    lock_tree(root)
    home = os.path.join(root, "home")
    _state.setdefault("start_cwd", os.getcwd())
    _state["root"] = root
    _state["home"] = home
    _state["scratch"] = scratch
    _state["perm"] = perm_enforced(root)
    session.get_execer()
    return _state


def _subst(root, s):
    if s == "@":
        return root
    if s.startswith("@/"):
        return root + s[1:]
    return s


def _quote(a):
    if re.fullmatch(r"[A-Za-z0-9_./+\-]+", a):
        return a
    return "'" + a + "'"


def needs_perm(ops):
    """Does the history touch the directories whose behaviour depends on real permission checks?"""
    text = json.dumps(ops)
    return any(w in text for w in ("noexec", "noperm", "locked"))


class History:
    """Executes operations against xonsh and the model in lock step.  `step(op)` raises Mismatch with
    case = {'ops': [...]} on the first disagreement.  Used by the state machine and by replay."""

    def __init__(self, open_ids=(), stats=None):
        from vlib import session
        import xonsh.dirstack as ds

        st = _state
        self.root = st["root"]
        self.home = st["home"]
        self.open_ids = set(open_ids)
        self.stats = stats
        self.ops = []
        self.nontrivial = False
        self.labels = []
        self.tolerated = []
        self.ds = ds
        # reset every piece of global state a history can touch
        gone = os.path.join(self.root, "gone")
        if not os.path.isdir(gone):
            os.mkdir(gone)
        os.chdir(self.root)
        os.environ["HOME"] = self.home   # dirs_fn abbreviates with expanduser('~'), cd uses $HOME: keep them equal
        self.XSH = session.load_session(st["scratch"], HOME=self.home, PWD=self.root)
        env = self.XSH.env
        for k in ("OLDPWD",):
            if k in env:
                del env[k]
        env["AUTO_PUSHD"] = False
        env["PUSHD_MINUS"] = False
        env["PUSHD_SILENT"] = False
        env["CDPATH"] = []
        env["DIRSTACK_SIZE"] = 20
        ds.DIRSTACK = []
        self.m = Model(self.root, self.home)
        self.m.oldpwd = env.get("OLDPWD")      # xonsh's registered default is "."

    def close(self):
        self.ds.DIRSTACK = []
        try:
            os.chdir(_state["start_cwd"])
        except OSError:
            os.chdir("/")

    # -- observation -------------------------------------------------------------------
    def observe(self):
        env = self.XSH.env
        try:
            cwd = os.getcwd()
        except OSError as e:
            cwd = "<getcwd failed: %s>" % e
        return {"pwd": env.get("PWD"), "oldpwd": env.get("OLDPWD"), "cwd": cwd,
                "stack": list(self.ds.DIRSTACK)}

    def bad(self, kind, detail, finding=None, bucket=None):
        case = {"ops": list(self.ops), "perm": needs_perm(self.ops)}
        raise Mismatch(Failure(kind, case, detail, finding=finding, bucket=bucket))

    def run_cmd(self, name, args, via):
        """-> (rc, out, err)"""
        from vlib import session

        args = [_subst(self.root, a) for a in args]
        if via == "exec":
            line = " ".join([name] + [_quote(a) for a in args])
            self.XSH.ctx["_r"] = None
            o_err = sys.stderr
            sys.stderr = io.StringIO()
            try:
                try:
                    session.xexec("_r = !(%s)\n" % line)
                    r = self.XSH.ctx["_r"]
                    rc = r.rtn
                    out = r.out or ""
                    err = (r.err or "") + sys.stderr.getvalue()
                except SystemExit as e:
                    rc, out, err = (e.code if isinstance(e.code, int) else 1), "", sys.stderr.getvalue()
                except Exception as e:  # noqa: BLE001
                    sys.stderr = o_err
                    self.bad("exception", "%s via the execer raised %s: %s" % (line, type(e).__name__, e),
                             bucket="exception:%s:%s" % (name, type(e).__name__))
            finally:
                sys.stderr = o_err
            return rc, out, err
        alias = self.XSH.aliases[name]
        o_err, o_out = sys.stderr, sys.stdout
        sys.stderr, sys.stdout = io.StringIO(), io.StringIO()
        try:
            try:
                r = alias(list(args))
            except SystemExit as e:
                r = (None, None, e.code if isinstance(e.code, int) else 1)
            except Exception as e:  # noqa: BLE001
                sys.stderr, sys.stdout = o_err, o_out
                self.bad("exception", "%s %r raised %s: %s" % (name, args, type(e).__name__, e),
                         bucket="exception:%s:%s" % (name, type(e).__name__))
            printed_err, printed_out = sys.stderr.getvalue(), sys.stdout.getvalue()
        finally:
            sys.stderr, sys.stdout = o_err, o_out
        out = err = None
        rc = 0
        if isinstance(r, tuple):
            if len(r) == 3:
                out, err, rc = r
            elif len(r) == 2:
                out, err = r
        elif isinstance(r, int) and not isinstance(r, bool):
            rc = r
        elif isinstance(r, str):
            out = r
        return (rc or 0), (out or "") + printed_out, (err or "") + printed_err

    # -- matching ----------------------------------------------------------------------
    def _match_stack(self, spec, obs_stack, base_pwd):
        """-> adopted stack (list of str) or None"""
        if isinstance(spec, tuple) and spec[0] == "perm":
            _, src, length = spec
            if len(obs_stack) != length:
                return None
            pool = list(src)
            for e in obs_stack:
                if e in pool:
                    pool.remove(e)
                else:
                    return None
            return list(obs_stack)
        if len(spec) != len(obs_stack):
            return None
        for want, got in zip(spec, obs_stack):
            if isinstance(want, str):
                if want != got:
                    return None
            else:
                _, real, base, mode = want
                if not isinstance(got, str) or os.path.isabs(os.path.expanduser(got)) != (mode == "abs"):
                    return None
                if rp(os.path.join(rp(base), os.path.expanduser(got))) != real and \
                        rp(os.path.normpath(os.path.join(base, got))) != real:
                    return None
        return list(obs_stack)

    def _match(self, alt, before, after, rc, err):
        """-> None when `alt` does not describe what happened, else the adopted stack."""
        k = alt["kind"]
        if k == "fail":
            if rc == 0 or not err.strip() or after != before:
                return None
            return list(after["stack"])
        if k == "swallow":
            if rc != 0 or "cd: [Errno" not in err:
                return None
            if any(after[x] != before[x] for x in ("pwd", "oldpwd", "cwd")):
                return None
            for st in alt["stacks"]:
                if after["stack"] == st:
                    return list(st)
            return None
        if rc != 0:
            return None
        if alt["target"] is None:
            if after["pwd"] != before["pwd"] or after["cwd"] != before["cwd"]:
                return None
        else:
            if after["cwd"] != alt["target"]:
                return None
            if alt["physical"] and after["pwd"] != after["cwd"]:
                return None
        want_old = alt["oldpwd"]
        if want_old == "old" and after["oldpwd"] != before["pwd"]:
            return None
        if want_old == "keep" and after["oldpwd"] != before["oldpwd"]:
            return None
        if want_old == "either" and after["oldpwd"] not in (before["oldpwd"], before["pwd"]):
            return None
        return self._match_stack(alt["stack"], after["stack"], before["pwd"])

    def invariants(self, after, what):
        pwd = after["pwd"]
        if not isinstance(pwd, str) or not os.path.isabs(pwd):
            self.bad("pwd-invalid", "after %s: $PWD is %r" % (what, pwd))
        if after["cwd"].startswith("<getcwd failed"):
            self.bad("cwd-lost", "after %s: %s" % (what, after["cwd"]))
        if rp(pwd) != after["cwd"]:
            self.bad("pwd-out-of-step", "after %s: $PWD=%r names %r but the process is in %r"
                     % (what, pwd, rp(pwd), after["cwd"]))
        if not all(isinstance(e, str) for e in after["stack"]):
            self.bad("stack-invalid", "after %s: DIRSTACK=%r" % (what, after["stack"]))

    def settle(self, what, alts, before, after, rc, out, err):
        """Find the alternative that happened; adopt strings the documentation leaves open."""
        self.invariants(after, what)
        hit = None
        for alt in alts:
            if "known" in alt:
                continue
            st = self._match(alt, before, after, rc, err)
            if st is not None:
                hit = alt
                break
        if hit is None:
            for alt in alts:
                if "known" not in alt:
                    continue
                st = self._match(alt, before, after, rc, err)
                if st is not None:
                    fid = alt["known"]
                    if fid in self.open_ids:
                        hit = alt
                        self.tolerated.append(fid)
                        break
                    self.bad("known-shape:" + fid, self._describe(what, alts, before, after, rc, err),
                             finding=fid, bucket=fid)
        if hit is None:
            must_fail = all(a["kind"] == "fail" or "known" in a for a in alts)
            if must_fail and rc == 0:
                kind = "failed-op-returns-0" if after == before else "failed-op-changed-state"
            elif must_fail and after != before:
                kind = "failed-op-changed-state"
            elif must_fail:
                kind = "failed-op-no-message"
            elif rc != 0 and all(a["kind"] != "fail" for a in alts):
                kind = "valid-op-rejected"
            elif rc != 0:
                kind = "failed-op-changed-state" if after != before else "failed-op-no-message"
            else:
                kind = "state-differs"
            self.bad(kind, self._describe(what, alts, before, after, rc, err), bucket=kind + ":" + what.split(" ")[0])
        m = self.m
        m.pwd = after["pwd"]
        m.oldpwd = after["oldpwd"]
        m.stack = list(after["stack"])
        return hit

    def _describe(self, what, alts, before, after, rc, err):
        def show(a):
            if a["kind"] == "fail":
                return "fail cleanly"
            if a["kind"] == "swallow":
                return None
            st = a["stack"]
            return "go to %s / $OLDPWD %s / stack %r%s" % (
                a["target"] or "(stay)", a["oldpwd"], st, " [known %s]" % a["known"] if "known" in a else "")
        acc_ = [s for s in (show(a) for a in alts) if s]
        return ("%s -> rc=%r stderr=%r; before: %s; after: %s; the documentation allows: %s" % (
            what, rc, err.strip()[:160], json.dumps(before), json.dumps(after), " | ".join(acc_[:6])))

    # -- operations --------------------------------------------------------------------
    def step(self, op):
        self.ops.append(op)
        kind = op["op"]
        depth = len(self.m.stack)
        lab = ["op:" + kind]
        if kind in ("cd", "pushd", "popd", "dirs", "roundtrip"):
            lab.append("depth@%s:%d" % (kind, min(depth, 6)))
        if depth >= 2 and kind in ("cd", "pushd", "popd", "dirs", "roundtrip"):
            self.nontrivial = True
            lab.append("step-nontrivial:depth>=2")
        getattr(self, "do_" + kind)(op, lab)
        self.labels += lab

    def _cmd(self, name, op, lab):
        via = op.get("via", "direct")
        args = list(op.get("args", []))
        lab.append("via:" + via)
        before = self.observe()
        rc, out, err = self.run_cmd(name, args, via)
        after = self.observe()
        what = " ".join([name] + args)
        return what, before, after, rc, out, err

    def _note_outcome(self, hit, alts, lab):
        if hit["kind"] == "fail":
            lab.append("outcome:fail")
            self.nontrivial = True
            lab.append("step-nontrivial:failing-command")
        elif hit["kind"] == "swallow":
            lab.append("outcome:tolerated-" + hit["known"])
            self.nontrivial = True
        else:
            lab.append("outcome:ok" + ("-tolerated-" + hit["known"] if "known" in hit else ""))
        if len([a for a in alts if "known" not in a]) > 1:
            lab.append("ambiguous-in-docs")

    def _check_listing(self, what, quiet, hit, out):
        if hit["kind"] != "ok":
            return
        if quiet:
            if out.strip():
                self.bad("output", "%s: output although -q / $PUSHD_SILENT: %r" % (what, out))
            return
        want = " ".join(self.m.abbrev(e) for e in self.m.dirs())
        if out.rstrip("\n") != want:
            self.bad("output", "%s printed %r, the stack is %r" % (what, out, want), bucket="output:listing")

    def do_cd(self, op, lab):
        alts = self.m.plan_cd([_subst(self.root, a) for a in op.get("args", [])])
        what, before, after, rc, out, err = self._cmd("cd", op, lab)
        auto = self.m.auto
        size = self.m.size
        hit = self.settle(what, alts, before, after, rc, out, err)
        self._note_outcome(hit, alts, lab)
        if auto:
            lab.append("cd-auto-pushd")
            if hit["kind"] == "ok" and len(after["stack"]) > max(size, len(before["stack"])):
                self.bad("stack-too-long", "%s: %d entries, $DIRSTACK_SIZE=%d" % (what, len(after["stack"]), size))

    def do_pushd(self, op, lab):
        alts, quiet = self.m.plan_pushd([_subst(self.root, a) for a in op.get("args", [])])
        what, before, after, rc, out, err = self._cmd("pushd", op, lab)
        size = self.m.size
        if rc == 0 and len(after["stack"]) > size:
            self.bad("stack-too-long", "%s returned 0 and left %d remembered entries, $DIRSTACK_SIZE=%d: %r"
                     % (what, len(after["stack"]), size, after["stack"]))
        hit = self.settle(what, alts, before, after, rc, out, err)
        self._note_outcome(hit, alts, lab)
        if hit["kind"] == "ok" and len(before["stack"]) >= size:
            lab.append("pushd-at-size-limit")
        self._check_listing(what, quiet, hit, out)

    def do_popd(self, op, lab):
        alts, quiet = self.m.plan_popd(list(op.get("args", [])))
        what, before, after, rc, out, err = self._cmd("popd", op, lab)
        hit = self.settle(what, alts, before, after, rc, out, err)
        self._note_outcome(hit, alts, lab)
        self._check_listing(what, quiet, hit, out)

    def do_dirs(self, op, lab):
        plan = self.m.plan_dirs(list(op.get("args", [])))
        what, before, after, rc, out, err = self._cmd("dirs", op, lab)
        self.invariants(after, what)
        if plan[0] == "fail":
            self.nontrivial = True
            lab += ["outcome:fail", "step-nontrivial:failing-command"]
            if rc == 0 or not err.strip() or after != before:
                self.bad("failed-op-returns-0" if rc == 0 else "failed-op-changed-state",
                         "%s must fail: rc=%r stderr=%r before=%s after=%s"
                         % (what, rc, err.strip()[:160], json.dumps(before), json.dumps(after)),
                         bucket="dirs-fail")
            return
        lab.append("outcome:ok")
        if rc != 0:
            self.bad("valid-op-rejected", "%s: rc=%r stderr=%r" % (what, rc, err.strip()[:200]), bucket="dirs-rejected")
        if plan[0] == "clear":
            want = dict(before, stack=[])
            if after != want:
                self.bad("state-differs", "%s: after=%s, expected %s" % (what, json.dumps(after), json.dumps(want)),
                         bucket="dirs-clear")
            self.m.stack = []
            return
        if after != before:
            self.bad("state-differs", "%s changed the state: %s -> %s" % (what, json.dumps(before), json.dumps(after)),
                     bucket="dirs-changes")
        text = out.rstrip("\n")
        if plan[0] == "contains":
            if not text.endswith(plan[1]):
                self.bad("output", "%s printed %r, the documented selection is %r (stack %r)"
                         % (what, text, plan[1], self.m.dirs()), bucket="output:dirs")
        elif plan[0] == "print":
            if text != plan[1]:
                self.bad("output", "%s printed %r, the documented selection/listing is %r (stack %r)"
                         % (what, text, plan[1], self.m.dirs()), bucket="output:dirs")
        else:
            lines = text.split("\n")
            ok = len(lines) == len(plan[1])
            if ok:
                for i, (ln, e) in enumerate(zip(lines, plan[1])):
                    parts = ln.strip().split(None, 1)
                    if len(parts) != 2 or parts[0] != str(i) or parts[1] != e.strip():
                        ok = False
            if not ok:
                self.bad("output", "%s printed %r for the stack %r" % (what, text, plan[1]), bucket="output:dirs-v")

    def do_set(self, op, lab):
        var, val, via = op["var"], op["value"], op.get("via", "direct")
        if var == "CDPATH":
            val = [_subst(self.root, x) for x in val]
        before = self.observe()
        if via == "exec":
            from vlib import session

            session.xexec("$%s = %r\n" % (var, val))
        else:
            self.XSH.env[var] = val
        got = self.XSH.env.get(var)
        if (list(got) if var == "CDPATH" else got) != val:
            raise common.HarnessError("setting $%s to %r gave %r" % (var, val, got))
        after = self.observe()
        self.invariants(after, "$%s=%r" % (var, val))
        if after != before:
            self.bad("state-differs", "setting $%s changed the directory state: %s -> %s"
                     % (var, json.dumps(before), json.dumps(after)))
        m = self.m
        if var == "AUTO_PUSHD":
            m.auto = val
        elif var == "PUSHD_MINUS":
            m.minus = val
        elif var == "PUSHD_SILENT":
            m.silent = val
        elif var == "CDPATH":
            m.cdpath = list(val)
        elif var == "DIRSTACK_SIZE":
            m.size = val
        lab.append("set:%s" % var)

    def do_fs(self, op, lab):
        gone = os.path.join(self.root, "gone")
        if op["act"] == "rmdir":
            if os.path.isdir(gone) and rp(self.m.pwd) != gone:
                os.rmdir(gone)
                lab.append("fs:removed" + ("-while-remembered" if any(
                    rp(os.path.join(self.m.pwd, e)) == gone for e in self.m.stack) else ""))
        else:
            if not os.path.isdir(gone):
                os.mkdir(gone)
                lab.append("fs:recreated")

    def do_extchdir(self, op, lab):
        """the directory changes behind xonsh's back; the shell resynchronises before the next prompt"""
        import types

        from xonsh.shells.base_shell import BaseShell

        target = _subst(self.root, op["to"])
        if not acc(target):
            lab.append("extchdir:skipped")
            return
        before = self.observe()
        os.chdir(target)
        o_err = sys.stderr
        sys.stderr = io.StringIO()
        try:
            try:
                BaseShell._fix_cwd(types.SimpleNamespace(print_color=lambda *a, **k: None))
            except Exception as e:  # noqa: BLE001
                sys.stderr = o_err
                self.bad("exception", "_fix_cwd raised %s: %s" % (type(e).__name__, e))
        finally:
            sys.stderr = o_err
        after = self.observe()
        self.invariants(after, "external chdir + _fix_cwd")
        moved = rp(before["pwd"]) != rp(target)
        want_old = before["pwd"] if moved else before["oldpwd"]
        if after["cwd"] != rp(target) or after["stack"] != before["stack"] or after["oldpwd"] != want_old or \
                (not moved and after["pwd"] != before["pwd"]):
            self.bad("state-differs", "external chdir to %s + _fix_cwd: before %s after %s (expected $OLDPWD %r)"
                     % (target, json.dumps(before), json.dumps(after), want_old), bucket="fix-cwd")
        self.m.pwd, self.m.oldpwd = after["pwd"], after["oldpwd"]
        lab.append("extchdir:" + ("moved" if moved else "same"))

    def do_ctxcd(self, op, lab):
        """`with p'dir'.cd(): ...` must put the process back where it was"""
        from vlib import session

        target = _subst(self.root, op["to"])
        before = self.observe()
        raised = None
        o_err = sys.stderr
        sys.stderr = io.StringIO()
        try:
            try:
                if op.get("via") == "exec":
                    body = "raise KeyError('c16')" if op.get("raise") else "_c = __import__('os').getcwd()"
                    session.xexec("with p%r.cd():\n    %s\n" % (target, body))
                else:
                    from xonsh.built_ins import XonshPathLiteral

                    with XonshPathLiteral(target).cd():
                        if op.get("raise"):
                            raise KeyError("c16")
            except KeyError:
                raised = "body"
            except OSError:
                raised = "enter"
            except Exception as e:  # noqa: BLE001
                sys.stderr = o_err
                self.bad("exception", "p%r.cd() raised %s: %s" % (target, type(e).__name__, e))
        finally:
            sys.stderr = o_err
        after = self.observe()
        self.invariants(after, "with p%r.cd()" % target)
        if after != before:
            self.bad("state-differs", "with p%r.cd() (%s): before %s after %s"
                     % (target, raised, json.dumps(before), json.dumps(after)), bucket="ctxcd")
        lab.append("ctxcd:" + (raised or "ok"))

    def do_roundtrip(self, op, lab):
        """pushd d; popd restores both the directory and the stack"""
        via = op.get("via", "direct")
        m = self.m
        snap = (m.pwd, list(m.stack), m.size)
        alts, _ = m.plan_pushd(["-q", _subst(self.root, op["dir"])])
        what, before, after, rc, out, err = self._cmd("pushd", {"args": ["-q", op["dir"]], "via": via}, lab)
        hit = self.settle(what, alts, before, after, rc, out, err)
        self._note_outcome(hit, alts, lab)
        if hit["kind"] != "ok" or hit["target"] is None:
            return
        if after["stack"] != m.trunc([snap[0]] + snap[1]):
            return      # the word was read as +N (rotation), not as a directory
        if len(after["stack"]) > snap[2]:
            self.bad("stack-too-long", "%s: %d entries, $DIRSTACK_SIZE=%d" % (what, len(after["stack"]), snap[2]))
        alts, _ = m.plan_popd(["-q"])
        what2, before2, after2, rc2, out2, err2 = self._cmd("popd", {"args": ["-q"], "via": via}, lab)
        hit2 = self.settle(what2, alts, before2, after2, rc2, out2, err2)
        if hit2["kind"] != "ok":
            self.bad("roundtrip", "%s succeeded but the following popd did not: rc=%r %r" % (what, rc2, err2.strip()[:200]))
        want_stack = snap[1] if len(snap[1]) < snap[2] else snap[1][: max(snap[2] - 1, 0)]
        if rp(after2["pwd"]) != rp(snap[0]) or after2["stack"] != want_stack:
            self.bad("roundtrip", "%s; popd: $PWD %r -> %r, stack %r -> %r ($DIRSTACK_SIZE=%d)"
                     % (what, snap[0], after2["pwd"], snap[1], after2["stack"], snap[2]))
        lab.append("roundtrip:done")


# ----------------------------------------------------------------------------------------
# the state machine

_ctx = {}


def make_machine():
    from hypothesis import strategies as st
    from hypothesis.stateful import RuleBasedStateMachine, initialize, rule

    perm = _state["perm"]
    rel = REL + (PERM_REL if perm else [])
    ab = ABS + (PERM_ABS if perm else [])
    words = st.sampled_from(rel + ab)
    abs_words = st.sampled_from(ab)
    via = st.sampled_from(["direct", "direct", "exec"])
    nums = st.builds(lambda s, n: "%s%d" % (s, n), st.sampled_from("+-"), st.integers(0, 6))
    bad_nums = st.sampled_from(["+", "+x", "-x", "3", "+1.5", "1+", "-1x", "+99", "-99"])
    push_flags = st.lists(st.sampled_from(["-n", "-q"]), max_size=2, unique=True)

    class DirMachine(RuleBasedStateMachine):
        def __init__(self):
            super().__init__()
            self.h = History(_ctx["open_ids"], _ctx["stats"])

        def teardown(self):
            h = self.h
            h.close()
            stats = _ctx["stats"]
            if _ctx.get("failed") or not h.ops:
                return
            stats.case(("history", json.dumps(h.ops, sort_keys=True)), h.nontrivial,
                       ["history"] + (["history-nontrivial"] if h.nontrivial else []),
                       sample=({"ops": h.ops[:14], "of": len(h.ops)} if h.nontrivial else None), max_per_label=2)
            stats.hist["steps"] += len(h.ops)
            for lab in h.labels:
                stats.hist[lab] += 1
            for fid in h.tolerated:
                stats.excluded_known[fid] += 1

        def do(self, op):
            try:
                self.h.step(op)
            except Mismatch:
                _ctx["failed"] = True
                raise

        @initialize(ws=st.lists(abs_words, max_size=4), v=via)
        def seed_stack(self, ws, v):
            for w in ws:
                self.do({"op": "pushd", "args": ["-n", "-q", w], "via": v})

        @rule(w=words, p=st.sampled_from([False, False, False, True]), v=via)
        def cd_path(self, w, p, v):
            self.do({"op": "cd", "args": (["-P"] if p else []) + [w], "via": v})

        @rule(a=st.one_of(st.just([]), st.just(["-"]), st.just(["-"]), st.just(["-P"]), st.just(["-P", "-"]),
                          st.builds(lambda n: ["-%d" % n], st.integers(0, 6)),
                          st.builds(lambda n: ["-P", "-%d" % n], st.integers(1, 4)),
                          st.sampled_from([["a", "d"], ["-x"], ["-1x"], ["-P", "a", "b"], ["a", "-P"]])),
              v=via)
        def cd_special(self, a, v):
            self.do({"op": "cd", "args": list(a), "via": v})

        @rule(w=words, f=push_flags, v=via)
        def pushd_dir(self, w, f, v):
            if "-n" in f and not w.startswith("@") and F3 in _ctx["open_ids"]:
                # known finding F3: the relative word would be remembered as typed and every later use of
                # the entry would be decided by it - not generated while the finding is open
                if not _ctx.get("failed"):
                    _ctx["stats"].excluded_known[F3] += 1
                return
            self.do({"op": "pushd", "args": list(f) + [w], "via": v})

        @rule(w=abs_words, v=via)
        def pushd_dir_abs(self, w, v):
            self.do({"op": "pushd", "args": [w], "via": v})

        @rule(n=st.one_of(st.none(), nums, nums), f=push_flags, v=via)
        def pushd_rot(self, n, f, v):
            if n and "-n" in f and F3 in _ctx["open_ids"] and self.h.m.local_isdir(n):
                if not _ctx.get("failed"):      # `+1` next to a directory called +1: F3 again
                    _ctx["stats"].excluded_known[F3] += 1
                return
            self.do({"op": "pushd", "args": list(f) + ([n] if n else []), "via": v})

        @rule(a=st.one_of(bad_nums.map(lambda x: [x]),
                          st.sampled_from([["-x"], ["a", "d"], ["+1", "+2"], ["-n", "missing"], ["-z", "a"]])), v=via)
        def pushd_bad(self, a, v):
            self.do({"op": "pushd", "args": list(a), "via": v})

        @rule(n=st.one_of(st.none(), st.none(), nums, nums, bad_nums, st.sampled_from(["a", "@/d"])),
              f=push_flags, v=via)
        def popd(self, n, f, v):
            self.do({"op": "popd", "args": list(f) + ([n] if n else []), "via": v})

        @rule(n=st.one_of(st.none(), st.sampled_from(["+0", "+1", "-0", "+2"])), v=via)
        def popd_plain(self, n, v):
            self.do({"op": "popd", "args": [n] if n else [], "via": v})

        @rule(f=st.lists(st.sampled_from(["-p", "-v", "-l"]), max_size=2, unique=True),
              n=st.one_of(st.none(), st.none(), nums, nums, bad_nums), v=via)
        def dirs(self, f, n, v):
            self.do({"op": "dirs", "args": list(f) + ([n] if n else []), "via": v})

        @rule(v=via, c=st.sampled_from([False, False, False, True]))
        def dirs_clear(self, v, c):
            if c:
                self.do({"op": "dirs", "args": ["-c"], "via": v})
            else:
                self.do({"op": "dirs", "args": ["-p", "-l"], "via": v})

        @rule(s=st.one_of(
            st.tuples(st.sampled_from(["AUTO_PUSHD", "PUSHD_MINUS", "PUSHD_SILENT"]), st.booleans()),
            st.tuples(st.just("PUSHD_MINUS"), st.booleans()),
            st.tuples(st.just("CDPATH"), st.sampled_from(CDPATHS)),
            st.tuples(st.just("DIRSTACK_SIZE"), st.sampled_from(SIZES))), v=via)
        def setvar(self, s, v):
            self.do({"op": "set", "var": s[0], "value": s[1], "via": v})

        @rule(act=st.sampled_from(["rmdir", "rmdir", "mkdir"]))
        def fs(self, act):
            self.do({"op": "fs", "act": act})

        @rule(w=abs_words)
        def extchdir(self, w):
            self.do({"op": "extchdir", "to": w})

        @rule(w=words, r=st.booleans(), v=via)
        def ctxcd(self, w, r, v):
            self.do({"op": "ctxcd", "to": w, "raise": r, "via": v})

        @rule(w=words, v=via)
        def roundtrip(self, w, v):
            self.do({"op": "roundtrip", "dir": w, "via": v})

    return DirMachine


def worker_machine(arg):
    seed, n_examples, steps, scratch, open_ids = arg
    _setup(scratch)
    stats = Stats()
    _ctx.clear()
    _ctx.update(open_ids=set(open_ids), stats=stats, failed=False)
    try:
        exc = common.run_machine(make_machine(), seed, n_examples, steps, shrink=True, shrink_seconds=15)
    finally:
        try:
            os.chdir(_state["start_cwd"])
        except OSError:
            os.chdir("/")
    f = common.machine_failure(exc, "C16 directory machine")
    if f is not None:
        # confirm the shrunk history without Hypothesis and drop the operations that do not matter
        # (Hypothesis' shrinker is slow on long histories; replaying a history costs milliseconds)
        g = check_history(f.case, open_ids)
        if g is None:
            stats.notes.append("shrunk history did not fail again on replay (kept the original failure): %s"
                               % json.dumps(f.case)[:300])
            stats.fail(f)
        else:
            stats.fail(minimize_ops(g, open_ids))
    if not _state["perm"]:
        stats.notes.append("permission-failure class skipped: this process can enter directories without "
                           "search permission (capabilities could not be dropped)")
    else:
        stats.hist["workers-with-real-permission-checks"] += 1
    unlock_tree(_state["root"])
    return stats


def check_history(case, open_ids=()):
    """Re-execute {'ops': [...]} without Hypothesis.  -> Failure | None"""
    if needs_perm(case["ops"]) and not _state.get("perm"):
        return None     # cannot be decided here; worker_replay reports it as skipped
    h = History(open_ids)
    try:
        try:
            for op in case["ops"]:
                h.step(op)
        except Mismatch as e:
            return e.failure
    finally:
        h.close()
    return None


def minimize_ops(failure, open_ids=()):
    """Greedy one-at-a-time removal of operations while the same bucket still fails."""
    best = failure
    ops = list(failure.case["ops"])
    changed = True
    rounds = 0
    while changed and rounds < 6:
        changed = False
        rounds += 1
        i = len(ops) - 2            # the last operation is the failing one
        while i >= 0:
            trial = ops[:i] + ops[i + 1:]
            g = check_history({"ops": trial}, open_ids)
            if g is not None and g.bucket == failure.bucket and g.kind == failure.kind and \
                    len(g.case["ops"]) <= len(trial):
                ops = list(g.case["ops"])
                best = g
                changed = True
                i = min(i, len(ops) - 1)
            i -= 1
    return best


def worker_replay(arg):
    cases, scratch = arg
    _setup(scratch)
    out = []
    try:
        for case in cases:
            if needs_perm(case["ops"]) and not _state["perm"]:
                out.append("skipped")
                continue
            f = check_history(case, ())
            out.append(None if f is None else f.to_json())
    finally:
        unlock_tree(_state["root"])
    return {"results": out, "perm": _state["perm"]}


# ----------------------------------------------------------------------------------------


def _replays_in_worker(run, cases):
    res = common.pool_map(run, __name__, "worker_replay", [(cases, os.path.join(run.scratch, "replay"))], procs=1)
    out = []
    for r in res[0]["results"]:
        if r == "skipped":
            run.stats.inconclusive += 1
            run.stats.notes.append("a committed replay needs real permission checks, which this process cannot "
                                   "provide: skipped")
            r = None
        out.append(None if r is None else Failure.from_json(r))
    return out


def main(run):
    import glob

    # committed replays run in a worker too: the parent keeps its capabilities (it must be able to
    # remove the scratch tree whatever happens to a worker)
    files = [p for p in sorted(glob.glob(os.path.join(common.REPLAY_DIR, PROP, "*.json")))
             if not os.path.basename(p).startswith("violation-")]
    cases = []
    for p in files:
        with open(p) as f:
            body = json.load(f)
        cases.append(body.get("case", body))
    cache = {}
    if cases:
        os.makedirs(os.path.join(run.scratch, "replay"), exist_ok=True)
        for c, r in zip(cases, _replays_in_worker(run, cases)):
            cache[json.dumps(c, sort_keys=True)] = r
    common.replay_tier(run, lambda case: cache[json.dumps(case, sort_keys=True)])

    open_ids = sorted(run.known_open)
    nw = 8 if run.tier == "quick" else 16
    total = run.n(1200, 24000)
    steps = run.n(40, 60)
    per = total // nw
    common.pool_map(run, __name__, "worker_machine",
                    [(common.worker_seed(run.seed, w), per, steps, os.path.join(run.scratch, "w%d" % w), open_ids)
                     for w in range(nw)], procs=nw)
    h = run.stats.hist
    steps = h.get("steps", 0)
    run.extra["steps_executed"] = steps
    if not run.stats.failures:
        # vacuity guard: the histories must really reach the interesting states
        floors = [("step-nontrivial:depth>=2", steps // 10), ("step-nontrivial:failing-command", steps // 20),
                  ("via:exec", steps // 10), ("via:direct", steps // 10), ("pushd-at-size-limit", 5),
                  ("roundtrip:done", 5), ("cd-auto-pushd", 5), ("extchdir:moved", 5), ("ctxcd:body", 5),
                  ("fs:removed-while-remembered", 1)]
        low = ["%s=%d<%d" % (k, h.get(k, 0), v) for k, v in floors if h.get(k, 0) < v]
        for kind in ("pushd", "popd", "cd", "dirs"):
            if sum(h.get("depth@%s:%d" % (kind, d), 0) for d in (3, 4, 5, 6)) < 20:
                low.append("%s at depth >= 3" % kind)
        if low:
            raise common.HarnessError("generator incomplete, under the floor: " + ", ".join(low))
    run.assumptions += [
        "the tree is static apart from one directory that a rule removes and recreates; the current directory "
        "itself is never removed",
        "words that are ambiguous in the documentation (logical vs physical `..` through a symlink, `+1` / `-` "
        "that also name a directory, `cd -N`, `pushd -n +N`, CDPATH for dotted words) accept every reading",
        "$HOME is a directory of the tree and os.environ['HOME'] equals $HOME; $DIRSTACK_SIZE >= 1; no glob "
        "characters, `~` or empty words as arguments",
        "permission failures are made real by dropping CAP_DAC_OVERRIDE/CAP_DAC_READ_SEARCH in the worker "
        "(uid stays 0) instead of the setuid(65534) of DESIGN.md; when that has no effect the class is skipped "
        "and a note says so",
    ]


def replay(run, path):
    with open(path) as f:
        d = json.load(f)
    case = d.get("case", d)
    os.makedirs(os.path.join(run.scratch, "replay"), exist_ok=True)
    f = _replays_in_worker(run, [case])[0]
    if f is None:
        print("replay: property holds on this case")
        return 0
    print("VIOLATION property=%s replay=%s kind=%s %s" % (PROP, path, f.kind, common._oneline(f.detail)))
    return 1

/* vargv args... : write argv[1:] as netstrings (<len>:<bytes>,) to stdout, or to the file named
   by $VARGV_OUT (appended, one record per line start "#\n") when that variable is set. */
#include <stdio.h>
#include <stdlib.h>
#include <string.h>
int main(int argc, char **argv) {
    FILE *f = stdout;
    const char *o = getenv("VARGV_OUT");
    if (o && *o) { f = fopen(o, "ab"); if (!f) return 111; }
    fprintf(f, "%d;", argc - 1);
    for (int i = 1; i < argc; i++) {
        fprintf(f, "%zu:", strlen(argv[i]));
        fwrite(argv[i], 1, strlen(argv[i]), f);
        fputc(',', f);
    }
    fputc('\n', f);
    fflush(f);
    return 0;
}

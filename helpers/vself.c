/* vself : print "exe:<path of the file this process was executed from>\n" (readlink of
   /proc/self/exe, i.e. symlinks resolved).  Copies of this binary are planted under command
   names by the C08 check; the output tells which copy a $PATH search really executed. */
#include <stdio.h>
#include <unistd.h>
int main(void) {
    char b[4096];
    ssize_t n = readlink("/proc/self/exe", b, sizeof b - 1);
    if (n < 0) return 3;
    b[n] = 0;
    printf("exe:%s\n", b);
    fflush(stdout);
    return 0;
}

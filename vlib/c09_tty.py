"""Job-control sessions on a real (pseudo) terminal for C09.

A *session* is a forked copy of the worker that is session leader of a fresh pty (pty.fork: the slave is
its controlling terminal and its fds 0/1/2), loads a fresh interactive XonshSession ($XONSH_INTERACTIVE=True,
the signal dispositions xonsh/main.py installs for an interactive shell) and executes the command lines the
*driver* (the worker itself) sends over a pipe through the real Execer - one line at a time, reporting its
state every time it is back "at the prompt".  While a line is running the driver watches the session from
outside (foreground process group of the terminal through the pty master, the session's children and their
states through /proc) and plays the user: SIGTSTP to the terminal's foreground group (what the line
discipline does on Ctrl-Z), the byte \\x03 written to the pty master (Ctrl-C), SIGTERM/SIGKILL to a job.

The driver never blocks without a bound: every wait is a poll with a deadline, the session and everything
in it (all processes whose session id is the session leader's) is SIGKILLed when the history is over, when a
bound expires, or when the driver itself fails.  Nothing here imports xonsh at module level."""

from __future__ import annotations

import errno
import json
import os
import select
import signal
import sys
import time

STEP_S = 20.0          # a command line that does not return within this bound (after the planned user action) hangs
PRECOND_S = 8.0        # bound for reaching the precondition of a user action (job owns the terminal / is stopped)
GRACE_S = 2.0          # children outside the job table get this long to disappear after the prompt is back
STABLE_S = 0.12        # the precondition of a user action must have held this long before the driver acts
PATIENCE_S = 1.5       # 'wait': how long the user waits for a command to end by itself before pressing Ctrl-C
INTERRUPT_S = 8.0      # a Ctrl-C has this long to bring the prompt back


# ----------------------------------------------------------------------------------------
# /proc helpers (used on both sides)


def pstat(pid):
    """-> (state, ppid, pgrp, session, comm) | None"""
    try:
        with open("/proc/%d/stat" % pid, "rb") as f:
            data = f.read().decode("latin-1")
        rest = data[data.rindex(")") + 2:].split()
        comm = data[data.index("(") + 1:data.rindex(")")]
        return rest[0], int(rest[1]), int(rest[2]), int(rest[3]), comm
    except (OSError, ValueError, IndexError):
        return None


def children_of(pid):
    """{child pid: (state, comm, pgrp)} of the direct children of `pid` (any thread of it)."""
    pids = set()
    base = "/proc/%d/task" % pid
    try:
        tasks = os.listdir(base)
    except OSError:
        tasks = []
    ok = False
    for t in tasks:
        try:
            with open("%s/%s/children" % (base, t)) as f:
                pids.update(int(x) for x in f.read().split())
            ok = True
        except OSError:
            continue
    if not ok:
        for name in os.listdir("/proc"):
            if name.isdigit():
                st = pstat(int(name))
                if st is not None and st[1] == pid:
                    pids.add(int(name))
    out = {}
    for p in pids:
        st = pstat(p)
        if st is not None and st[1] == pid:
            out[p] = (st[0], st[4], st[2])
    return out


def session_members(sid):
    out = []
    for name in os.listdir("/proc"):
        if name.isdigit():
            st = pstat(int(name))
            if st is not None and st[3] == sid:
                out.append(int(name))
    return out


def kill_session(sid):
    """SIGKILL everything that lives in session `sid` (leader last) and reap the leader."""
    for _ in range(3):
        members = [p for p in session_members(sid) if p != sid]
        for p in members:
            try:
                os.kill(p, signal.SIGKILL)
            except OSError:
                pass
        if not members:
            break
        time.sleep(0.01)
    try:
        os.kill(sid, signal.SIGKILL)
    except OSError:
        pass
    t0 = time.monotonic()
    while time.monotonic() - t0 < 5.0:
        try:
            pid, _st = os.waitpid(sid, os.WNOHANG)
        except ChildProcessError:
            return
        if pid:
            break
        time.sleep(0.01)
    for p in session_members(sid):       # orphans that were forked in between
        try:
            os.kill(p, signal.SIGKILL)
        except OSError:
            pass


# ----------------------------------------------------------------------------------------
# session side (runs in the forked child; never returns)


def _send(fd, obj):
    data = (json.dumps(obj) + "\n").encode()
    while data:
        try:
            n = os.write(fd, data)
        except InterruptedError:
            continue
        data = data[n:]


def session_main(ctl_r, res_w, load, ob):
    """`load()` -> XSH (fresh interactive session, aliases installed); `ob` = vlib.c09_observe."""
    import gc
    import threading

    for fd in sorted(ob.fd_table()):
        if fd > 2 and fd not in (ctl_r, res_w):     # descriptors of the worker (pool pipes, the driver's ends) are not the session's
            try:
                os.close(fd)
            except OSError:
                pass
    for s in (signal.SIGTTOU, signal.SIGTTIN, signal.SIGTSTP):
        signal.signal(s, signal.SIG_IGN)        # xonsh/main.py: interactive shell (SIGTSTP: ignore_sigtstp())
    signal.signal(signal.SIGINT, signal.default_int_handler)
    signal.signal(signal.SIGALRM, signal.SIG_DFL)
    XSH = load()
    signal.signal(signal.SIGTSTP, signal.SIG_IGN)   # main.py calls ignore_sigtstp() *after* the session is loaded (XSH.load() installs
    #                                                 one-shot flush-and-exit handlers for SIGTSTP / SIGQUIT / ... meant for scripts)
    from vlib import session

    def jobs():
        out = {}
        try:
            items = list(XSH.all_jobs.items())
        except Exception:  # noqa: BLE001
            items = []
        for num, j in items:
            out[str(num)] = {"status": j.get("status"), "bg": bool(j.get("bg")), "pgrp": j.get("pgrp"),
                             "pids": [p for p in (j.get("pids") or []) if p is not None]}
        return out

    def state(at_return=None):
        try:
            tc = os.tcgetpgrp(2)
        except OSError as e:
            tc = "error:%s" % errno.errorcode.get(e.errno, e.errno)
        hs = ob.handlers()
        std = (sys.stdin, sys.stdout, sys.stderr)
        return {"tcpgrp": tc, "tcpgrp_at_return": tc if at_return is None else at_return, "pgrp": os.getpgrp(), "jobs": jobs(),
                "children": {str(p): list(v) for p, v in children_of(os.getpid()).items()},
                "threads": sorted(ob._short_thread(d) for d in ob.threads().values()),
                "fds": {str(k): v for k, v in ob.fd_table().items()}, "cwd": ob._cwd(),
                "handlers": {k: ob.describe_handler(v) for k, v in hs.items()}, "sigmask": ob.sigmask(),
                "std": [type(x).__name__ for x in std], "std_ids": [id(x) for x in std],
                "std_closed": [ob._is_closed(x) for x in std]}

    def unaccounted(st):
        """children outside the job table, and live (not stopped) processes of jobs that are not background jobs"""
        known = {p for j in st["jobs"].values() for p in j["pids"]}
        fg = {p for j in st["jobs"].values() if not j["bg"] for p in j["pids"]}
        return [p for p, v in st["children"].items() if int(p) not in known or (int(p) in fg and v[0] not in ("Z", "T", "t", "X"))]

    def settled_state():
        try:
            at = os.tcgetpgrp(2)
        except OSError as e:
            at = "error:%s" % errno.errorcode.get(e.errno, e.errno)
        t0 = time.monotonic()
        step = 0.005
        while True:
            st = state(at)
            if not unaccounted(st) or time.monotonic() - t0 >= GRACE_S:
                st["settle_s"] = round(time.monotonic() - t0, 3)
                return st
            time.sleep(step)
            step = min(step * 1.5, 0.05)

    S = {"buf": b"", "running": None}       # running: the exec message being served - a 'done' event is owed for it

    def serve():
        while True:
            if S["running"] is not None:
                msg, exc, t0 = S["running"]
                st = settled_state()
                msg, exc, t0 = S["running"]
                S["running"] = None
                _send(res_w, {"ev": "done", "exc": exc, "seconds": round(time.monotonic() - t0, 3), "state": st,
                              "nthreads": threading.active_count()})
                continue
            while b"\n" not in S["buf"]:
                # not a blocking read: the kernel may hand a terminal-generated SIGINT to a (short-lived) helper thread when
                # the main thread has another signal pending (SIGCHLD); CPython then runs the Python-level handler only
                # when the main thread executes bytecode again - a real prompt (readline / prompt-toolkit) wakes up, too
                if not select.select([ctl_r], [], [], 0.02)[0]:
                    continue
                chunk = os.read(ctl_r, 65536)
                if not chunk:
                    os._exit(0)
                S["buf"] += chunk
            line, S["buf"] = S["buf"].split(b"\n", 1)
            msg = json.loads(line.decode())
            op = msg.get("op")
            if op == "quit":
                os._exit(0)
            elif op == "state":
                _send(res_w, {"ev": "state", "state": settled_state()})
            elif op == "exec":
                exc = None
                t0 = time.monotonic()
                S["running"] = (msg, None, t0)
                try:
                    session.xexec(msg["src"])
                except KeyboardInterrupt:
                    exc = "KeyboardInterrupt"
                except SystemExit:
                    exc = "SystemExit"
                except BaseException as e:  # noqa: BLE001
                    exc = "%s: %s" % (type(e).__name__, str(e)[:120])
                S["running"] = (msg, exc, t0)
                if msg.get("collect"):
                    gc.collect()

    _send(res_w, {"ev": "ready", "pid": os.getpid(), "state": state()})
    S["pending"] = 0
    while True:
        # A KeyboardInterrupt can surface at any bytecode of serve() (Ctrl-C typed at the "prompt", or delivered late, after
        # the command it was meant for is over) - also at one that no try block inside a loop covers (the jump of a
        # `continue`).  While no line is running it is reported as an 'interrupt' event; while one is, it belongs to it.
        # The event is sent from inside the try block: a further Ctrl-C that arrives meanwhile is counted, not swallowed.
        try:
            while S["pending"]:
                _send(res_w, {"ev": "interrupt"})
                S["pending"] -= 1
            serve()
        except KeyboardInterrupt:
            if S["running"] is None:
                S["pending"] += 1
            else:
                r = S["running"]
                S["running"] = (r[0], (r[1] or "") + "+late-KeyboardInterrupt", r[2])


# ----------------------------------------------------------------------------------------
# driver side


class Inconclusive(Exception):
    pass


class SessionDead(Exception):
    pass


class SessionCrash(Exception):
    """The harness part of the session process failed (not xonsh): a harness error, never a verdict."""


class Driver:
    """One session on one pty.  `fork_session(ctl_r, res_w)` is called in the child and must not return."""

    def __init__(self, fork_session):
        import pty

        self.ctl_r, self.ctl_w = os.pipe()
        self.res_r, self.res_w = os.pipe()
        self.transcript = b""
        self.buf = b""
        self.events = []
        self.pid, self.master = pty.fork()
        if self.pid == 0:
            try:
                os.close(self.ctl_w)
                os.close(self.res_r)
                fork_session(self.ctl_r, self.res_w)
            except BaseException:  # noqa: BLE001
                import traceback

                try:
                    _send(self.res_w, {"ev": "crash", "tb": traceback.format_exc()[-2000:]})
                except BaseException:  # noqa: BLE001
                    pass
            os._exit(3)
        os.close(self.ctl_r)
        os.close(self.res_w)
        self.closed = False
        self.shell_pgrp = None
        ev = self.wait_event(("ready",), 30.0)
        if ev is None:
            self.close()
            raise SessionDead("session did not start: %s" % self.tail())
        self.shell_pgrp = ev["state"]["pgrp"]
        self.base = ev["state"]

    # -- plumbing ----------------------------------------------------------------------

    def tail(self, n=300):
        return self.transcript[-n:].decode("utf-8", "replace")

    def pump(self, timeout):
        """Move bytes: terminal output -> transcript, result pipe -> events.  Returns after <= timeout."""
        try:
            rl, _, _ = select.select([self.master, self.res_r], [], [], timeout)
        except InterruptedError:
            return
        if self.master in rl:
            try:
                d = os.read(self.master, 65536)
                self.transcript = (self.transcript + d)[-8192:]
            except OSError:
                pass
        if self.res_r in rl:
            try:
                d = os.read(self.res_r, 1 << 20)
            except OSError:
                d = b""
            if not d:
                raise SessionDead("the session process ended unexpectedly: %s" % self.tail())
            self.buf += d
            while b"\n" in self.buf:
                line, self.buf = self.buf.split(b"\n", 1)
                ev = json.loads(line.decode())
                if ev.get("ev") == "crash":
                    raise SessionCrash("the session process crashed in the harness part: %s" % ev.get("tb"))
                self.events.append(ev)

    def take_event(self, kinds):
        for i, ev in enumerate(self.events):
            if ev.get("ev") in kinds:
                return self.events.pop(i)
        return None

    def wait_event(self, kinds, timeout, until=None):
        """Wait for an event; `until()` (optional) is polled as well and ends the wait when true -> None."""
        deadline = time.monotonic() + timeout
        while True:
            ev = self.take_event(kinds)
            if ev is not None:
                return ev
            if until is not None and until():
                return None
            left = deadline - time.monotonic()
            if left <= 0:
                return None
            self.pump(min(0.01, left))

    def send(self, obj):
        _send(self.ctl_w, obj)

    def fg_pgrp(self):
        try:
            return os.tcgetpgrp(self.master)
        except OSError:
            return None

    def group_states(self, pgrp):
        """states of the session's children in process group `pgrp` (zombies left out)."""
        return [s for (s, _c, g) in children_of(self.pid).values() if g == pgrp and s != "Z"]

    def close(self):
        if self.closed:
            return
        self.closed = True
        try:
            kill_session(self.pid)
        finally:
            for fd in (self.master, self.ctl_w, self.res_r):
                try:
                    os.close(fd)
                except OSError:
                    pass

    # -- user actions ------------------------------------------------------------------

    def wait_job_owns_terminal(self, nprocs=1, timeout=PRECOND_S):
        """Poll until the terminal's foreground group is a group of children of the shell that have all been exec'ed and
        are not stopped, the shell itself sleeps, and all that has been so - with the same processes - for STABLE_S:
        the terminal is handed over as soon as the *first* stage has been started; a child between fork and exec still
        has the shell's signal handlers (a signal sent then is lost); the shell sends SIGCONT to the last stage right
        after it has started the pipeline (issue #2999), which undoes a stop that arrives before.
        -> pgrp | None (None also when the command returned first: a 'done' event is waiting)."""
        deadline = time.monotonic() + timeout
        me = pstat(self.pid)
        shell_comm = me[4] if me else None
        stable_since = stable_key = None
        while time.monotonic() < deadline:
            pg = self.fg_pgrp()
            key = None
            if pg is not None and pg != self.shell_pgrp:
                grp = {p: (s, c) for p, (s, c, g) in children_of(self.pid).items() if g == pg and s != "Z"}
                me = pstat(self.pid)
                if grp and all(s != "T" and c != shell_comm for s, c in grp.values()) and me and me[0] == "S":
                    key = (pg, tuple(sorted(grp)))
            if key is None:
                stable_since = stable_key = None
            elif key != stable_key:
                stable_since, stable_key = time.monotonic(), key
            elif time.monotonic() - stable_since >= STABLE_S:
                return pg
            if any(ev.get("ev") == "done" for ev in self.events):
                return None
            self.pump(0.005)
        return None

    def _type(self, byte):
        try:
            os.write(self.master, byte)
        except OSError:
            pass

    def exec(self, src, during=None, collect=False, nprocs=1):
        """Run one command line.  `during` is what the user does while it runs:
             None      nothing: the line must return by itself within STEP_S
             'wait'    wait PATIENCE_S for it to end by itself, then press Ctrl-C
             'suspend' press Ctrl-Z (byte 0x1a typed at the terminal) once the job owns the terminal; again when a
                       part of the job is still running; when nothing stops at all (the line discipline's suspend
                       character is disabled while xonsh runs a *threaded* command - by design) press Ctrl-C instead
             'ctrlc'   press Ctrl-C (byte 0x03) once the job owns the terminal
             'term' / 'kill' / 'hup'   the job's process group gets that signal from outside once it owns the terminal
        -> ('done', event + {'effective': what was really done, 'acted': pgrp}) | ('hang', info); raises Inconclusive
        when the precondition of the action could not be reached."""
        self.events = [e for e in self.events if e.get("ev") != "done"]
        self.send({"op": "exec", "src": src, "collect": collect})
        deadline = time.monotonic() + STEP_S
        effective = []
        acted = None

        def result(ev):
            return "done", dict(ev, acted=acted, effective="+".join(effective) or None)

        def hang(why):
            return "hang", {"acted": acted, "effective": "+".join(effective) or None, "why": why, "fg": self.fg_pgrp(),
                            "children": {str(k): list(v) for k, v in children_of(self.pid).items()}}

        if during is None:
            ev = self.wait_event(("done",), STEP_S)
            return result(ev) if ev is not None else hang("no user action")
        if during == "wait":
            ev = self.wait_event(("done",), PATIENCE_S)
            if ev is not None:
                return result(ev)
            during = "ctrlc"
            effective.append("waited")
        pg = self.wait_job_owns_terminal(nprocs)
        if pg is None:
            ev = self.wait_event(("done",), 0.5)
            if ev is not None:
                return result(ev)                   # nothing to act upon: the line is over already
            raise Inconclusive("precondition not reached: %r has not returned and no job of it got the terminal within %.0f s "
                               "(foreground group %s, shell %s, children %s)" % (src, PRECOND_S, self.fg_pgrp(), self.shell_pgrp,
                                                                                  sorted(children_of(self.pid).values())))
        acted = pg
        deadline = time.monotonic() + STEP_S
        if during == "suspend":
            presses = 0
            while presses < 3:
                self._type(b"\x1a")
                presses += 1
                ev = self.wait_event(("done",), 0.5, until=lambda: self._all_stopped(pg))
                if ev is not None:
                    effective.append("ctrl-z*%d" % presses)
                    return result(ev)
                if self._all_stopped(pg):
                    break
            if self._all_stopped(pg):
                effective.append("ctrl-z*%d" % presses)
                ev = self.wait_event(("done",), max(0.0, deadline - time.monotonic()))
                return result(ev) if ev is not None else hang("the whole job is stopped but the command line has not returned")
            if any(s == "T" for s in self.group_states(pg)):
                raise Inconclusive("precondition not reached: after %d x Ctrl-Z a part of the job of %r is stopped and a part is not" % (presses, src))
            effective.append("ctrl-z-ignored")
            during = "ctrlc"
        if during == "ctrlc":
            self._type(b"\x03")
            effective.append("ctrl-c")
            ev = self.wait_event(("done",), max(0.0, deadline - time.monotonic()))
            return result(ev) if ev is not None else hang("Ctrl-C was typed while the job owned the terminal")
        sig = {"term": signal.SIGTERM, "kill": signal.SIGKILL, "hup": signal.SIGHUP}[during]
        try:
            os.killpg(pg, sig)
        except OSError:
            pass
        effective.append(during)
        ev = self.wait_event(("done",), max(0.0, deadline - time.monotonic()))
        return result(ev) if ev is not None else hang("the job's process group got %s" % sig.name)

    def _all_stopped(self, pgrp):
        sts = self.group_states(pgrp)
        return bool(sts) and all(s == "T" for s in sts)

    def query_state(self):
        self.send({"op": "state"})
        ev = self.wait_event(("state",), 10.0)
        if ev is None:
            raise Inconclusive("the session did not answer a state query")
        return ev["state"]

    def ctrl_c_at_prompt(self):
        """-> True when the idle session reported KeyboardInterrupt."""
        self.events = [e for e in self.events if e.get("ev") != "interrupt"]
        os.write(self.master, b"\x03")
        return self.wait_event(("interrupt",), INTERRUPT_S) is not None


# ----------------------------------------------------------------------------------------
# histories


JOBS = {                      # id -> (template, number of child processes)
    "s": ("sleep {d}", 1),
    "es": ("vemit small.txt 1 0 0 0 | sleep {d}", 2),        # the process-group leader exits at once
    "sc": ("sleep {d} | vcat", 2),                           # the last stage waits for EOF from the first
    "ss": ("sleep {d} | sleep {d}", 2),
    "bs": ("vemit big.txt 1 4096 0 0 | sleep {d}", 2),       # the first stage is blocked on a full pipe all the time
}
DURATIONS = {"short": "0.3", "long": "30"}
JOB_FORMS = {"bare": "%s", "hidden": "![%s]", "uncap": "$[%s]", "cap": "_x = $(%s)"}
PLAIN = {
    "neutral": "aneutral",
    "ok": "vexit 0",
    "fail": "vexit 3",
    "notfound": "nosuchcmd-c09",
    "cap": "_x = $(vemit small.txt 1 0 0 0)",
    "pipe": "vemit small.txt 1 0 0 0 | vcat",
    "early": "vemit big.txt 1 4096 0 0 | head -n 1",
    "obj": "_p = !(vemit small.txt 1 0 0 0)\n_p.end()\n_p = None",
    "alias-pipe": "vemit small.txt 1 0 0 0 | acat",
    "pipe-notfound": "vemit big.txt 1 4096 0 0 | nosuchcmd-c09",     # a later stage cannot be started after the terminal was handed over
    "pipe-fail": "vemit small.txt 1 0 0 0 | vexit 3",
    "cap-fail": "_x = $(vexit 3)",
    "cd": "cd .",
}
OBJLIVE = ("_p = !(sleep 0.4)", "_r = _p.rtn\n_p = None")     # a live !(...) object runs in the background: the terminal stays with the shell
DURING = ("wait", "suspend", "ctrlc", "term", "kill")


def job_src(job, dur, form="bare", amp=False):
    tmpl, n = JOBS[job]
    body = tmpl.format(d=DURATIONS[dur]) + (" &" if amp else "")
    return JOB_FORMS[form] % body, n


def render_op(op):
    """-> (source text, during, nprocs)"""
    k = op["op"]
    if k == "run":
        src, n = job_src(op["job"], op["dur"], op.get("form", "bare"))
        return src, op.get("during", "wait"), n
    if k == "amp":
        src, n = job_src(op["job"], op["dur"], "bare", amp=True)
        return src, None, n
    if k in ("fg", "bg"):
        return (k + (" " + str(op["arg"]) if op.get("arg") not in (None, "") else "")), (op.get("during", "wait") if k == "fg" else None), 1
    if k == "jobs":
        return "jobs", None, 0
    if k == "plain":
        return PLAIN[op["cmd"]], None, 0
    raise ValueError("bad op %r" % (op,))


def describe_op(op):
    k = op["op"]
    if k == "objlive":
        return " ;; ".join(x.replace("\n", "; ") for x in OBJLIVE)
    if k in ("killjob", "ctrlc-prompt"):
        return k + ((":%s:%s" % (op.get("which"), op.get("sig"))) if k == "killjob" else "")
    src, during, _n = render_op(op)
    return "%s%s" % (src.replace("\n", "; "), " <%s>" % during if during else "")


def _live(state, pids):
    return [(p, v) for p, v in state["children"].items() if int(p) in pids and v[0] not in ("Z", "T", "t", "X")]


def step_problems(state, origin, where):
    """Invariants that must hold every time the prompt is back.  `origin`: pgrp -> description of the line that
    created the job.  -> list of (bucket, text)"""
    probs = []
    shell = state["pgrp"]
    if state["tcpgrp_at_return"] != shell or state["tcpgrp"] != shell:
        tc = state["tcpgrp_at_return"] if state["tcpgrp_at_return"] != shell else state["tcpgrp"]
        owner = None
        for num, j in state["jobs"].items():
            if j["pgrp"] == tc:
                owner = "job %s (%s, created by `%s`)" % (num, j["status"], origin.get(tc, "?"))
        if owner is None:
            owner = "a finished job created by `%s`" % origin[tc] if tc in origin else "no job of the table"
        probs.append(("terminal", "terminal ownership: %s the foreground process group of the terminal is %s (%s), not the shell's %s"
                      % (where, tc, owner, shell)))
    known = {p for j in state["jobs"].values() for p in j["pids"]}
    extra = sorted((v[0], v[1]) for p, v in state["children"].items() if int(p) not in known)
    if extra:
        z = [c for s, c in extra if s == "Z"]
        t = [c for s, c in extra if s in ("T", "t")]
        r = [c for s, c in extra if s not in ("Z", "T", "t")]
        if z:
            probs.append(("child-unreaped", "child-unreaped: %s %d zombie children outside the job table (%s)" % (where, len(z), ",".join(z))))
        if t:
            probs.append(("child-stopped", "child-stopped: %s %d stopped children outside the job table (%s)" % (where, len(t), ",".join(t))))
        if r:
            probs.append(("child-running", "child-running: %s %d running children outside the job table (%s)" % (where, len(r), ",".join(r))))
    for num, j in sorted(state["jobs"].items()):
        if j["bg"]:
            continue
        live = _live(state, set(j["pids"]))
        if live:
            probs.append(("fg-child-running:" + origin.get(j["pgrp"], "?").split(" ")[0],
                          "fg-child-running: %s job %s (created by `%s`, not a background job, status %r) still has running processes (%s)"
                          % (where, num, origin.get(j["pgrp"], "?"), j["status"], ",".join(sorted(v[1] for _p, v in live)))))
    return probs


def final_problems(base, state):
    probs = []
    if state["jobs"]:
        probs.append(("final-jobs", "job table: after every job was killed and `jobs` was run the table still holds %s" % json.dumps(state["jobs"])))
    if state["children"]:
        probs.append(("final-children", "child-left: children left when the session is over: %s" % sorted(tuple(v[:2]) for v in state["children"].values())))
    bf, af = base["fds"], state["fds"]
    extra = {k: v for k, v in af.items() if k not in bf}
    gone = {k: v for k, v in bf.items() if k not in af}
    changed = {k: (bf[k], v) for k, v in af.items() if k in bf and bf[k] != v}
    if extra or gone or changed:
        probs.append(("final-fds", "fd-leak: descriptor table differs when the session is over: additional %s, closed %s, re-pointed %s" % (
            sorted(extra.items(), key=lambda x: int(x[0])), sorted(gone), sorted(changed))))
    if sorted(state["threads"]) != sorted(base["threads"]):
        probs.append(("final-threads", "thread-alive: helper threads when the session is over: %s (before: %s)" % (state["threads"], base["threads"])))
    for k in sorted(base["handlers"]):
        if base["handlers"][k] != state["handlers"].get(k):
            probs.append(("final-handler", "handler %s: %s -> %s" % (k, base["handlers"][k], state["handlers"].get(k))))
    if base.get("sigmask") != state.get("sigmask"):
        probs.append(("final-sigmask", "sigmask: blocked signals of the shell's main thread %s -> %s (inherited by every job started from now on)"
                      % (base.get("sigmask"), state.get("sigmask"))))
    if base["cwd"] != state["cwd"]:
        probs.append(("final-cwd", "cwd: %r -> %r" % (base["cwd"], state["cwd"])))
    if base["std_ids"] != state["std_ids"]:
        probs.append(("final-std", "sys.std* replaced: %s -> %s" % (base["std"], state["std"])))
    if any(state["std_closed"]):
        probs.append(("final-std-closed", "closed sys.std*: %s" % state["std_closed"]))
    return probs


def run_history(fork_session, ops, log=None):
    """Drive one history.  -> {'problems': [(bucket, text)], 'inconclusive': str|None, 'labels': [...], 'trace': [...]}"""
    out = {"problems": [], "inconclusive": None, "labels": [], "trace": []}
    labels = out["labels"]
    t_start = time.monotonic()
    try:
        d = Driver(fork_session)
    except SessionDead as e:
        out["inconclusive"] = str(e)
        return out
    origin = {}         # pgrp -> description of the creating line
    seen_pgrps = set()

    def note(msg):
        out["trace"].append(msg)
        if log is not None:
            log(msg)

    def absorb(state, descr):
        for j in state["jobs"].values():
            pg = j["pgrp"] if j["pgrp"] is not None else (j["pids"][0] if j["pids"] else None)
            if pg is not None and pg not in seen_pgrps:
                seen_pgrps.add(pg)
                origin[pg] = descr

    def run_line(src, during, nprocs, descr, where, collect=False):
        kind, ev = d.exec(src if src.endswith("\n") else src + "\n", during=during, nprocs=nprocs, collect=collect)
        if kind == "hang":
            out["problems"].append(("hang", "hang: %s did not return within %.0f s (%s; user action: %s; foreground group %s, shell %s, children %s)"
                                    % (where, STEP_S, ev["why"], ev["effective"], ev["fg"], d.shell_pgrp, sorted(tuple(v) for v in ev["children"].values()))))
            note("%s -> HANG %s" % (descr, ev))
            return None
        st = ev["state"]
        absorb(st, descr)
        if ev.get("effective"):
            labels.append("did:" + ev["effective"].split("*")[0])
        note("%s -> exc=%s did=%s %.2fs tc=%s jobs=%s children=%s" % (descr, ev["exc"], ev.get("effective"), ev["seconds"], st["tcpgrp"],
                                                                       {k: (v["status"], v["bg"]) for k, v in st["jobs"].items()},
                                                                       sorted(tuple(v[:2]) for v in st["children"].values())))
        if d.fg_pgrp() != d.shell_pgrp and st["tcpgrp"] == st["pgrp"]:
            st = dict(st, tcpgrp=d.fg_pgrp())       # the driver's own view through the master must agree
        out["problems"] += step_problems(st, origin, where)
        return st

    try:
        st = run_line("aneutral", None, 0, "warm-up `aneutral`", "after the warm-up command `aneutral`", collect=True)
        if st is None:
            return out
        base = st
        last = st
        for k, op in enumerate(ops):
            if out["problems"]:
                break           # later steps run on a session that is already broken; the first broken step is the finding
            descr = describe_op(op)
            where = "after step %d `%s`" % (k + 1, descr)
            labels.append("op:" + op["op"])
            if op["op"] == "ctrlc-prompt":
                if any(not j["bg"] for j in last["jobs"].values()):
                    labels.append("ctrlc-prompt-skipped")
                    continue        # only asked of a session without suspended jobs (a suspended threaded command keeps its handlers)
                ok = d.ctrl_c_at_prompt()
                note("%s -> %s" % (descr, ok))
                if not ok:
                    out["problems"].append(("ctrl-c-prompt", "ctrl-c: %s Ctrl-C typed at the prompt did not raise KeyboardInterrupt in the shell within %.0f s"
                                            % (where, INTERRUPT_S)))
                continue
            if op["op"] == "killjob":
                jobs = sorted(last["jobs"].items())
                if not jobs:
                    labels.append("killjob-no-job")
                    continue
                num, j = jobs[op.get("which", 0) % len(jobs)]
                sig = getattr(signal, op.get("sig", "SIGKILL"))
                try:
                    if j["pgrp"]:
                        os.killpg(j["pgrp"], sig)
                        if sig != signal.SIGKILL:
                            os.killpg(j["pgrp"], signal.SIGCONT)
                    else:
                        for p in j["pids"]:
                            os.kill(p, sig)
                except OSError:
                    pass
                # wait until the processes are gone (zombies count as gone): what the shell does about it shows at the next line
                t0 = time.monotonic()
                while time.monotonic() - t0 < PRECOND_S and any(int(p) in j["pids"] and v[0] != "Z" for p, v in
                                                                 ((p, v) for p, v in children_of(d.pid).items())):
                    d.pump(0.01)
                note("%s job %s" % (descr, num))
                continue
            if op["op"] == "objlive":
                # two lines: the object is ended by the very next line (an un-ended !(...) is a running pipeline, outside the property)
                st = run_line(OBJLIVE[0], None, 0, "`%s`" % OBJLIVE[0], "after step %d `%s` (the object is live)" % (k + 1, OBJLIVE[0]))
                if st is None or out["problems"]:
                    return out
                st = run_line(OBJLIVE[1], None, 0, "`%s`" % OBJLIVE[1].replace("\n", "; "), "after step %d `%s`" % (k + 1, OBJLIVE[1].replace("\n", "; ")))
                if st is None:
                    return out
                last = st
                continue
            src, during, nprocs = render_op(op)
            if op["op"] in ("run", "amp"):
                labels += ["job:" + op["job"], "dur:" + op["dur"], "jobform:" + (op.get("form", "bare") if op["op"] == "run" else "amp")]
            if during:
                labels.append("during:" + during)
            st = run_line(src, during, nprocs, descr, where)
            if st is None:
                return out
            if op["op"] in ("fg", "bg") and last["jobs"]:
                labels.append(op["op"] + "-with-jobs")
                if any(j["status"] in ("stopped", "suspended") for j in last["jobs"].values()):
                    labels.append(op["op"] + "-of-stopped")
            if any(j["status"] in ("stopped", "suspended") for j in st["jobs"].values()):
                labels.append("state:job-stopped")
            if any(j["bg"] for j in st["jobs"].values()):
                labels.append("state:job-in-background")
            last = st
        if out["problems"]:
            return out
        # the session is over: kill what is left, let the shell notice, compare with the state after the warm-up
        doomed = set()
        for num, j in sorted(last["jobs"].items()):
            doomed.update(j["pids"])
            try:
                if j["pgrp"]:
                    os.killpg(j["pgrp"], signal.SIGKILL)
            except OSError:
                pass
            for p in j["pids"]:
                try:
                    os.kill(p, signal.SIGKILL)
                except OSError:
                    pass
        t0 = time.monotonic()
        while time.monotonic() - t0 < PRECOND_S and any(p in doomed and v[0] != "Z" for p, v in children_of(d.pid).items()):
            d.pump(0.01)        # dying takes a moment; what the shell makes of dead jobs is what the next line shows
        st = run_line("jobs", None, 0, "`jobs` after killing all jobs", "after all remaining jobs were killed and `jobs` was run")
        if st is None or out["problems"]:
            return out
        st = run_line("_x = None\n_p = None\n_r = None\naneutral", None, 0, "final `aneutral`", "after the final neutral command", collect=True)
        if st is None or out["problems"]:
            return out
        t0 = time.monotonic()
        while sorted(st["threads"]) != sorted(base["threads"]) and time.monotonic() - t0 < GRACE_S:
            d.pump(0.05)
            st = d.query_state()
        out["problems"] += final_problems(base, st)
        if out["problems"]:
            return out
        # Ctrl-C still interrupts: a foreground sleep, and the idle shell
        st = run_line("sleep 30", "ctrlc", 1, "`sleep 30` <ctrlc>", "after Ctrl-C was typed during the final `sleep 30`")
        if st is None or out["problems"]:
            return out
        if st["children"]:
            out["problems"].append(("ctrl-c-child", "ctrl-c: the final `sleep 30` survived Ctrl-C: %s" % st["children"]))
        if not d.ctrl_c_at_prompt():
            out["problems"].append(("ctrl-c-prompt", "ctrl-c: when the session is over Ctrl-C typed at the prompt did not raise KeyboardInterrupt in the shell "
                                    "within %.0f s" % INTERRUPT_S))
        return out
    except Inconclusive as e:
        out["inconclusive"] = str(e)
        note("INCONCLUSIVE %s" % e)
        return out
    except SessionDead as e:
        out["problems"].append(("session-died", "session-died: %s" % e))
        return out
    finally:
        out["tail"] = d.tail(600)
        out["seconds"] = round(time.monotonic() - t_start, 2)
        d.close()

#!/usr/bin/env python3
"""Regenerates /verif/MANIFEST.json from the table below and validates it against the schema."""
import json
import os
import sys

HERE = os.path.dirname(os.path.dirname(os.path.abspath(__file__)))

CHECKS = {
    "C17": dict(
        category="exploration",
        technique="property-based round-trip and metamorphic testing: generated Python programs in random surface styles, generated xonsh sources (command lines, macros, captures, mixtures at every indent depth), stdlib statements and the repository's own .xsh files through format_source; tree equality with all constants compared, comment sequence, idempotence; CLI family for rejection and --check/--diff",
        text="For every input that xonsh parses, the formatter's output must parse to the same tree (canonical form extended over xonsh helper calls, all constants - string contents, subprocess argument strings, macro bodies - compared byte for byte), keep the tokenizer's comment texts, and be a fixed point of the formatter; untokenisable inputs must raise FormatError and through the CLI leave the file byte-identical with the documented exit code; --check/--diff never write. Python text is judged with its identifiers known (CPython as referee), xonsh text with the command words unknown. Failures are attributed edit by edit (maximal-passing-subset bisection over the formatter's edit script) to 16 recorded defects with narrow predicates.",
        note="Trusted: xonsh's parser as the reader of both input and output (cases where the parser's tree does not account for every identifier of the text are skipped and counted - those are parser defects, C01-C03); edits that cannot matter under any reading (blank run for blank run, trailing blanks, blank lines, re-indented comment lines) are exempt and counted; subshell text is compared by its own tree.",
        design="2/C17",
    ),
    "C18": dict(
        category="exploration",
        technique="property-based execute-the-completion round trip (generated file names x typed prefixes x opening-quote styles, completed line executed through the real Execer with a recording alias) + Hypothesis string fuzzing of the completion-context analyser at every cursor position (atheris campaign in the thorough tier)",
        text="Part A: a file or directory with a generated name (any POSIX-legal characters) is created next to decoy siblings, completions are obtained through the real Completer pipeline for a typed prefix in every quote style (none, ', \", r', triple, p', with and without the closing quote after the cursor), each candidate for that entry is spliced into the line as the completer reports and the line is executed: exactly one argument equal to the path must arrive. Part B: arbitrary strings x cursor positions through CompletionContextParser.parse: no exception, no hang (3 CPU-seconds), prefix/suffix/quote fields reproduce the text around the cursor, 0 <= arg_index <= len(args). 23 recorded defects with narrow predicates.",
        note="Trusted: the recording alias as the reader of the inserted text; the candidate list need not be complete (only what is offered must mean the path); names that start a comment when typed bare and p-string expansions are out of domain; bash/man completer bridges are not exercised.",
        design="2/C18",
    ),
    "C19": dict(
        category="exploration",
        technique="stateful model-based testing (Hypothesis RuleBasedStateMachine, harness-owned clock via os.utime) with path-identity operations (symlinked scripts / parents / cwd, re-pointed links, edits during a run) + complete enumeration of truncation lengths and of single-bit damage of valid cache entries (damage classified in a throw-away child) + child-process tier",
        text="Histories of edit/touch/run (all cache switches)/corrupt-entry operations over awkwardly named scripts and code strings in exec/single/eval mode, in process and through real xonsh child processes and imphooks; each run's stdout, exception, namespace effects and exit status must equal the uncached run of the current source; foreign-version, truncated (every length, enumerated completely for several entries), non-code, garbage, unreadable and directory entries must never be executed or fatal and must be rebuilt; cache file names must be injective over confusable path/text pairs. Four recorded defects.",
        note="Trusted: the uncached run as reference; mtime relations are set exactly with os.utime (no sleeping); child processes call xonsh.main.main() with PYTHONPATH=/repo and the rebuilt tables preloaded; chmod-000 corruption needs CAP_DAC_OVERRIDE dropped in the worker.",
        design="2/C19",
    ),
    "C20": dict(
        category="exploration",
        technique="stateful model-based testing: exhaustive enumeration of all job-command histories up to length 4/5 over a 20-operation alphabet, Hypothesis RuleBasedStateMachine with two lock-stepped actors, and a real-process family compared with /proc",
        text="Histories of add_job / process exit / jobs / fg / bg / disown (valid, invalid, duplicate arguments) / clean-ups on the main thread and in alias-style worker threads (harness-owned interleaving) are run against xonsh/procs/jobs.py with stub processes that can never be signalled, and compared after every step with a reference model (live jobs + MRU order); a small family drives real `sleep` children and compares with /proc. One recorded defect (non-atomic disown) is tolerated only in its exact shape.",
        note="Trusted: the reference model; 'reports an error' is a non-empty stderr message or non-zero exit; ambiguous numeric spellings accept both readings; a job registered from inside an alias thread need only stay isolated (documented in jobs.py).",
        design="2/C20",
    ),
    "C01": dict(
        category="exploration",
        technique="differential property-based testing against CPython's parser: stdlib corpus + CPython-validated token/whitespace mutations + Hypothesis-driven constructive AST generator rendered in random surface styles; canonical-tree and compile() comparison",
        text="Every text CPython accepts (corpus statement, validated mutation, generated program in a random surface style) is parsed by xonsh's context-free parser with LALR tables rebuilt from the working tree and compared with CPython's tree under a strict location-free canonical form, plus agreement of compile(); exec/eval/single modes. 40 recorded parser defects are attributed only through narrow syntactic predicates on the minimised program and avoided by the generators (counted). Absence is shown only for the explored texts.",
        note="Trusted: CPython's ast.parse/compile as the reference; the canonical form (self-tested: 6 equal pairs, 48 single-field perturbations); input convention of xonsh's own callers (exec/single text ends with newline, eval text does not). CR newlines, form feeds and coding declarations are out of domain.",
        design="2/C01",
    ),
    "C02": dict(
        category="exploration",
        technique="differential property-based testing against CPython: constructed programs over binder kind x scope x command-looking probe, tree comparison with ast.parse and execution against builtin exec with logging operands",
        text="Programs are built from every binder the property lists (all assignment target shapes, annotated assignment, imports, def, class, for, with-as, except-as, walrus, global, every parameter kind, builtins) x 14 scope placements (module/function/class/nested, binder outside and probe deeper, inside if/try/loop/with/match blocks) x 37 probe statements that are valid Python but look like commands, with names that are real executables and xonsh aliases. Execer.parse must give CPython's tree with no subprocess call; Execer.exec and builtin exec must produce the same ordered operator log and exception with nothing launched. `del NAME` must return the line to command interpretation; an invalid last line must raise SyntaxError with no side effect. Three recorded binder-tracking defects.",
        note="Trusted: CPython exec as the reference; definiteness by construction (self-check: builtin exec raises no NameError); binders outside the property's list are not generated; programs failing the C01 oracle are skipped and counted.",
        design="2/C02",
    ),
    "C03": dict(
        category="exploration",
        technique="differential property-based testing (bare program vs generator-made explicit ![..] twin, traces compared) + grammar-aware Hypothesis string fuzzing and coverage-guided atheris/libFuzzer campaigns (failures bucketed so the search continues) of Execer.parse under a CPU-time bound with hang confirmation",
        text="Chains of 1-4 generated command segments (words, quoted strings, $VAR, @(), $(), redirects, pipes) joined by &&, ||, and, or are embedded in generated Python contexts (top level, before/after `;`, blocks of every compound statement kind nested to depth 4 with tab/2/4/8-space indents, backslash continuations) and executed twice in fresh sessions - bare and with every segment wrapped in ![..] by the generator; recorded alias calls, stdin, redirect-target contents and the escaping exception must agree. Arbitrary strings (metacharacter-weighted text, splices/truncations/insertions on valid programs) go through Execer.parse: tree, None or SyntaxError only, within 20 s. Six recorded defects are attributed by narrow shape predicates and mostly avoided.",
        note="Trusted: the generator's explicit twin; a twin that is itself a SyntaxError is a discard; what lands on the shell's own stdout is not compared (C06/C07); the hang bound (SIGALRM, re-armed) as the meaning of 'terminates'.",
        design="2/C03",
    ),
    "C04": dict(
        category="exploration",
        technique="property-based round-trip testing: Hypothesis-generated command lines whose expected argv is known by construction, observed through a recording callable alias and through a real child process (netstring argv dump), decoy files against unintended globbing",
        text="Command lines of 1-6 arguments in every delivery form (plain word, '..', \"..\", triple-quoted, r'', f'', @(expr) with str/list/tuple/generator/int/bytes, glued @(), macro `cmd! text`, @$(cmd), pipes) over values rich in blanks, quotes, backslashes, newlines, glob and shell metacharacters are executed through the real Execer; the recorded argv must equal the model (documented $NAME / leading-~ expansion modelled by construction) and alias argv must equal child-process argv. Two recorded defects are attributed through narrow predicates.",
        note="Trusted: the generator's own escaper (every literal is checked with ast.literal_eval before use); the model of documented expansions; lines that are also Python assignment/tuple statements are C02/C03's domain and skipped (counted).",
        design="2/C04",
    ),
    "C05": dict(
        category="exploration",
        technique="model-based property testing: exhaustive enumeration of small chain shapes + Hypothesis-generated chains against a reference interpreter written from docs/error_handling.rst and docs/tutorial.rst; process tier through real `xonsh -c` / script runs",
        text="Chain shapes (&&, ||, and, or, not, parentheses; 1-6 leaves of 1-3 pipeline stages) x exit codes per stage x capture form per leaf (bare, ![], $[], $(), @$(), !()) x @error_raise/@error_ignore placement x leaf texts that are / are not valid Python x statement kind x both raise flags are executed through the real Execer with recording aliases and compared with the reference: ordered log of commands run, exception and returncode, which later statements ran; sampled programs run as -c and as script files must exit non-zero iff the model raises. All 1-2 leaf cases are enumerated in quick, the 3-leaf sub-space in thorough. A disagreement is re-run twice; one that does not reproduce is inconclusive. One recorded defect (fixed).",
        note="Trusted: the reference interpreter (from the docs; where the docs are silent or contradict each other both outcomes are accepted - listed in the evidence assumptions); $() / $[] operands use their documented return values for truth; cases whose bare text parses differently from its explicit twin are C03's subject and skipped (counted).",
        design="2/C05",
    ),
    "C06": dict(
        category="exploration",
        technique="property-based testing over payload x writer behaviour x pipeline x capture kind x configuration with randomized, seeded schedule perturbation through guarded hook points in xonsh's reader/proxy/pipeline threads; round-trip oracle against the bytes the writer was told to write; second family: alias stages (callable aliases, ExecAliases) that emit a generated sequence of tagged segments through different write paths incl. inner commands, with env prefixes, captured in every view while the real fd 1/2 are observed",
        text="Payloads built from segments (UTF-8 text, LF/CRLF/CR, escape sequences, hidden spans, binary) with sizes straddling the 1024-byte reader chunk, 4096 and multiples of the 64 KiB pipe buffer are written by an external helper or alias with generated chunking, delays, linger and exit code through pipelines of 1-3 external/alias stages and captured with $(), !().out, iteration, .raw_out, .rtn and @$() under $THREAD_SUBPROCS on/off; with XONSH_XONSH_VERIF=1 each case runs under several seeded delay plans at the schedule points. raw_out must equal the payload byte for byte, text views must match under one consistent newline reading with every text segment intact, rtn must be the last stage's code, nothing may be echoed to the shell's own stdout (fd 1 captured by the harness). A failure is reported only if it reproduces in re-runs; unreproduced schedule anomalies are counted as inconclusive. One recorded defect.",
        note="Trusted: the C helpers (vemit/vcat) write exactly the payload file; schedules are sampled by delay injection, not enumerated - the OS still owns the real interleaving; alternate-screen switches are excluded (documented pass-through).",
        design="2/C06",
    ),
    "C07": dict(
        category="exploration",
        technique="exhaustive enumeration of the documented redirect spelling table x stage kind x position x capture form x target state (seeded sample in quick, complete product in thorough) + generated redirect combinations, and a product over alias-body stage kinds x routings x stage decorations ($VAR=v prefixes, @thread/@unthread/@error_ignore), every emission tagged, against a placement model written from the tutorial; metamorphic equality of spellings",
        text="Every stage writes stream- and stage-tagged lines; after the command each tagged line must be found exactly once and only where the operators say: target file (truncated / appended), next stage's stdin, capture value, or the harness's fd-level terminal (temp files dup2'ed onto fds 1 and 2, sys.stdout/stderr as write-through wrappers). All spellings of one operator must place identically; conflicts and malformed operators must raise XonshError/SyntaxError with nothing delivered; a missing-directory target must be an error. Failures are re-executed and reported only if they reproduce. Eight recorded defects.",
        note="Trusted: the placement model (where the docs leave a reading open - explicit redirect vs pipe, merge order, stderr of non-last stages under !() - every reading is accepted); a rejected command may have created or truncated its `>` target before the conflict was seen (tolerated and counted); read-only targets use the immutable inode flag because the harness runs as root.",
        design="2/C07",
    ),
    "C08": dict(
        category="exploration",
        technique="stateful model-based testing (Hypothesis RuleBasedStateMachine) of file-system/$PATH mutation histories against a reference execvp search cross-checked with dash `command -v`; a deterministic intruder performs generated file-system operations at generated points of xonsh's own directory reads (harness-owned concurrency); symlinked directories with link/.. spellings judged by the kernel",
        text="Histories of create/delete/chmod/symlink/rename/$PATH-edit/chdir operations interleaved with lookups through every view (locate_executable, SubprocSpec.build, CommandsCache.locate_binary, `in`, all_commands, real execution); after every step each view must agree with a pure-Python POSIX search that is itself cross-checked against /bin/sh. Five recorded staleness/lookup defects are tolerated only in their exact shape.",
        note="Trusted: the reference search and dash; runs as root (x-bit semantics of uid 0); same-tick mtime collisions are produced by restoring directory mtimes because this kernel advances mtime on every change.",
        design="2/C08",
    ),
    "C16": dict(
        category="exploration",
        technique="stateful model-based testing (Hypothesis RuleBasedStateMachine) of cd/pushd/popd/dirs histories against a reference model of the documented directory-stack builtins",
        text="Histories of directory commands with valid, out-of-range, malformed, missing, non-directory and permission-denied targets over a tree with symlinks, issued through the real aliases and through Execer.exec; after every step $PWD/getcwd/$OLDPWD/DIRSTACK are compared with the model; failed operations must change nothing. Three recorded defects are tolerated only in their exact shape.",
        note="Trusted: the reference model (bash manual + docstrings); ambiguous forms (dir named '-' or '+1', logical vs physical '..') accept every documented reading; permission failures are made real by dropping CAP_DAC_OVERRIDE in the worker.",
        design="2/C16",
    ),
    "C09": dict(
        category="exploration",
        technique="property-based testing with resource snapshots as invariant: generated pipeline shapes x failure modes x capture forms x repetition counts, /proc-level before/after comparison; races hunted by repetition; early-exit matrix with endless producers; stateful job-control histories (suspend / fg / bg / kill / Ctrl-C) in real interactive sessions on harness-owned ptys with a tcgetpgrp invariant",
        text="Pipelines of 1-4 stages (external ok/failing/not found/permission denied, callable alias ok/raising/writing a lot, consumer exiting early, stage never reading stdin) x capture form x redirects x $THREAD_SUBPROCS x repetition count (1, 3, 30; thorough 300) and sequences of commands run through the real Execer; after each (grace <= 2 s) the worker's open descriptors with link targets, children (zombie or running), OS-level threads, cwd, identity of sys.std*, signal handlers, XSH.env (effective values) and os.environ are compared at three strengths: immediately, steady state (N repetitions == 1 repetition) and strict after XSH.lastcmd was displaced; a self-sent SIGINT must raise KeyboardInterrupt. Seven recorded defects (three of them races found by repetition) tolerated only in their exact symptom on their shape.",
        note="Trusted: /proc as the observer; garbage collection is disabled inside a case (what gc.collect() releases is counted, not failed); shapes of open findings are thinned (counted) because each costs 2-20 s; terminal ownership is only covered by the thorough tier's pty workers; background `&` pipelines are not generated.",
        design="2/C09",
    ),
    "C10": dict(
        category="exploration",
        technique="property-based round-trip testing of every registered variable's validate/convert/detype triple + stateful model-based testing (Hypothesis RuleBasedStateMachine) of the launch view with real child processes sampled",
        text="Part A: for each of the 158 registered variables, the *PATH / *DIRS patterns and unregistered names, generated valid typed values are set, read, detyped and converted back in a fresh Env (nested-xonsh view). Part B: histories of set/delete/in-place mutation through fresh and held references/swap/alias overlay/per-command prefix/DELETE_VAR mask/detype-at-arbitrary-points/register-deregister/second thread are run against one Env and a dict model; at every launch the mapping built the way SubprocSpec.prep_env_subproc builds it (and, sampled, what a real child `venv0` receives, and os.environ under $UPDATE_OS_ENVIRON) must equal the reference detype of the model at launch time. Nine recorded defects.",
        note="Trusted: the per-type reference string forms; values the string format cannot carry (lone '' entry, entries containing the separator, compiled regexes) are out of domain; shapes already recorded under C11 are skipped and counted.",
        design="2/C10",
    ),
    "C11": dict(
        category="exploration",
        technique="stateful model-based testing (Hypothesis RuleBasedStateMachine) with 2-3 actor threads driven in lock-step, so the harness owns the interleaving; reference model = global dict + per-thread stack of layers",
        text="Histories of swap(**kw)/swap(dict)/swap(overlay=) enter and exit (normal, by Exception, by BaseException), DELETE_VAR masks, nested scopes on overlapping keys, plain set/del inside scopes, get/set_swapped_values hand-over to child threads, alias-style overlays and reads are executed by several actor threads one operation at a time; after every step and for every actor []/in/get/iteration/detype()/detype_all() must equal what the model says that thread sees, and each scope exit must restore the snapshot taken at entry. Eight recorded defects are tolerated only when an as-built twin model reproduces exactly that mechanism, or are excluded from generation (counted).",
        note="Trusted: the reference model; both the layer and the snapshot reading of 'exactly as before' are accepted when another thread assigned the variable meanwhile; overlay-only keys missing from iteration are a reported weak class, not a violation; data races inside one Env method are not explored (lock-step schedule).",
        design="2/C11",
    ),
    "C12": dict(
        category="exploration",
        technique="stateful model-based testing (Hypothesis RuleBasedStateMachine) per backend with harness-owned flusher scheduling (flusher threads held at run()/dump() entry so reads race with in-flight flushes deterministically) + pure round-trip property of the lazyjson index + generated whole sessions in real child interpreters that really exit (six ways to end a session, delayed flushers), store decoded by the parent",
        text="Histories of append (any Unicode incl. astral, combining, control characters, quotes, multi-line, blanks), flush (background / at exit), wait, clear, reopen and reads (len, h[i], h[-i], slices, items(), all_items(), inps[i], on-disk decode) under buffer sizes 1-8, every $HISTCONTROL subset, ignore regex, store-stdout and save-cwd are run against the JSON and SQLite backends and a reference list with a sound tolerance for the exclusion rules; len/index consistency is checked at every point including while a flusher is held inside dump(); after flush+wait the disk equals memory. lazyjson: every node of any JSON-able object is addressed through the embedded offsets/sizes index (key, index, slice, iteration, load at every level) and must equal the original. Six recorded defects.",
        note="Trusted: the reference list and the exclusion-rule tolerance (every reading of the rules is accepted); flusher interleavings are chosen by Hypothesis at function boundaries (run/dump entry), not inside dump(); SQLite runs with PRAGMA synchronous=OFF (durability is C13); every operation is under a 10 s bound so a deadlock is a recorded failure.",
        design="2/C12",
    ),
    "C13": dict(
        category="fault_enumeration",
        technique="fault injection with exhaustive crash-point and single-fault enumeration per generated scenario (fork + counting wrappers around file-system entry points; three write-buffering models; strace syscall-level kill injection for JSON and SQLite; temp directory on a second file system)",
        text="For each generated scenario (1-4 JSON history files, locks, stale locks, corrupt member, one rewriting operation: flush, at-exit flush, delete, erasedups, GC start-up unlock, run_gc) the operation's file-system operations are counted in a reference run; then every crash point (os._exit before op k), every partial-write length class and every single failing call (ENOSPC/EIO/EACCES/EMFILE) is executed in a fresh fork and the parent checks that each history file is its complete old or complete new version and loadable. SQLite: the driver is killed by strace at sampled (quick) / all (thorough) write-class syscalls; integrity_check and row survival. Two recorded defects.",
        note="Trusted: the wrapped entry points cover every file-system call of the operation (self-check: every changed file must be explained by a wrapped op, else exit 2); power-loss reordering below rename is not modelled; scenario space is sampled, crash points per scenario are complete.",
        design="2/C13",
    ),
    "C14": dict(
        category="exploration",
        technique="exhaustive small-scope enumeration through the real GC on real directories + Hypothesis-generated collections with symbolic boundary limits, against a model written from the property text; harness-owned clock; live sessions with the real lock protocol (real JsonHistory objects at generated life stages) next to a GC run",
        text="Every collection of <= 3 (quick) / <= 4 (thorough) history files x command counts x lock states x limits x {commands, files} x force runs through the real JsonHistoryGC / `history gc` on a scratch directory; generated collections add byte sizes, ages, corrupt members, all four units and limits placed on every suffix-sum boundary +-1; the deleted set must be an oldest-first prefix of unlocked loadable files, the kept set the largest newest suffix that fits, nothing deleted within the limit, refusal rule per both readings. SQLite: newest N rows kept. Three recorded defects tolerated only in their exact shape.",
        note="Trusted: the model; both readings of 'discard more than it keeps' are accepted in the ambiguous zone; time and boot time are replaced by fixed values inside the worker (self-checked).",
        design="2/C14",
    ),
    "C15": dict(
        category="exploration",
        technique="property-based testing: exhaustive small-scope enumeration + Hypothesis-generated alias tables against a reference expander; real runs of recursive string aliases under a hang bound",
        text="Every alias table over 3 names x 13 body shapes is enumerated completely and larger tables (2-7 names, all alias kinds, cycles) are generated; each resolution through Aliases.get and SubprocSpec.build is compared with a reference expander written from the property text, between two definition orders, and bounded in time. Evidence of absence only within those bounds.",
        note="Trusted: the reference expander (40 lines, from the property text); the 10 s / 20 s SIGALRM bound as the meaning of 'terminates'; string aliases are classified list/exec by xonsh itself.",
        design="2/C15",
    ),
}

PENDING_REASON = "check not built yet in this round (see DESIGN.md section 2 for the planned generator and oracle)"


def main():
    props = [json.loads(l)["id"] for l in open(os.path.join(HERE, "properties.jsonl"))]
    checks = []
    for pid in props:
        c = CHECKS.get(pid)
        if not c:
            continue
        checks.append({
            "property_id": pid,
            "quick_cmd": "/venv/bin/python run.py %s --tier quick" % pid,
            "thorough_cmd": "/venv/bin/python run.py %s --tier thorough" % pid,
            "evidence_file": "/verif/evidence/%s.json" % pid,
            "replay_cmd_template": "/venv/bin/python run.py %s --replay {path}" % pid,
            "engine": "hypothesis-runner",
            "level_claimed": {"category": c["category"], "text": c["text"], "design_ref": c["design"]},
            "level_note": c["note"],
            "technique": c["technique"],
        })
    na = [{"property_id": p, "reason": PENDING_REASON} for p in props if p not in CHECKS]
    man = {
        "version": 1,
        "setup_cmd": "sh /verif/setup.sh",
        "hooks": {
            "guard": "XONSH_XONSH_VERIF",
            "enable": "environment variable XONSH_XONSH_VERIF=1 set by run.py (before xonsh is imported) for the checks that use schedule points (C06 in process; C12 passes it to its real-xonsh child sessions to delay the background flusher); xonsh is imported from /repo's working tree, nothing is built",
            "baseline_off_cmd": "cd /repo && env -u XONSH_XONSH_VERIF /venv/bin/python -m pytest -ra -q -p no:cacheprovider --timeout=900 --continue-on-collection-errors",
            "source_commits": ["eca866d", "17ce52d"],
            "add_only": True,
        },
        "engines": [
            {"name": "hypothesis-runner", "path": "/verif/run.py",
             "serves_properties": sorted(CHECKS),
             "kind_free_text": "Hypothesis 6.168 strategies / rule-based state machines, exhaustive itertools enumeration of small scopes and atheris campaigns, all driven by run.py against xonsh imported from /repo's working tree with LALR tables rebuilt from the current parser sources"},
        ],
        "checks": checks,
        "not_applicable": na,
        "notes": "All checks: exit 0 held / 1 VIOLATION / 2 harness error. VERIF_SEED and VERIF_TIER honoured. Known findings: /verif/known_findings.json.",
    }
    out = os.path.join(HERE, "MANIFEST.json")
    with open(out, "w") as f:
        json.dump(man, f, indent=1)
        f.write("\n")
    try:
        import jsonschema
        schema = json.load(open("/root/.vp/MANIFEST.schema.json"))
        jsonschema.validate(man, schema)
        print("MANIFEST.json valid;", len(checks), "checks,", len(na), "not claimed")
    except ImportError:
        print("jsonschema not available; not validated", file=sys.stderr)


if __name__ == "__main__":
    main()

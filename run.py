#!/venv/bin/python
"""Single entry point:  run.py <Cxx> [--tier quick|thorough] [--seed N] [--replay FILE]

exit 0  property held on everything explored (KNOWN-FINDING lines may be printed)
exit 1  `VIOLATION property=<id> replay=<path>` printed for a violation not listed as known
exit 2  harness error (never a statement about xonsh)
"""

import argparse
import glob
import importlib
import os
import sys
import traceback

HERE = os.path.dirname(os.path.abspath(__file__))
sys.path.insert(0, HERE)

from vlib import common  # noqa: E402


def find_module(prop):
    hits = glob.glob(os.path.join(HERE, "checks", prop.lower() + "_*.py"))
    if len(hits) != 1:
        raise common.HarnessError("no unique check module for %s: %r" % (prop, hits))
    return "checks." + os.path.basename(hits[0])[:-3]


def main(argv=None):
    ap = argparse.ArgumentParser()
    ap.add_argument("prop")
    ap.add_argument("--tier", default=os.environ.get("VERIF_TIER") or "quick", choices=["quick", "thorough"])
    ap.add_argument("--seed", type=int, default=None)
    ap.add_argument("--replay", default=None)
    a = ap.parse_args(argv)
    seed = a.seed
    if seed is None:
        try:
            seed = int(os.environ.get("VERIF_SEED", "1"))
        except ValueError:
            seed = 1
    prop = a.prop.upper()
    os.environ["PYTHONHASHSEED"] = "0"
    run = None
    try:
        modname = find_module(prop)
        mod = importlib.import_module(modname)
        run = common.Run(prop, a.tier, seed, level=getattr(mod, "LEVEL", "exploration"),
                         rule=getattr(mod, "RULE", ""), hooks=getattr(mod, "HOOKS", False))
        if a.replay:
            rc = mod.replay(run, a.replay)
            run.cleanup()
            return rc
        mod.main(run)
        return run.finish()
    except common.HarnessError as e:
        print("HARNESS-ERROR %s: %s" % (prop, e), file=sys.stderr)
        if run is not None:
            run.cleanup()
        return common.EXIT_HARNESS
    except BaseException:
        print("HARNESS-ERROR %s: unexpected\n%s" % (prop, traceback.format_exc()), file=sys.stderr)
        if run is not None:
            run.cleanup()
        return common.EXIT_HARNESS


if __name__ == "__main__":
    if os.environ.get("PYTHONHASHSEED") != "0":
        os.environ["PYTHONHASHSEED"] = "0"
        os.execv(sys.executable, [sys.executable] + sys.argv)
    sys.exit(main())

"""Programs made of string literals in many source spellings (single/double/triple quotes, raw, bytes,
u-prefix, backslash-newline continuation inside a single-quoted literal, real newlines inside triple
quotes, implicit concatenation across lines), placed where strings really occur: assignments,
docstrings, call arguments, defaults, expression statements.  State that the tokenizer carries from
one literal to a later one only shows in such multi-statement texts."""

VALUES = ["", "a", "ab cd", "l1\nl2\nl3\nl4", "doc\n\n  indented\nlast\n", "tab\there", "q'q", 'd"d', "back\\slash", "é中😀", "{x}", "a\nb",
          "line one\nline two\nline three", "#notcomment\n$HOME\n![ls]\n", "  lead\n  trail  \n"]

BS = "\\"


def spelling(rnd, v, nested=False):
    """One source spelling of the str value v (the caller verifies the whole program with CPython)."""
    c = rnd.randrange(10)
    q = "'" if rnd.randrange(2) else '"'
    esc = v.replace(BS, BS + BS).replace("\n", BS + "n").replace("\t", BS + "t").replace(q, BS + q)
    if c == 1 and len(esc) >= 2:
        # backslash-newline continuation inside a single-quoted literal
        h = 1 + rnd.randrange(len(esc) - 1)
        if esc[h - 1] == BS or (h >= 2 and esc[h - 2] == BS):
            return q + esc + q
        return q + esc[:h] + BS + "\n" + esc[h:] + q
    if c in (2, 3):
        # triple-quoted with real newlines
        body = v.replace(BS, BS + BS).replace(q * 3, BS + q * 3)
        if body.endswith(q):
            body = body[:-1] + BS + q
        return q * 3 + body + q * 3
    if c == 4 and BS not in v and q not in v and "\n" not in v:
        return "r" + q + v + q
    if c == 5 and BS not in v and q * 3 not in v and not v.endswith(q):
        return "R" + q * 3 + v + q * 3
    if c == 6 and not nested and v.isascii():
        return "b" + q + esc + q
    if c == 7 and len(v) >= 2 and not nested:
        h = len(v) // 2
        return "(" + spelling(rnd, v[:h], True) + "\n    " + spelling(rnd, v[h:], True) + ")"
    if c == 8:
        return "u" + q + esc + q
    if c == 9 and len(esc) >= 2 and "{" not in esc and "}" not in esc and not nested:
        # an f-string (no replacement field needed) continued with backslash-newline
        h = 1 + rnd.randrange(len(esc) - 1)
        if esc[h - 1] != BS and not (h >= 2 and esc[h - 2] == BS):
            return ("f", "rf", "F")[rnd.randrange(3)] + q + esc[:h] + BS + "\n" + esc[h:] + q
    return q + esc + q


def program(rnd):
    lines = []
    for i in range(2 + rnd.randrange(5)):
        v = VALUES[rnd.randrange(len(VALUES))]
        lit = spelling(rnd, v)
        k = rnd.randrange(6)
        if k == 0:
            lines.append("s%d = %s" % (i, lit))
        elif k == 1:
            lines.append("def f%d():\n    %s\n    return 1" % (i, lit))
        elif k == 2:
            lines.append("class C%d:\n    %s\n    x = %d" % (i, lit, i))
        elif k == 3:
            lines.append("print(%s, end=%s)" % (lit, spelling(rnd, "\n", True)))
        elif k == 4:
            lines.append(lit)
        else:
            lines.append("def g%d(a=%s):\n    pass" % (i, lit))
    return "\n".join(lines) + "\n"

"""C19 - cached bytecode never changes what a script does.

Generator : (a) a Hypothesis state machine over ONE script path (awkward names: upper case, `_`, `.`,
            blanks, `$`, non-ASCII, long components, nested dirs, optionally reached through a symlinked
            directory; extensions .xsh / .py / none) and one scratch $XONSH_DATA_DIR.  The harness owns the
            clock: every write of the source and every (re)written cache entry is os.utime()d from a
            logical counter, so "newer" / "older" are exact without sleeping.  Rules: edit(new body) with a
            strictly newer mtime (bodies print a fresh token, set a global, exit with a code, raise, are
            syntactically invalid, use xonsh-only syntax ($ENV, $(cmd)), nested functions / classes,
            empty / comment-only / no trailing newline / non-ASCII); touch; run the script through
            run_script_with_cache or through XonshImportHook.get_code under switches drawn from
            {$XONSH_CACHE_SCRIPTS, $XONSH_CACHE_EVERYTHING, execer.scriptcache (= --no-script-cache),
            execer.cacheall (= --cache-everything)}; run_code_with_cache(code, mode) for code strings from
            a small pool (so texts recur and near-twins exist: common 60-char prefix, case twins, trailing
            newline / blank twins) in exec / single / eval; corrupt the entry of the script or of a code
            string: truncate (drawn length), foreign header (other xonsh version, other Python version,
            glued / swapped / missing header lines, sibling file for another cache tag) in front of a
            *valid foreign code object that prints a marker*, valid header + marshalled non-code object,
            valid header + random bytes, random bytes, header only, chmod 000, directory in its place.
            (b) complete enumeration: for a fixed list of entries (script bodies x names, code strings x
            modes) EVERY truncation length 0..len is written and run.
            (c) the same machine with the runs done by child processes (`python -m xonsh`-equivalent
            entry: xonsh.main.main() with --no-rc, script file / -c / stdin), sampled.
            (d) get_cache_filename / code_cache_name over generated pairs of confusable paths / texts.
            (e) path identity: the script's *name* can be made to resolve to one of three files - the script
            is a symlink (bin/tool.xsh -> src/t<i>/tool.xsh), a parent directory is one (lnk -> src/t<i>,
            relative or absolute link text), or there is no link and the same relative name is used from
            another working directory.  retarget(to, mtime) re-points the name; the new target's mtime is older
            than every entry / equal to the newest entry's / newer / unchanged (roll-back, roll-forward,
            alternatives).  The name is spelled absolute, relative, or with a `dir/..` detour.  Runs go
            through run_script_with_cache, through XonshImportHook.find_spec + get_code (the link then is the
            sys.path entry) or through environ.xonsh_script_run_control (rc file).  Drawn by the machine, and
            a fixed family (layout x link text x spelling x entry point x mtime x switches) is always run,
            two of them with child processes.
            (f) single-byte damage of a *valid* entry: one byte of the body (or of the header) is xor-ed with
            a mask, valid header kept.  Complete: every offset x every single-bit mask for a fixed list of
            small entries (script / import / rc / code exec / code single); sampled by the machine for all
            other shapes (offsets biased to the scalar fields at the start and the tables at the end).
            marshal.loads of the damaged body is classified in a throw-away child: exceptions of *any* type
            (SystemError, UnicodeDecodeError ... not only EOFError / ValueError / TypeError) and non-code
            objects are 'detectable' and are run; bodies that still load as a code object are counted
            (undetectable-damage) and never written or executed; bodies that crash / exhaust the
            unmarshaller are discarded.
Oracle    : every run's observation (captured stdout, returned exc_info type+message+line, exception raised
            out of the call, resulting namespace; for child processes stdout + exit status) equals the
            observation of compiling and running the *current source* without any cache (compile_code +
            run_compiled_code called directly on the text in a fresh namespace; for child processes a run
            with a fresh empty data dir and every switch off).  Hence: after an edit with a newer mtime the
            new token appears; a foreign / truncated / non-code / unreadable entry is never executed (the
            foreign marker never shows) and never fatal.  After a run with every cache switch on and a
            source that compiles, a corrupted entry (truncated, foreign, garbage, non-code) has been
            replaced by a well-formed one whose code reproduces the reference observation.  Different
            code strings / different real paths never map to the same cache file, and no cache file is an
            ancestor directory of another.  Cache files are located by watching the data dir (new file
            after a cached run; xonsh's own name for a code string is only a first guess), so a repair
            that renames entries stays quiet.
            (g) the source changes DURING a run: body kind 'selfedit' rewrites in place / atomically replaces
            (temporary file + rename) / touches its own source file while it runs, leaving a generated new
            body; the new mtime comes from the harness clock (two ticks are taken before the run: the first
            for an entry written before the edit, the second for the edit).  Whether the entry written in
            that run was written before or after the edit is read off the real clock (entry mtime against
            the source's ctime, which utime cannot set) and the entry is placed on the harness clock
            accordingly.  The uncached reference run edits the file as well; the harness puts it back.
            Through script / rc / import entry points, every layout; drawn by the machine and in a fixed
            family.  Child tier: op 'overlap' - a run that has announced itself waits while the source is
            edited and run a second time to completion, then ends; then a third run.
            (h) the file name of code at every nesting depth: bodies 'deep' (frames of a decorator wrapper,
            a method, a lambda, comprehensions, a closure in a closure, a method of a nested class; a
            recursive walk over the module's own code object; the frames of a handled traceback raised
            three levels down; __code__ of a method) and 'deepraise' (unhandled exception through wrapper /
            method / closure / lambda), op 'respell' (from now on the script is run by another spelling of
            the same path), and the observation of a run now contains file name + line of EVERY frame of
            a returned traceback (child processes: of the traceback printed on stderr).
Known     : C19-F1 valid header + marshalled non-code object is executed / TypeError / None;
            C19-F2 an entry that cannot be opened (EACCES) is fatal; C19-F3 code entries are keyed by the
            text only, so an entry compiled for one mode is executed for another mode;
            C19-F4 a script whose cache file name exceeds NAME_MAX cannot be run with the cache on;
            C19-F5 a cache hit returns code whose co_filename is the spelling of the name under which the
            entry was written, not the one of this run (tracebacks / frames name another path).
            Each has a narrow predicate (classify); while open, exactly that shape is not generated
            (counted in excluded_known) and the replay tier reproduces it.
"""

from __future__ import annotations

import errno
import io
import json
import marshal
import os
import shutil
import stat
import subprocess
import sys
import time as _time
import types

from vlib import common
from vlib.common import Failure, Mismatch, Stats

PROP = "C19"
LEVEL = "exploration"
HOOKS = False
RULE = ("histories of init(path, layout, spelling) / edit(body, newer mtime; incl. bodies that rewrite / replace / "
        "touch their own source while they run and bodies that report the file name of code at every nesting depth) / "
        "touch / retarget(other file behind the same name, its mtime) / respell(other spelling of the same path) / "
        "run(switches, script|import|rc) / overlap(child tier: edit + complete run while an earlier run is still in "
        "progress) / code(text, mode, switches) / corrupt(entry, how "
        "incl. one xor-ed byte of a valid entry) on one script name + one data dir under a harness-owned "
        "clock, drawn by a Hypothesis state machine (in-process and, sampled, with child processes); plus a fixed "
        "family of path-identity, self-edit and spelling histories; plus every truncation length 0..len and every "
        "offset x single-bit mask "
        "of a fixed list of entries (complete); plus pairs of confusable "
        "paths / code strings for the cache-name functions. non-trivial = the history contains a run with "
        "the cache consulted while an entry exists that is stale (edit or touch after it was written) or "
        "corrupted, or right after the name was re-pointed to a file that is not newer than an existing entry, or "
        "right after a run during which the source changed / "
        "for a truncation case: length < len / for a byte-damage case: the unmarshaller rejects the damaged body or "
        "returns a non-code object (so it was written and run) / for a pair: distinct members that both contain "
        "an escaped character or share a 16-char prefix; distinct = hash of the operation list / (entry, "
        "length) / (entry, offset, mask) / pair")

F1, F2, F3, F4, F5 = "C19-F1", "C19-F2", "C19-F3", "C19-F4", "C19-F5"
BASE_TIME = 1_600_000_000           # logical clock origin (well before the real clock)
FOREIGN_MARK = "FOREIGN-ENTRY-EXECUTED"
EVIL_MARK = "EVIL-STRING-EXECUTED"
CACHE_TAG = sys.implementation.cache_tag
NAME_MAX = 255

ALL_ON = [1, 1, 1, 1]               # env_scripts, env_everything, execer.scriptcache, execer.cacheall
DEFAULTS = [1, 0, 1, 0]
ALL_OFF = [0, 0, 0, 0]

# ----------------------------------------------------------------------------------------
# generated material: bodies, names

SCRIPT_KINDS = ["print", "set", "both", "exit", "raise", "name", "invalid", "invalid2", "func", "klass",
                "env", "sub", "fstr", "empty", "comment", "nonl", "unicode", "where", "big"]
PY_SAFE_KINDS = [k for k in SCRIPT_KINDS if k not in ("env", "sub")]
CODE_KINDS = ["print", "expr", "set", "raise", "invalid", "env", "exit", "nonl", "multi", "prefixed", "blank"]
CODE_TOKS = ["c0", "c1", "C0"]
MODES = ["exec", "single", "eval"]
LONG_PREFIX = "# " + "verif-common-prefix-" * 3 + "\n"


def render_body(kind, tok):
    """Source text of a script body.  `tok` is unique per edit, so two edits never write the same text."""
    if kind == "print":
        return "print('%s')\n" % tok
    if kind == "set":
        return "v_tok = '%s'\n" % tok
    if kind == "both":
        return "v_tok = '%s'\nprint(v_tok)\n" % tok
    if kind == "exit":
        return "print('%s')\nraise SystemExit(%d)\nprint('not reached')\n" % (tok, 2 + len(tok) % 5)
    if kind == "raise":
        return "print('%s')\n\nraise ValueError('%s')\n" % (tok, tok)
    if kind == "name":
        return "print('%s')\nundefined_%s\n" % (tok, tok.lower())
    if kind == "invalid":
        return "print('%s'\nprint(\n" % tok
    if kind == "invalid2":
        return "v_tok = '%s'\ndef (:\n    pass\n" % tok
    if kind == "func":
        return ("def f_(a, *, b='%s'):\n    def g_():\n        return [a + b for _ in range(2)]\n    return g_()\n"
                "v_tok = f_('x')\nprint(v_tok)\n" % tok)
    if kind == "klass":
        return ("class C_:\n    tok = '%s'\n    def m(self):\n        return lambda: self.tok\n"
                "v_tok = C_().m()()\nprint(v_tok, {k: v for k, v in [(1, 2)]}, (lambda *a, **k: (a, k))(1, z=2))\n" % tok)
    if kind == "env":
        return "$V_TOK = '%s'\nprint($V_TOK)\nv_tok = ${'V_' + 'TOK'}\n" % tok
    if kind == "sub":
        return "v_tok = $(echo %s).strip()\nprint('got', v_tok)\n" % tok
    if kind == "fstr":
        return "v_tok = f\"{'%s'!r:>12}|{3 * 7:03d}\"\nprint(v_tok)\n" % tok
    if kind == "empty":
        return ""
    if kind == "comment":
        return "# %s" % tok
    if kind == "nonl":
        return "print('%s')" % tok
    if kind == "unicode":
        return "v_tok = '%s é✓中'\nprint(v_tok)\n" % tok
    if kind == "where":
        return ("import sys\nfr_ = sys._getframe()\nprint('%s', fr_.f_code.co_filename == __file__, fr_.f_lineno)\n"
                "del fr_, sys\n" % tok)
    if kind == "big":
        return "".join("w_%d = ('%s', %d, %r)\n" % (i, tok, i * 7919, "x" * (i % 9)) for i in range(48)) + \
            "print(w_47)\n"
    if kind == "deep":
        return DEEP_BODY.replace("TOK", tok)
    if kind == "deepraise":
        return DEEPRAISE_BODY.replace("TOK", tok)
    if kind == "wait":
        return WAIT_BODY.replace("TOK", tok)
    raise common.HarnessError("unknown body kind %r" % (kind,))


# The file name a code object carries is observable at every nesting depth: frames of methods, closures,
# lambdas, decorator wrappers, (inlined or not) comprehensions; a walk over the module's own code object; the
# frames of a traceback raised three levels down.  Uncached, every one of them is the name the script was run by.
DEEP_BODY = """import sys as s_
def rep_():
    return s_._getframe(1).f_code.co_filename == __file__
def wrap_(f):
    def inner_(*a):
        return [rep_()] + f(*a)
    return inner_
class D_:
    class N_:
        def mm(self):
            return [rep_()] + [x for x in (lambda: [rep_()])()]
    @wrap_
    def m(self, k):
        g = lambda: [rep_()] + [rep_() for _ in range(k)] + list(rep_() for _ in range(k))
        def n_():
            def nn_():
                return [rep_()] + D_.N_().mm()
            return [rep_()] + nn_()
        return [rep_()] + g() + n_()
def walk_(c):
    return [c.co_filename == __file__] + [b for k in c.co_consts if hasattr(k, 'co_consts') for b in walk_(k)]
def boom_():
    def in_():
        raise KeyError('TOK')
    return (lambda: in_())()
v_tok = 'TOK'
print(v_tok, rep_(), D_().m(1))
print(walk_(s_._getframe().f_code))
try:
    boom_()
except KeyError as e_:
    tb_, fr_ = e_.__traceback__, []
    while tb_ is not None:
        fr_.append((tb_.tb_frame.f_code.co_filename == __file__, tb_.tb_lineno))
        tb_ = tb_.tb_next
    print(fr_)
    del tb_, fr_
print(D_.m.__code__.co_filename == __file__, [k.co_filename == __file__ for k in boom_.__code__.co_consts if hasattr(k, 'co_consts')])
"""
DEEPRAISE_BODY = """print('TOK')
def deco_(f):
    def w_(*a):
        return f(*a)
    return w_
class E_:
    @deco_
    def m(self):
        def n_():
            return (lambda: undefined_deep_name + 'TOK')()
        return n_()
E_().m()
print('not reached')
"""
# a script that is still running while something else happens (child tier): announces itself, then waits
WAIT_BODY = """import os as o_, time as t_
print('TOK start')
open(o_.environ['VERIF_FLAG'], 'w').close()
while not o_.path.exists(o_.environ['VERIF_GO']):
    t_.sleep(0.01)
print('TOK end')
"""
DEEP_KINDS = ("deep", "deepraise", "where", "klass", "func")
SELFEDIT_NEW_KINDS = ["print", "both", "func", "raise", "exit", "deep", "unicode", "nonl"]


def render_selfedit(tok, newtext, how):
    """A script that changes its own source file while it runs: rewrite in place / atomic replace (temporary file +
    rename) / touch only.  The new mtime comes from the harness clock ($VERIF_T); the pause afterwards keeps anything
    written *after* the run apart from the edit on a file system with coarse time stamps."""
    head = "import os as o_, time as t_\nprint('%s')\np_ = o_.path.realpath(__file__)\n" % tok
    if how == "rewrite":
        mid = "with open(p_, 'w', encoding='utf-8') as f_:\n    f_.write(%r)\ndel f_\n" % newtext
    elif how == "replace":
        mid = ("with open(p_ + '.new', 'w', encoding='utf-8') as f_:\n    f_.write(%r)\ndel f_\n"
               "o_.replace(p_ + '.new', p_)\n" % newtext)
    elif how == "touch":
        mid = ""
    else:
        raise common.HarnessError("unknown self-edit %r" % (how,))
    return head + mid + ("o_.utime(p_, (int(o_.environ['VERIF_T']),) * 2)\nt_.sleep(float(o_.environ.get('VERIF_PAUSE') or 0))\n"
                         "del o_, t_, p_\n")


def body_shows_token(kind):
    return kind not in ("empty", "comment", "invalid", "invalid2")


def render_code(kind, tok):
    """Code strings for run_code_with_cache; a small pool, so the same text recurs (cache hits) and
    near-twins exist."""
    if kind == "print":
        return "print('%s')\n" % tok
    if kind == "expr":
        return "'%s' * 2\n" % tok           # single mode displays it, exec mode does not
    if kind == "set":
        return "v_code = '%s'\n" % tok
    if kind == "raise":
        return "raise KeyError('%s')\n" % tok
    if kind == "invalid":
        return "print('%s'\n" % tok
    if kind == "env":
        return "$V_CODE = '%s'; print($V_CODE)\n" % tok
    if kind == "exit":
        return "print('%s'); raise SystemExit(3)\n" % tok
    if kind == "nonl":
        return "print('%s')" % tok         # twin of "print" without the newline
    if kind == "multi":
        return "v_code = '%s'\nprint(v_code)\nv_code + '!'\n" % tok
    if kind == "prefixed":
        return LONG_PREFIX + "print('%s')\n" % tok   # texts sharing a long prefix
    if kind == "blank":
        return "print('%s') \n" % tok      # twin of "print" with a blank before the newline
    raise common.HarnessError("unknown code kind %r" % (kind,))


NAME_CHARS = "abzABZ09__..  -$%+=,~@éÉ"
FIXED_NAMES = ["script.xsh", "My_Script.V2.xsh", "A", "_a", "a.b", "a_.b", "UPPER CASE.XSH", "x__y.xsh", "__", "_.x",
               "run.py", "Tool.PY.xsh", ".hidden.xsh", "x.xsh.%s" % CACHE_TAG, "trailing_", "A_", "a b .xsh",
               "$HOME.xsh", "~user.xsh", "Été.xsh", "Z" * 60 + ".xsh", "q" * 200 + ".xsh"]
LONG_NAMES = ["L" * 122 + ".xsh", "m" * 244 + ".xsh", "N_." * 41 + "x", "k" * 250]


def mapped_len(name):
    """Length of the cache-file component xonsh derives from a script's base name (docstring of
    get_cache_filename: Mercurial-style escaping; upper case, `_` and `.` take two characters)."""
    n = 0
    for ch in name:
        n += 2 if ("A" <= ch <= "Z" or ch in "._") else len(ch.encode("utf-8"))
    return n + 1 + len(CACHE_TAG)


def name_too_long(name):
    return mapped_len(name) > NAME_MAX


def valid_component(c):
    return bool(c) and c not in (".", "..") and "/" not in c and "\0" not in c and len(c.encode("utf-8")) <= NAME_MAX


# ----------------------------------------------------------------------------------------
# marshal safety: never hand the unmarshaller a body that could allocate gigabytes


def risky_body(b):
    for i, ch in enumerate(b):
        if (ch & 0x7F) in b"([<>":
            n = int.from_bytes(bytes(b[i + 1:i + 5]).ljust(4, b"\0"), "little")
            if n > 4096:
                return True
    return False


def sanitize(b):
    """Random bodies never contain the four container type codes that carry a 32-bit size."""
    return bytes(0x29 if (ch & 0x7F) in b"([<>" else ch for ch in b)


def classify_body(b, trusted=False):
    """'risky' | 'unloadable' | 'noncode' | 'code' for the bytes that follow a header."""
    if not trusted and risky_body(b):
        return "risky"
    try:
        o = marshal.loads(bytes(b))
    except Exception:  # noqa: BLE001
        return "unloadable"
    return "code" if isinstance(o, types.CodeType) else "noncode"


# -- byte-level damage of a *valid* entry --------------------------------------------------------
# What CPython's unmarshaller makes of a damaged body is decided in a throw-away child process with a
# small address space: some damaged bodies make marshal.loads itself die with SIGSEGV or ask for
# gigabytes (CPython's problem, not something xonsh can defend against), and a body that still loads
# as a code object must never be *executed* inside the worker.

CLASSIFIER_SRC = r'''
import sys, marshal, resource, types
resource.setrlimit(resource.RLIMIT_AS, (256 << 20, 256 << 20))
resource.setrlimit(resource.RLIMIT_CORE, (0, 0))
i, o = sys.stdin.buffer, sys.stdout.buffer
while True:
    h = i.read(4)
    if len(h) < 4:
        break
    b = i.read(int.from_bytes(h, 'little'))
    try:
        x = marshal.loads(b)
        r = 'code' if isinstance(x, types.CodeType) else 'noncode:' + type(x).__name__
        del x
    except BaseException as e:
        r = 'exc:' + type(e).__name__
    o.write(r.encode() + b'\n')
    o.flush()
'''
_clf = {}


def _clf_start():
    _clf["p"] = subprocess.Popen([sys.executable, "-S", "-E", "-c", CLASSIFIER_SRC], stdin=subprocess.PIPE,
                                 stdout=subprocess.PIPE, stderr=subprocess.DEVNULL)


def _clf_stop():
    p = _clf.pop("p", None)
    if p is not None:
        try:
            p.kill()
        except OSError:
            pass
        p.wait()


def classify_remote(body):
    """What `marshal.loads(body)` does in this Python: 'code' | 'noncode:<type>' | 'exc:<ExceptionType>' |
    'crash' (the unmarshaller died from a signal) | 'hang'."""
    import select

    key = bytes(body)
    memo = _clf.setdefault("memo", {})
    if key in memo:
        return memo[key]
    if "p" not in _clf or _clf["p"].poll() is not None:
        _clf_start()
    p = _clf["p"]
    r = b""
    try:
        p.stdin.write(len(key).to_bytes(4, "little") + key)
        p.stdin.flush()
        if select.select([p.stdout], [], [], 20)[0]:
            r = p.stdout.readline()
        else:
            _clf_stop()
            r = b"hang\n"
    except (BrokenPipeError, OSError):
        r = b""
    if not r:
        _clf_stop()
        r = b"crash\n"
    out = r.decode("ascii", "replace").strip()
    if len(memo) > 20000:
        memo.clear()
    memo[key] = out
    return out


def flip_detectable(cls):
    """Damage the loader can in principle notice: the body does not unmarshal (an exception of any type
    except MemoryError, which a loader may legitimately let through and which would also cost the worker
    its memory) or unmarshals to something that is not a code object."""
    return cls.startswith("noncode:") or (cls.startswith("exc:") and cls != "exc:MemoryError")


def signed_offset(body, idx, filename):
    """Address a body byte so that the address survives a different scratch directory: the script's path
    is embedded once in the marshalled code; bytes after it are addressed from the end (negative)."""
    try:
        fb = filename.encode("utf-8")
    except UnicodeError:
        return idx
    pos = body.find(fb)
    if pos >= 0 and idx >= pos + len(fb):
        return idx - len(body)
    return idx


NONCODE_OBJS = {
    "str": "print('%s')" % EVIL_MARK,
    "bytes": ("print('%s')" % EVIL_MARK).encode(),
    "int": 123,
    "none": None,
    "tuple": (1, "two"),
    "dict": {"a": 1},
    "true": True,
}


def expected_header():
    import xonsh

    return xonsh.__version__.encode() + b"\n" + ".".join(map(str, sys.version_info)).encode() + b"\n"


def foreign_code_bytes():
    src = "print('%s')\nforeign_executed = 1\n" % FOREIGN_MARK
    return marshal.dumps(compile(src, "<foreign>", "exec"))


HEADER_VARIANTS = ["xver-other", "xver-longer", "xver-shorter", "xver-empty", "pyver-minor", "pyver-micro",
                   "pyver-level", "pyver-empty", "glued-space", "glued", "no-second-newline", "swapped",
                   "extra-line", "sibling-tag", "header-only", "first-line-only"]


def corrupt_bytes(how, arg, current):
    """File content for a corruption (None = no file content; handled by the caller)."""
    import xonsh

    xv = xonsh.__version__.encode()
    pv = ".".join(map(str, sys.version_info)).encode()
    hdr = xv + b"\n" + pv + b"\n"
    foreign = foreign_code_bytes()
    if how == "trunc":
        return current[: min(len(current), arg)]
    if how == "noncode":
        return hdr + marshal.dumps(NONCODE_OBJS[arg])
    if how == "random":
        return hdr + bytes.fromhex(arg)
    if how == "garbage":
        return bytes.fromhex(arg)
    if how == "header":
        vi = sys.version_info
        table = {
            "xver-other": b"0.0.1\n" + pv + b"\n",
            "xver-longer": xv + b"0\n" + pv + b"\n",
            "xver-shorter": xv[:-1] + b"\n" + pv + b"\n",
            "xver-empty": b"\n" + pv + b"\n",
            "pyver-minor": xv + b"\n" + ("%d.%d.%d.%s.%d" % (vi[0], vi[1] - 1, vi[2], vi[3], vi[4])).encode() + b"\n",
            "pyver-micro": xv + b"\n" + ("%d.%d.%d.%s.%d" % (vi[0], vi[1], vi[2] + 1, vi[3], vi[4])).encode() + b"\n",
            "pyver-level": xv + b"\n" + ("%d.%d.%d.%s.%d" % (vi[0], vi[1], vi[2], "beta", 1)).encode() + b"\n",
            "pyver-empty": xv + b"\n\n",
            "glued-space": xv + b" " + pv + b"\n",
            "glued": xv + pv + b"\n",
            "no-second-newline": xv + b"\n" + pv,
            "swapped": pv + b"\n" + xv + b"\n",
            "extra-line": b"#\n" + hdr,
            "sibling-tag": hdr,
        }
        if arg == "header-only":
            return hdr
        if arg == "first-line-only":
            return xv + b"\n"
        return table[arg] + foreign
    raise common.HarnessError("corrupt_bytes: %r" % (how,))


# ----------------------------------------------------------------------------------------
# system under test: one session per worker process

_state = {}


def _drop_dac():
    """Make EACCES real although the sandbox runs as root: drop CAP_DAC_OVERRIDE / CAP_DAC_READ_SEARCH
    from this process (uid stays 0; our own files stay accessible through the owner bits)."""
    if os.geteuid() != 0:
        return
    try:
        import ctypes

        class Hdr(ctypes.Structure):
            _fields_ = [("version", ctypes.c_uint32), ("pid", ctypes.c_int)]

        class Data(ctypes.Structure):
            _fields_ = [("effective", ctypes.c_uint32), ("permitted", ctypes.c_uint32),
                        ("inheritable", ctypes.c_uint32)]

        libc = ctypes.CDLL(None, use_errno=True)
        hdr = Hdr(0x20080522, 0)
        data = (Data * 2)()
        if libc.capget(ctypes.byref(hdr), data) != 0:
            return
        mask = ~((1 << 1) | (1 << 2)) & 0xFFFFFFFF
        data[0].effective &= mask
        data[0].permitted &= mask
        data[0].inheritable &= mask
        libc.capset(ctypes.byref(hdr), data)
    except Exception:  # noqa: BLE001
        return


def _perm_enforced(scratch):
    p = os.path.join(scratch, "perm-probe")
    with open(p, "w") as f:
        f.write("x")
    os.chmod(p, 0)
    try:
        with open(p, "rb"):
            ok = False
    except OSError:
        ok = True
    os.chmod(p, 0o600)
    os.remove(p)
    return ok


def _echo_alias(args, stdin=None):
    return " ".join(args) + "\n"


def _setup(scratch, tabledir=None):
    if _state:
        return _state
    _state["tabledir"] = tabledir
    from vlib import session

    os.makedirs(scratch, exist_ok=True)
    _drop_dac()
    XSH = session.load_session(scratch)
    from xonsh import codecache

    XSH.aliases["echo"] = _echo_alias
    _state["XSH"] = XSH
    _state["ex"] = session.get_execer()
    _state["cc"] = codecache
    _state["scratch"] = scratch
    _state["perm"] = _perm_enforced(scratch)
    _state["seq"] = 0
    _state["header"] = expected_header()
    _state["base_data_dir"] = XSH.env["XONSH_DATA_DIR"]
    return _state


def use_cache_formula(sw, mode):
    """What should_use_cache documents ("caching has been enabled for this mode through command line flags
    or environment variables").  Used for labels / non-triviality and to know when an entry can have been
    consulted - never for a verdict on its own."""
    es, ea, xs, xa = sw
    if mode == "exec":
        return bool((xs or xa) and (es or ea))
    return bool(xa or ea)


def _simple(v):
    if isinstance(v, (str, int, float, bool, bytes, type(None))):
        return repr(v)
    if isinstance(v, (tuple, list)) and all(isinstance(x, (str, int, float, bool, bytes, type(None), tuple)) for x in v):
        return repr(v)
    return "<%s>" % type(v).__name__


def _ns_view(glb):
    return {k: _simple(v) for k, v in sorted(glb.items()) if k != "__builtins__"}


def _exc_view(tp, val, tb):
    if tp is None:
        return None
    where = None
    last = None
    frames = []
    while tb is not None:
        last = tb
        # every frame of the traceback names a file: uncached, the script's frames name the path it was run by
        frames.append([tb.tb_frame.f_code.co_filename, tb.tb_lineno, tb.tb_frame.f_code.co_name])
        tb = tb.tb_next
    if last is not None:
        where = [os.path.basename(last.tb_frame.f_code.co_filename), last.tb_lineno]
    if tp is SystemExit:
        msg = repr(getattr(val, "code", None))
    elif issubclass(tp, SyntaxError):
        msg = "%s line %s" % (getattr(val, "msg", ""), getattr(val, "lineno", None))
        where = None
    else:
        msg = str(val)
    if issubclass(tp, SyntaxError):
        frames = []
    return {"type": tp.__name__, "msg": msg[:300], "where": where, "frames": frames[-12:]}


def observe(fn, glb):
    """Call fn() (which returns an exc_info triple or raises) with stdout/stderr captured."""
    out, err = io.StringIO(), io.StringIO()
    old = sys.stdout, sys.stderr, sys.displayhook
    sys.stdout, sys.stderr = out, err
    sys.displayhook = sys.__displayhook__
    obs = {}
    try:
        try:
            r = fn()
            if r is None:
                obs["returned"] = "None instead of an exc_info triple"
            else:
                obs["returned"] = _exc_view(*r)
        except BaseException as e:  # noqa: BLE001
            if isinstance(e, KeyboardInterrupt):
                raise
            obs["raised"] = _exc_view(type(e), e, None)
    finally:
        sys.stdout, sys.stderr, sys.displayhook = old
        import builtins

        if hasattr(builtins, "_"):
            try:
                del builtins._
            except AttributeError:
                pass
    obs["stdout"] = out.getvalue()
    obs["ns"] = _ns_view(glb)
    obs["_stderr"] = err.getvalue()[-400:]
    return obs


def same_obs(a, b):
    return all(a.get(k) == b.get(k) for k in ("returned", "raised", "stdout", "ns", "rc", "loaded", "frames"))


def rc_view(ref):
    """What xonsh_script_run_control (environ.py) makes of a run that behaves like `ref`: errors of the file
    (including SyntaxError from compiling it) are printed, not raised, and reported as loaded=False;
    __file__ / __name__ are only in the context while the file runs."""
    import builtins

    out = dict(ref)
    raised = ref.get("raised")
    if raised is not None:
        tp = getattr(builtins, raised["type"], None)
        if isinstance(tp, type) and issubclass(tp, SyntaxError):
            out.pop("raised")
            out["returned"] = None
            out["loaded"] = False
    else:
        out["loaded"] = ref.get("returned") is None
        out["returned"] = None
    out["ns"] = {k: v for k, v in (ref.get("ns") or {}).items() if k not in ("__file__", "__name__")}
    return out


def obs_diff(a, b):
    out = []
    for k in ("raised", "returned", "stdout", "rc", "loaded", "frames", "ns"):
        if a.get(k) != b.get(k):
            out.append("%s: got %r, uncached reference %r" % (k, a.get(k), b.get(k)))
    return "; ".join(out)


def set_switches(sw):
    XSH, ex = _state["XSH"], _state["ex"]
    XSH.env["XONSH_CACHE_SCRIPTS"] = bool(sw[0])
    XSH.env["XONSH_CACHE_EVERYTHING"] = bool(sw[1])
    ex.scriptcache = bool(sw[2])
    ex.cacheall = bool(sw[3])


def reset_switches():
    set_switches(DEFAULTS)


def ref_observe(text, filename, mode, glb):
    """The uncached reference: compile the *text* and run it, never looking at any cache."""
    cc, ex = _state["cc"], _state["ex"]

    def fn():
        code = cc.compile_code(filename, text, ex, glb, glb, mode)
        return cc.run_compiled_code(code, glb, None, mode)

    return observe(fn, glb)


# ----------------------------------------------------------------------------------------
# child processes

CHILD_SHIM = ("import sys; sys.path.insert(0, %r); from vlib import tables; tables.install(); "
              "from xonsh.main import main; main()")
# the same, with the two table modules taken from byte-compiled copies the parent made once per run
# (compiling the 1.2 MB table source costs 0.5 s per child otherwise)
FAST_SHIM = ("import sys, marshal, types, xonsh\n"
             "for mod, f in (('xonsh.parser_table', 'vp_table'), ('xonsh.completion_parser_table', 'vc_table')):\n"
             "    m = types.ModuleType(mod)\n"
             "    with open(%r + '/' + f + '.bin', 'rb') as fh:\n"
             "        exec(marshal.load(fh), m.__dict__)\n"
             "    sys.modules[mod] = m\n"
             "from xonsh.main import main\nmain()\n")


def prepare_tables(scratch):
    """Byte-compile the LALR tables of the working tree into the run's scratch dir."""
    from vlib import tables

    src = tables.install()
    d = os.path.join(scratch, "tables")
    os.makedirs(d, exist_ok=True)
    for f in ("vp_table", "vc_table"):
        path = os.path.join(src, f + ".py")
        with open(path, "rb") as fh:
            code = compile(fh.read(), path, "exec")
        with open(os.path.join(d, f + ".bin"), "wb") as fh:
            marshal.dump(code, fh)
    return d


def child_env(data_dir, sw_env):
    e = dict(os.environ)
    e["PYTHONPATH"] = common.REPO
    e["VERIF_REPO"] = common.REPO
    e["XONSH_DATA_DIR"] = data_dir
    e["PATH"] = "/usr/bin:/bin"
    e["XONSH_SHOW_TRACEBACK"] = "1"      # the traceback's file names are part of what a run shows
    e.pop("XONSH_CACHE_SCRIPTS", None)
    e.pop("XONSH_CACHE_EVERYTHING", None)
    for k, v in sw_env.items():
        if v is not None:
            e[k] = v
    return e


def child_cmd(args):
    shim = FAST_SHIM % _state["tabledir"] if _state.get("tabledir") else CHILD_SHIM % common.VERIF
    return [sys.executable, "-c", shim, "--no-rc"] + list(args)


def child_obs(returncode, out, err):
    import re

    if returncode == -9:
        raise common.HarnessError("a child xonsh process was killed with SIGKILL from outside (out of memory?)")
    err = err.decode("utf-8", "replace")
    # the files named by the traceback(s) the child printed, xonsh's own frames left out
    frames = [[f, int(n)] for f, n in re.findall(r'File "([^"\n]+)", line (\d+)', err)
              if not os.path.abspath(f).startswith(common.REPO + os.sep) and "/lib/python" not in f]
    return {"stdout": out.decode("utf-8", "replace"), "rc": returncode, "frames": frames[-12:], "_stderr": err[-3000:]}


def run_child(args, data_dir, sw_env, cwd, stdin_text=None):
    os.makedirs(data_dir, exist_ok=True)
    try:
        r = subprocess.run(child_cmd(args), env=child_env(data_dir, sw_env), cwd=cwd, capture_output=True, timeout=120,
                           input=(stdin_text.encode() if stdin_text is not None else None),
                           stdin=(subprocess.DEVNULL if stdin_text is None else None))
    except subprocess.TimeoutExpired:
        raise common.HarnessError("a child xonsh process did not finish within 120 s: %r" % (args,))
    return child_obs(r.returncode, r.stdout, r.stderr)


def run_child_limited(args, data_dir, sw_env, cwd, outdir):
    """A child xonsh that may execute *damaged bytecode* (an entry that still loads as a code object): bounded CPU,
    address space and output, no core file.  -> ('exit', rc, stdout) | ('signal', n, stdout) | ('timeout', None, '')"""
    import resource
    import signal

    def limits():
        resource.setrlimit(resource.RLIMIT_CPU, (8, 8))
        resource.setrlimit(resource.RLIMIT_AS, (2 << 30, 2 << 30))
        resource.setrlimit(resource.RLIMIT_FSIZE, (8 << 20, 8 << 20))
        resource.setrlimit(resource.RLIMIT_CORE, (0, 0))

    os.makedirs(outdir, exist_ok=True)
    shim = FAST_SHIM % _state["tabledir"] if _state.get("tabledir") else CHILD_SHIM % common.VERIF
    cmd = [sys.executable, "-c", shim, "--no-rc"] + list(args)
    with open(os.path.join(outdir, "out"), "wb") as fo, open(os.path.join(outdir, "err"), "wb") as fe:
        p = subprocess.Popen(cmd, env=child_env(data_dir, sw_env), cwd=cwd, stdin=subprocess.DEVNULL, stdout=fo, stderr=fe,
                             preexec_fn=limits, start_new_session=True)
        try:
            rc = p.wait(timeout=90)
        except subprocess.TimeoutExpired:
            try:
                os.killpg(p.pid, signal.SIGKILL)
            except OSError:
                pass
            p.wait()
            return "timeout", None, ""
    with open(os.path.join(outdir, "out"), "rb") as f:
        out = f.read(1 << 20).decode("utf-8", "replace")
    return ("signal", -rc, out) if rc < 0 else ("exit", rc, out)


# ----------------------------------------------------------------------------------------
# one history = one script, one data dir, one logical clock

REBUILDABLE = ("trunc", "header", "noncode", "random", "garbage", "flip", "hflip")


class History:
    def __init__(self, open_ids=(), backend="inproc"):
        self.open = set(open_ids)
        self.backend = backend
        self.ops = []
        self.labels = []
        self.nontrivial = False
        self.excluded = {}
        self.root = None
        self.clock = BASE_TIME
        self.edits = 0
        self.script = None
        # the next seven describe the *current target* (the file the script's name resolves to now);
        # op_retarget parks them in self.alts[self.cur] and loads the other target's
        self.script_text = None
        self.script_kind = None
        self.script_tok = None
        self.last_change = "edit"
        self.entry_path = None          # script cache entry (found by scanning the data dir)
        self.entry_stamp = None         # st_mtime_ns we gave it last
        self.entry_corrupt = None       # (how, arg, bytes, False[, class]) while our corruption is still in place
        self.entry_fn = None            # the spelling of the script's name under which the entry was written
        self.layout = None              # None | top | file | dir | cwd   (how the name reaches the file)
        self.spell = "abs"              # abs | rel | dotdot              (how the name is spelled)
        self.alts = []                  # parked per-target state
        self.altdirs = []
        self.cur = 0
        self.link = None                # the symlink that op_retarget re-points (file / dir layouts)
        self.last_entry_time = None     # logical mtime of the script entry stamped most recently (any target)
        self.after_retarget = None      # (mtime choice, target had been run before) until the next run
        self.flip_class = None          # class of the most recent byte flip (for the enumeration's labels)
        self.pending = None             # (how, new text, new kind, new token): what the current body does to its own file
        self.after_selfedit = False     # the source was changed by the run before this one, while it ran
        self.code_of = {}               # (text, mode) -> cache file, once learned
        self.files = {}                 # cache file -> dict(text, file, stamp, corrupt, written_mode)
        self.guesses = {}               # file name xonsh's functions give -> text
        self.refs = {}
        self.nref = 0

    # -- plumbing ---------------------------------------------------------------------------
    def close(self):
        reset_switches()
        try:
            _state["XSH"].env["XONSH_DATA_DIR"] = _state["base_data_dir"]
        except Exception:  # noqa: BLE001
            pass
        if self.root:
            for dp, dn, fn in os.walk(self.root):
                for f in fn:
                    p = os.path.join(dp, f)
                    try:
                        if not os.path.islink(p) and not os.access(p, os.R_OK):
                            os.chmod(p, 0o600)
                    except OSError:
                        pass
            shutil.rmtree(self.root, ignore_errors=True)
            self.root = None

    def tick(self):
        self.clock += 1
        return self.clock

    def bad(self, kind, detail, finding=None, bucket=None):
        raise Mismatch(Failure(kind, {"ops": list(self.ops), "backend": self.backend}, detail,
                               finding=finding, bucket=bucket or kind))

    def lab(self, s):
        self.labels.append(s)

    def exclude(self, fid):
        self.excluded[fid] = self.excluded.get(fid, 0) + 1
        self.ops.pop()          # the operation was not executed: keep the recorded history exact

    # -- operations -------------------------------------------------------------------------
    def step(self, op):
        self.ops.append(op)
        name = op["op"]
        if name == "init":
            return self.op_init(op)
        if self.root is None:
            raise common.HarnessError("history does not start with init: %r" % (self.ops,))
        if name == "edit":
            return self.op_edit(op)
        if name == "touch":
            return self.op_touch(op)
        if name == "run":
            return self.op_run(op)
        if name == "code":
            return self.op_code(op)
        if name == "corrupt":
            return self.op_corrupt(op)
        if name == "retarget":
            return self.op_retarget(op)
        if name == "respell":
            return self.op_respell(op)
        if name == "overlap":
            return self.op_overlap(op)
        raise common.HarnessError("unknown op %r" % (op,))

    def op_init(self, op):
        st = _state
        st["seq"] += 1
        comps = list(op["path"])
        if not comps or not all(valid_component(c) for c in comps):
            raise common.HarnessError("generator produced an invalid path %r" % (comps,))
        if name_too_long(comps[-1]) and F4 in self.open:
            self.excluded[F4] = self.excluded.get(F4, 0) + 1
            comps[-1] = "short_%d.xsh" % len(comps[-1])
            op["path"] = comps
        self.root = os.path.join(st["scratch"], "m%d-%d" % (os.getpid(), st["seq"]))
        shutil.rmtree(self.root, ignore_errors=True)
        self.data = os.path.join(self.root, "data")
        real = os.path.join(self.root, "src")
        layout = op.get("layout") or ("top" if op.get("link") else None)
        if layout not in (None, "top", "file", "dir", "cwd"):
            raise common.HarnessError("unknown layout %r" % (layout,))
        # layouts with several targets: the same name can be made to resolve to t0 / t1 / t2
        #   file  bin/<name> is a symlink to src/t<i>/<path>           (alternatives-style link)
        #   dir   lnk is a symlink to src/t<i>, the script is lnk/<path> (release directory: current -> v<i>)
        #   cwd   no link: the script is named relative to the working directory src/t<i>
        #   top   lnk is a symlink to src and never moves;  None: no link at all
        self.layout, self.comps = layout, comps
        self.rellink = bool(op.get("rellink"))
        self.altdirs = [os.path.join(real, "t%d" % i) for i in range(3)] if layout in ("file", "dir", "cwd") else [real]
        for d in self.altdirs:
            os.makedirs(os.path.join(d, *comps[:-1]))
        os.makedirs(self.data)
        self.alts = [None] * len(self.altdirs)
        self.cur = 0
        first = os.path.join(self.altdirs[0], *comps)
        if layout in ("top", "dir"):
            self.link = os.path.join(self.root, "lnk")
            self.point(self.link, real if layout == "top" else self.altdirs[0])
            self.script = os.path.join(self.link, *comps)
        elif layout == "file":
            os.makedirs(os.path.join(self.root, "bin"))
            self.link = os.path.join(self.root, "bin", comps[-1])
            self.point(self.link, first)
            self.script = self.link
        else:
            self.script = first
        spell = op.get("spell") or ("rel" if op.get("rel") and self.backend == "proc" else "abs")
        if spell not in ("abs", "rel", "dotdot"):
            raise common.HarnessError("unknown spelling %r" % (spell,))
        if layout == "cwd" and spell == "abs":
            spell = op["spell"] = "rel"
        self.spell = spell
        st["XSH"].env["XONSH_DATA_DIR"] = self.data
        self.lab("name:" + ("too-long" if name_too_long(comps[-1]) else
                            "py" if comps[-1].endswith(".py") else "xsh" if comps[-1].endswith(".xsh") else "other"))
        if layout in ("top", "file", "dir"):
            self.lab("name:via-symlink")
        self.lab("layout:%s" % (layout or "plain"))
        self.lab("spell:" + spell)
        if len(comps) > 1:
            self.lab("name:nested")

    def point(self, link, target):
        """(Re-)point a symlink.  The link itself carries an old mtime, so an implementation that looked
        at the link instead of the file (lstat) would consider every entry fresh."""
        if os.path.lexists(link):
            os.remove(link)
        os.symlink(os.path.relpath(target, os.path.dirname(link)) if self.rellink else target, link)
        os.utime(link, (BASE_TIME - 5000, BASE_TIME - 5000), follow_symlinks=False)

    ALT_KEYS = ("script_text", "script_kind", "script_tok", "last_change", "entry_path", "entry_stamp", "entry_corrupt",
                "entry_fn", "pending", "after_selfedit")

    def op_retarget(self, op):
        """The script's *name* now resolves to another file (link re-pointed: release roll-back / roll-forward,
        `alternatives`; or, without any link, the same relative name from another working directory).  The
        new target's mtime is older than every cache entry / equal to the mtime of the entry written most
        recently / newer than everything / left as it was."""
        n = len(self.altdirs)
        if n < 2 or self.script_text is None:
            return self.ops.pop()
        to = op["to"] % n
        if to == self.cur:
            return self.ops.pop()
        op["to"] = to
        self.alts[self.cur] = {k: getattr(self, k) for k in self.ALT_KEYS}
        self.cur = to
        target = os.path.join(self.altdirs[to], *self.comps)
        if self.layout == "dir":
            self.point(self.link, self.altdirs[to])
        elif self.layout == "file":
            self.point(self.link, target)
        else:
            self.script = target
        how = op.get("mtime") or "keep"
        state = self.alts[to]
        known = state is not None
        if not known:
            self.edits += 1
            kind = op.get("kind") or "print"
            tok = "K%dx%s" % (self.edits, op.get("salt", ""))
            text, pending = self.render(op, kind, tok)
            with open(target, "w", encoding="utf-8") as f:
                f.write(text)
            state = dict(script_text=text, script_kind=kind, script_tok=tok, last_change="edit", entry_path=None,
                         entry_stamp=None, entry_corrupt=None, entry_fn=None, pending=pending, after_selfedit=False)
            if how == "keep":
                how = "older"
        for k in self.ALT_KEYS:
            setattr(self, k, state[k])
        if how == "equal" and self.last_entry_time is None:
            how = "older"
        if how == "older":
            t = BASE_TIME - 1000 + to
        elif how == "equal":
            t = self.last_entry_time
        elif how == "newer":
            t = self.tick()
            if known:
                self.last_change = "touch"
        elif how != "keep":
            raise common.HarnessError("retarget: unknown mtime choice %r" % (how,))
        if how != "keep":
            if known:
                # a file whose text may have changed since its own entry was written never travels back in
                # time (new text under an old mtime is outside the property)
                t = max(t, int(os.stat(target).st_mtime))
            os.utime(target, (t, t))
        op["mtime"] = how
        self.after_retarget = (how, known)
        self.lab("retarget:%s:%s:%s" % (self.layout, how, "seen-target" if known else "new-target"))

    def render(self, op, kind, tok):
        """-> (text, pending).  kind 'selfedit': the body changes its own source file while it runs - op['how'] in
        rewrite / replace / touch, op['new'] the kind of the body it leaves behind."""
        if kind != "selfedit":
            return render_body(kind, tok), None
        how = op.get("how") or "rewrite"
        if how == "touch":
            text = render_selfedit(tok, None, how)
            return text, (how, text, kind, tok)
        self.edits += 1
        newkind = op.get("new") or "print"
        if newkind not in SELFEDIT_NEW_KINDS:
            raise common.HarnessError("self-edit leaves an unknown kind %r" % (newkind,))
        newtok = "K%dx%s" % (self.edits, op.get("salt", ""))
        newtext = render_body(newkind, newtok)
        return render_selfedit(tok, newtext, how), (how, newtext, newkind, newtok)

    def op_edit(self, op):
        self.edits += 1
        kind = op["kind"]
        tok = "K%dx%s" % (self.edits, op.get("salt", ""))
        text, self.pending = self.render(op, kind, tok)
        with open(self.script, "w", encoding="utf-8") as f:
            f.write(text)
        t = self.tick()
        os.utime(self.script, (t, t))
        self.script_text, self.script_kind, self.script_tok = text, kind, tok
        self.last_change = "edit"
        self.after_selfedit = False
        self.lab("edit:" + kind + (":" + self.pending[0] if self.pending else ""))

    def op_respell(self, op):
        """From now on the script is run by another spelling of the same path."""
        if self.script_text is None:
            return self.ops.pop()
        spell = op["spell"]
        if spell not in ("abs", "rel", "dotdot"):
            raise common.HarnessError("unknown spelling %r" % (spell,))
        if self.layout == "cwd" and spell == "abs":
            spell = "dotdot" if self.spell == "rel" else "rel"
        if spell == self.spell:
            return self.ops.pop()
        op["spell"] = self.spell = spell
        self.lab("respell:" + spell)

    def op_overlap(self, op):
        """Child tier: a run of the script is still in progress (it has announced itself and waits) while the source
        is edited and run a second time to completion; then the first run ends; then a third run.  Every run must
        equal the uncached run of the source as it was when that run started."""
        if self.backend != "proc" or self.script_text is None:
            return self.ops.pop()
        import time

        sw = list(op["sw"])
        self.nover = getattr(self, "nover", 0) + 1
        flag, go = (os.path.join(self.root, "%s%d" % (n, self.nover)) for n in ("flag", "go"))
        os.environ["VERIF_FLAG"], os.environ["VERIF_GO"] = flag, go
        self.op_edit({"op": "edit", "kind": "wait"})
        wait_tok = self.script_tok
        fn = self.spelling()
        with open(go, "w"):
            pass
        ref_w = self.reference(("proc-script", self.script_text, fn), lambda: self.proc_ref([fn]))
        os.remove(go)
        if os.path.exists(flag):
            os.remove(flag)
        flags, envsw = self.proc_switches(sw)
        os.makedirs(self.data, exist_ok=True)
        p = subprocess.Popen(child_cmd(flags + [fn]), env=child_env(self.data, envsw), cwd=self.cwd(),
                             stdin=subprocess.DEVNULL, stdout=subprocess.PIPE, stderr=subprocess.PIPE)
        try:
            t0 = time.time()
            while not os.path.exists(flag) and p.poll() is None:
                if time.time() - t0 > 120:
                    raise common.HarnessError("the overlapped child run did not announce itself within 120 s")
                time.sleep(0.02)
            # the first run has read its source (and, if it stores the entry before running, stored it)
            self.settle_entry(fn)
            self.op_edit({"op": "edit", "kind": op.get("kind") or "print"})
            self.op_run({"op": "run", "sw": sw})
            with open(go, "w"):
                pass
            try:
                out, err = p.communicate(timeout=120)
            except subprocess.TimeoutExpired:
                raise common.HarnessError("the overlapped child run did not end within 120 s")
        finally:
            if p.poll() is None:
                p.kill()
                p.communicate()
        obs_w = child_obs(p.returncode, out, err)
        if not same_obs(obs_w, ref_w):
            self.bad("overlapped-run-differs", "the run that was in progress while the source was edited: %s"
                     % obs_diff(obs_w, ref_w))
        self.settle_entry(fn)
        self.lab("overlap:" + ("cache-on" if use_cache_formula(sw, "exec") else "cache-off"))
        if use_cache_formula(sw, "exec"):
            self.nontrivial = True
        self.after_selfedit = True          # the third run comes after a change during a run, too
        self.old_tok = wait_tok
        self.op_run({"op": "run", "sw": sw})

    def settle_entry(self, fn):
        """Put a script entry that has been (re)written on the harness clock."""
        path = self.find_entry()
        self.entry_stamp, rewritten = self.stamp(path, self.entry_stamp)
        if rewritten:
            self.entry_corrupt = None
            self.entry_fn = fn
        if path is not None and self.entry_stamp is not None:
            self.last_entry_time = max(self.last_entry_time or 0, self.entry_stamp // 10 ** 9)

    # -- a source that changes while it runs --------------------------------------------------------
    def arm_selfedit(self):
        """Before a run of a self-editing body: the mtime it will give its file, from the harness clock (two ticks:
        the first is kept free for a cache entry written *before* the edit)."""
        if self.pending is None:
            return None
        self.tick()
        t = self.tick()
        os.environ["VERIF_T"] = str(t)
        os.environ["VERIF_PAUSE"] = "0"         # (set to a few ms for the real run, not for the reference)
        return t

    def snapshot(self):
        return (self.script_text, os.stat(self.script).st_mtime_ns)

    def restore(self, snap):
        """The uncached *reference* run of a self-editing body has edited the file, too: put it back."""
        text, ns = snap
        with open(self.script, encoding="utf-8") as f:
            now = f.read()
        if now != text or os.stat(self.script).st_mtime_ns != ns:
            with open(self.script, "w", encoding="utf-8") as f:
                f.write(text)
            os.utime(self.script, ns=(ns, ns))

    def absorb_selfedit(self, t):
        """After a run of a self-editing body: did it happen?  -> True when the file now is what the body leaves."""
        if self.pending is None or t is None:
            return False
        how, newtext, newkind, newtok = self.pending
        with open(self.script, encoding="utf-8") as f:
            now = f.read()
        if now == self.script_text and int(os.stat(self.script).st_mtime) != t:
            return False            # the body did not get as far as its edit (or did not run at all)
        if now != newtext or int(os.stat(self.script).st_mtime) != t:
            raise common.HarnessError("after a self-editing run the source is neither the old nor the new text")
        self.script_text, self.script_kind, self.script_tok = newtext, newkind, newtok
        if how != "touch":
            self.pending = None
        self.last_change = "edit-during-run" if how != "touch" else "touch-during-run"
        self.after_selfedit = True
        self.lab("source-changed-during-run:" + how)
        return True

    def op_touch(self, op):
        if self.script_text is None:
            return self.ops.pop()
        t = self.tick()
        os.utime(self.script, (t, t))
        self.last_change = "touch"
        self.lab("touch")

    # -- the script's cache entry -------------------------------------------------------------
    def find_entry(self):
        if self.entry_path is not None and os.path.lexists(self.entry_path):
            return self.entry_path
        hits = []
        claimed = {a["entry_path"] for i, a in enumerate(self.alts) if a is not None and i != self.cur}
        for dp, dn, fn in os.walk(os.path.join(self.data, "xonsh_script_cache")):
            for f in fn:
                if f.endswith("." + CACHE_TAG) and os.path.join(dp, f) not in claimed:
                    hits.append(os.path.join(dp, f))
        if len(hits) > 1:
            self.bad("two-entries", "one script, but %d script-cache entries: %r" % (len(hits), hits))
        self.entry_path = hits[0] if hits else None
        return self.entry_path

    def entry_condition(self, path, corrupt, stamp, mtime_matters):
        if path is None or not os.path.lexists(path):
            return "absent"
        if corrupt is not None:
            return "corrupt:" + corrupt[0]
        if mtime_matters and os.stat(path).st_mtime < os.stat(self.script).st_mtime:
            return "stale-after-" + self.last_change
        return "fresh"

    def stamp(self, path, old_stamp, at=None):
        """After a run: a cache file whose mtime is not the one we gave it was (re)written - give it
        the next logical time (or `at`).  Returns (new stamp, rewritten?)."""
        if path is None:
            return old_stamp, False
        try:
            s = os.lstat(path)
        except OSError:
            return None, False
        if not stat.S_ISREG(s.st_mode):
            return old_stamp, False
        if old_stamp is not None and s.st_mtime_ns == old_stamp:
            return old_stamp, False
        t = self.tick() if at is None else at
        os.utime(path, (t, t))
        return os.lstat(path).st_mtime_ns, True

    def well_formed(self, path, corrupt_bytes_=None):
        """(ok, reason, code object) by the layout update_cache documents: version line, Python version
        line, marshalled code.  Only called on files xonsh itself has (re)written."""
        try:
            with open(path, "rb") as f:
                data = f.read()
        except OSError as e:
            return False, "cannot be read: %s" % e, None
        if corrupt_bytes_ is not None and data == corrupt_bytes_:
            return False, "still holds the corrupted bytes", None
        hdr = _state["header"]
        if not data.startswith(hdr):
            return False, "does not start with the header %r: %r" % (hdr, data[:40]), None
        body = data[len(hdr):]
        try:
            code = marshal.loads(body)
        except Exception as e:  # noqa: BLE001
            return False, "body does not unmarshal: %s" % e, None
        if not isinstance(code, types.CodeType):
            return False, "body is a %s, not a code object" % type(code).__name__, None
        return True, "", code

    # -- running the script -------------------------------------------------------------------
    def script_ns(self, via, fn):
        if via == "import":
            return {"__name__": "verif_mod", "__file__": fn}
        if via == "rc":
            # what xonsh_script_run_control puts into the context while the file runs
            return {"__file__": fn, "__name__": os.path.abspath(os.path.join(self.cwd(), fn))}
        return {"__name__": "__main__", "__file__": fn}

    def cwd(self):
        """Working directory of every run."""
        return self.altdirs[self.cur] if self.layout == "cwd" else self.root

    def spelling(self):
        """The name the script is run by (relative names are relative to self.cwd())."""
        if self.layout == "cwd":
            r = os.path.join(*self.comps)
            if self.spell == "dotdot":
                r = os.path.join("..", os.path.basename(self.altdirs[self.cur]), r)
        elif self.spell == "abs":
            return self.script
        elif self.spell == "rel":
            r = os.path.relpath(self.script, self.root)
        else:
            return os.path.join(self.root, "data", "..", os.path.relpath(self.script, self.root))
        return "./" + r if r[:1] in ("-", "~") else r

    def import_filename(self, hook, fn):
        """-> (module name, file name) the way the import machinery arrives at them: find_spec over the
        directory part of the spelling when the name allows it (no dot in the stem), else the absolute path
        entered by hand."""
        base = os.path.basename(fn)
        stem = base[:-4]
        d = os.path.dirname(fn) or "."
        if stem and "." not in stem:
            spec = hook.find_spec(stem, [d])
            got = hook.get_filename(stem) if spec is not None else None
            if got is not None and os.path.basename(got) == base:
                self.lab("via:import:find_spec")
                return stem, got
        hook._filenames["verif_mod"] = os.path.abspath(fn)
        return "verif_mod", hook._filenames["verif_mod"]

    def reference(self, key, make):
        if key not in self.refs:
            self.refs[key] = make()
        return self.refs[key]

    def proc_ref(self, args, stdin_text=None):
        self.nref += 1
        d = os.path.join(self.root, "refdata%d" % self.nref)
        obs = run_child(["--no-script-cache"] + args, d, {"XONSH_CACHE_SCRIPTS": "0", "XONSH_CACHE_EVERYTHING": "0"},
                        self.cwd(), stdin_text)
        shutil.rmtree(d, ignore_errors=True)
        return obs

    @staticmethod
    def proc_switches(sw):
        flags = []
        if not sw[2]:
            flags.append("--no-script-cache")
        if sw[3]:
            flags.append("--cache-everything")
        return flags, {"XONSH_CACHE_SCRIPTS": "1" if sw[0] else "0", "XONSH_CACHE_EVERYTHING": "1" if sw[1] else "0"}

    def op_run(self, op):
        if self.script_text is None:
            return self.ops.pop()
        st = _state
        cc, ex = st["cc"], st["ex"]
        sw = list(op["sw"])
        via = op.get("via", "script")
        if via == "import" and (self.backend == "proc" or not self.script.endswith(".xsh")):
            via = op["via"] = "script"
        if via == "rc" and self.backend == "proc":
            via = op["via"] = "script"
        text, fn = self.script_text, self.spelling()
        path = self.find_entry()
        cond = self.entry_condition(path, self.entry_corrupt, self.entry_stamp, True)
        on = use_cache_formula(sw, "exec")
        raw_ref = None
        # the import machinery always works with the absolute path (find_spec)
        eff_fn = os.path.normpath(os.path.join(self.cwd(), fn)) if via == "import" else fn
        if F5 in self.open and self.script_kind == "where" and on and cond == "fresh" \
                and self.entry_fn not in (None, eff_fn):
            return self.exclude(F5)
        t_self = self.arm_selfedit()
        snap = self.snapshot() if self.pending is not None else None
        was_selfedit, self.after_selfedit = self.after_selfedit, False
        if self.backend == "proc":
            ref = self.reference(("proc-script", text, fn), lambda: self.proc_ref([fn]))
            if snap is not None:
                self.restore(snap)
                os.environ["VERIF_PAUSE"] = "0.005"
            flags, envsw = self.proc_switches(sw)
            obs = run_child(flags + [fn], self.data, envsw, self.cwd())
        else:
            old_cwd = os.getcwd()
            os.chdir(self.cwd())
            try:
                box = {}
                if via == "import":
                    from xonsh.imphooks import XonshImportHook

                    hook = XonshImportHook(ex)
                    modname, fn = self.import_filename(hook, fn)
                    glb = self.script_ns(via, fn)

                    def call():
                        code = hook.get_code(modname)
                        return cc.run_compiled_code(code, glb, None, "exec")
                elif via == "rc":
                    from xonsh import environ as xenviron

                    glb = {}

                    def call():
                        box["loaded"] = xenviron.xonsh_script_run_control(fn, glb, st["XSH"].env, execer=ex)
                        return (None, None, None)
                else:
                    glb = self.script_ns(via, fn)

                    def call():
                        return cc.run_script_with_cache(fn, ex, glb=glb, loc=None, mode="exec")
                _fn = fn
                ref = raw_ref = self.reference(("script", via, text, fn),
                                               lambda: ref_observe(text, _fn, "exec", self.script_ns(via, _fn)))
                if via == "rc":
                    ref = rc_view(raw_ref)
                if snap is not None:
                    self.restore(snap)
                    os.environ["VERIF_PAUSE"] = "0.005"
                set_switches(sw)
                try:
                    obs = observe(call, glb)
                finally:
                    reset_switches()
                if via == "rc" and "raised" not in obs:
                    obs["loaded"] = box.get("loaded")
            finally:
                os.chdir(old_cwd)
        self.last_fn = fn
        if body_shows_token(self.script_kind) and self.script_tok not in ref["stdout"] + repr(ref.get("ns")) \
                and not (fn.endswith(".py") and self.script_kind in ("env", "sub")) \
                and not (self.backend == "proc" and self.script_kind == "set"):
            raise common.HarnessError("the uncached reference does not show the token %r: %r" % (self.script_tok, ref))
        self.lab("run:%s:%s" % (cond, "cache-on" if on else "cache-off"))
        if via in ("import", "rc"):
            self.lab("via:" + via)
        if on and (cond.startswith("stale") or cond.startswith("corrupt")):
            self.nontrivial = True
        if self.after_retarget is not None:
            how, known = self.after_retarget
            self.after_retarget = None
            # the interesting case: an entry exists that is not older than the file the name resolves to now
            hot = self.last_entry_time is not None and os.stat(self.script).st_mtime <= self.last_entry_time
            self.lab("run-after-retarget:%s:%s:%s" % (self.layout, "not-newer-than-an-entry" if hot else "newer",
                                                     "cache-on" if on else "cache-off"))
            if on and hot:
                self.nontrivial = True
        if was_selfedit:
            self.lab("run-after-source-changed-during-run:%s:%s" % (cond, "cache-on" if on else "cache-off"))
            if on:
                self.nontrivial = True
        corrupt = self.entry_corrupt
        self.ran_after_selfedit = was_selfedit
        if not same_obs(obs, ref):
            self.fail_run(op, obs, ref, cond, corrupt, None)
        if raw_ref is not None:
            ref = raw_ref
        old_tok = self.script_tok
        inrun = self.absorb_selfedit(t_self)
        if inrun:
            self.old_tok = old_tok
        path = self.find_entry()
        at = None
        if inrun and path is not None and os.path.isfile(path) and not os.path.islink(path) \
                and os.lstat(path).st_mtime_ns != self.entry_stamp \
                and os.lstat(path).st_mtime_ns <= os.stat(self.script).st_ctime_ns:
            # the entry was (re)written in this run *before* the body changed the source (real clock: the
            # entry's mtime against the source's ctime, which utime cannot set): on the harness clock it
            # goes right before the edit.  An entry written after the edit gets the next tick as always.
            at = t_self - 1
        self.entry_stamp, rewritten = self.stamp(path, self.entry_stamp, at=at)
        if inrun:
            self.lab("entry-vs-edit-during-run:" + ("none-written" if not rewritten else
                                                    "written-before" if at is not None else "written-after"))
        if rewritten:
            self.entry_corrupt = None
            self.entry_fn = fn
        if path is not None and self.entry_stamp is not None:
            self.last_entry_time = max(self.last_entry_time or 0, self.entry_stamp // 10 ** 9)
        # a corrupted entry must have been replaced when the cache is on under every reading of the switches
        compiles = self.script_kind not in ("invalid", "invalid2") and \
            not (self.last_fn.endswith(".py") and self.script_kind in ("env", "sub"))
        if corrupt is not None and sw[0] and sw[2] and corrupt[0] in REBUILDABLE and "raised" not in ref \
                and (compiles or self.backend != "proc") \
                and not (corrupt[0] == "header" and corrupt[1] == "sibling-tag") \
                and not (corrupt[0] == "trunc" and corrupt[3]) \
                and not (corrupt[0] == "hflip" and corrupt[4] == "header-blank"):
            self.check_rebuilt(path, corrupt, ref, via, no_exec=inrun or self.pending is not None)

    def check_rebuilt(self, path, corrupt, ref, via, code_mode=None, text=None, no_exec=False):
        what = "%s(%s)" % (corrupt[0], corrupt[1]) + (" = marshal: %s" % corrupt[4] if len(corrupt) > 4 else "")
        if path is None or not os.path.isfile(path):
            self.bad("not-rebuilt", "after a cached run over a corrupted entry [%s] there is no entry file" % what,
                     bucket="not-rebuilt:" + corrupt[0])
        ok, why, code = self.well_formed(path, corrupt[2])
        if not ok:
            self.bad("not-rebuilt", "after a cached run over the corrupted entry [%s] the entry file %s" % (what, why),
                     bucket="not-rebuilt:" + corrupt[0])
        if self.backend == "proc" or no_exec:
            return          # (a body that edits its own file is not run a second time by the harness)
        # the rebuilt entry must be the compilation of the *current* source
        if code_mode is None:
            glb = self.script_ns(via, self.last_fn)
            mode = "exec"
        else:
            glb = {"__name__": "__main__"}
            mode = code_mode
        cc = _state["cc"]
        obs = observe(lambda: cc.run_compiled_code(code, glb, None, mode), glb)
        if not same_obs(obs, ref):
            self.bad("rebuilt-wrong", "the entry written after the corruption [%s] does not behave like the source: %s"
                     % (what, obs_diff(obs, ref)), bucket="rebuilt-wrong:" + corrupt[0])

    def fail_run(self, op, obs, ref, cond, corrupt, code_info):
        raised = obs.get("raised")
        fatal = raised is not None and raised != ref.get("raised")
        if self.backend == "proc":
            fatal = obs.get("rc") != ref.get("rc") and "Traceback" in obs.get("_stderr", "")
        executed = FOREIGN_MARK in obs.get("stdout", "") or EVIL_MARK in obs.get("stdout", "") or \
            "foreign_executed" in (obs.get("ns") or {})
        shown = obs.get("stdout", "") + repr(obs.get("ns")) + repr(obs.get("returned")) + repr(obs.get("raised"))
        other = [i for i, a in enumerate(self.alts) if a is not None and i != self.cur and op["op"] == "run"
                 and a["script_tok"] and a["script_tok"] in shown and a["script_tok"] not in (self.script_tok or "")]
        kind = "foreign-entry-executed" if executed else "fatal" if fatal else \
            "other-file-executed" if other else "stale-result" if cond.startswith("stale") else "result-differs"
        if getattr(self, "ran_after_selfedit", False) and op["op"] == "run" and getattr(self, "old_tok", None) \
                and self.old_tok in shown and self.old_tok not in (self.script_tok or "") and not executed and corrupt is None:
            kind = "change-during-run-lost"
            cond = "source-changed-while-the-caching-run-was-in-progress(%s)" % cond
        if corrupt is None and op["op"] == "run" and self.script_kind in DEEP_KINDS and not fatal \
                and kind == "result-differs" and self.entry_fn not in (None, self.last_fn):
            kind = "cached-code-keeps-old-spelling"
        if kind == "other-file-executed":
            cond = "%s-name-re-pointed(now t%d, shows the token of t%d)" % (self.layout, self.cur, other[0])
        finding = None
        if corrupt is not None:
            if corrupt[0] == "noncode" or (corrupt[0] == "random" and classify_body(bytes.fromhex(corrupt[1])) == "noncode") \
                    or (corrupt[0] == "flip" and corrupt[4].startswith("noncode:")):
                finding = F1
            if corrupt[0] == "chmod0" and (raised or {}).get("type") == "PermissionError":
                finding = F2
        if code_info is not None and code_info.get("written_mode") not in (None, op["mode"]) and corrupt is None:
            finding = F3
        if raised and raised["type"] == "OSError" and "File name too long" in raised["msg"] and \
                name_too_long(os.path.basename(self.script)) and op["op"] == "run":
            finding = F4
        if self.backend == "proc" and op["op"] == "run" and name_too_long(os.path.basename(self.script)) \
                and "File name too long" in obs.get("_stderr", ""):
            finding = F4
        if op["op"] == "run" and corrupt is None and self.script_kind == "where" and cond == "fresh" \
                and self.entry_fn not in (None, self.last_fn) \
                and same_obs(dict(obs, stdout=obs.get("stdout", "").replace(" False ", " True ")), ref):
            # the only difference: the code object carries the file name it was compiled under
            finding = F5
            kind = "cached-code-keeps-old-spelling"
        detail = "%s with switches %r, entry %s: %s" % (
            "script run" if op["op"] == "run" else "code %r in mode %s" % (code_info["text"], op["mode"]),
            op["sw"], cond + ("(%s)" % (corrupt[1],) if corrupt else "")
            + (" [byte xor-ed in a valid entry; marshal.loads of the body: %s]" % corrupt[4] if corrupt and len(corrupt) > 4 else ""),
            obs_diff(obs, ref))
        if obs.get("_stderr") and fatal:
            detail += " | stderr: " + obs["_stderr"][-200:]
        self.bad(kind, detail, finding=finding, bucket="%s:%s:%s" % (kind, op["op"], cond.split(":")[-1]
                                                                   if cond.startswith("corrupt") else cond.split("(")[0]))

    # -- code strings ---------------------------------------------------------------------------
    # The cache file of a (text, mode) is *learned* by watching the code store (new file after a cached
    # run); until then the name xonsh's own functions give for the text is used as a guess.  State
    # (logical mtime, corruption, mode it was compiled for) is kept per file, because one file may serve
    # several (text, mode) pairs.
    def code_listing(self):
        out = set()
        root = os.path.join(self.data, "xonsh_code_cache")
        for dp, dn, fn in os.walk(root):
            for f in fn:
                out.add(os.path.join(dp, f))
            for d in list(dn):
                if d.endswith(CACHE_TAG):       # our own "dir" corruption
                    out.add(os.path.join(dp, d))
        return out

    def code_guess(self, text):
        cc = _state["cc"]
        f = cc.get_cache_filename(cc.code_cache_name(text), code=True)
        if os.path.commonpath([f, self.data]) != self.data:
            self.bad("entry-outside-data-dir", "code %r is cached at %r, outside $XONSH_DATA_DIR %r" % (text, f, self.data))
        other = self.guesses.setdefault(f, text)
        if other != text:
            self.bad("code-entry-shared", "two different code strings share the cache file %r: %r and %r" % (f, other, text))
        return f

    def file_info(self, f, text):
        info = self.files.get(f)
        if info is None:
            info = self.files[f] = {"text": text, "file": f, "stamp": None, "corrupt": None, "written_mode": None}
        elif info["text"] != text:
            self.bad("code-entry-shared", "two different code strings share the cache file %r: %r and %r" % (f, info["text"], text))
        return info

    def code_entry(self, text, mode):
        f = self.code_of.get((text, mode))
        if f is None:
            g = self.code_guess(text)
            if os.path.lexists(g):
                f = g
        if f is None:
            return {"text": text, "file": None, "stamp": None, "corrupt": None, "written_mode": None}
        return self.file_info(f, text)

    def learn_code_file(self, text, mode, before):
        if (text, mode) not in self.code_of:
            new = sorted(self.code_listing() - before)
            g = self.code_guess(text)
            if len(new) == 1:
                self.code_of[(text, mode)] = new[0]
            elif os.path.lexists(g) and not new:
                self.code_of[(text, mode)] = g
        return self.code_entry(text, mode)

    def op_code(self, op):
        st = _state
        cc, ex = st["cc"], st["ex"]
        mode, sw = op["mode"], list(op["sw"])
        text = render_code(op["kind"], op["tok"])
        if self.backend == "proc":
            op["mode"] = mode = pmode = "exec" if mode == "exec" else "single"
        info = self.code_entry(text, mode)
        cond = self.entry_condition(info["file"], info["corrupt"], info["stamp"], False)
        on = use_cache_formula(sw, mode)
        if F3 in self.open and cond == "fresh" and info["written_mode"] not in (None, mode) and (sw[1] or sw[3]):
            return self.exclude(F3)
        before = self.code_listing()
        if self.backend == "proc":
            if pmode == "single":
                args, stdin_text = ["-c", text], None
            else:
                args, stdin_text = [], text
            ref = self.reference(("proc-code", pmode, text), lambda: self.proc_ref(args, stdin_text))
            flags, envsw = self.proc_switches(sw)
            obs = run_child(flags + args, self.data, envsw, self.cwd(), stdin_text)
        else:
            ref = self.reference(("code", mode, text), lambda: ref_observe(text, "<string>", mode, {"__name__": "__main__"}))
            glb = {"__name__": "__main__"}
            set_switches(sw)
            try:
                obs = observe(lambda: cc.run_code_with_cache(text, "<string>", ex, glb=glb, loc=None, mode=mode), glb)
            finally:
                reset_switches()
        self.lab("code:%s:%s:%s" % (mode, cond, "cache-on" if on else "cache-off"))
        if on and cond.startswith("corrupt"):
            self.nontrivial = True
        corrupt = info["corrupt"]
        if not same_obs(obs, ref):
            self.fail_run(op, obs, ref, cond, corrupt, info)
        info = self.learn_code_file(text, mode, before)
        info["stamp"], rewritten = self.stamp(info["file"], info["stamp"])
        if rewritten:
            info["corrupt"] = None
            info["written_mode"] = mode
        if corrupt is not None and sw[1] and sw[3] and corrupt[0] in REBUILDABLE and "raised" not in ref \
                and not (corrupt[0] == "header" and corrupt[1] == "sibling-tag") \
                and not (corrupt[0] == "trunc" and corrupt[3]) \
                and not (corrupt[0] == "hflip" and corrupt[4] == "header-blank"):
            self.check_rebuilt(info["file"], corrupt, ref, None, code_mode=mode, text=text)

    # -- corruption -------------------------------------------------------------------------------
    def op_corrupt(self, op):
        how, arg = op["how"], op.get("arg")
        self.flip_class = None
        if op.get("target") == "code":
            info = self.code_entry(render_code(op["kind"], op["tok"]), op.get("mode", "single"))
            path = info["file"]
        else:
            info = None
            path = self.find_entry()
        if path is not None and os.path.isdir(path) and not os.path.islink(path):
            # our own earlier "dir" corruption: this time the user cleans it up
            os.rmdir(path)
            op["how"], op["arg"] = "undo-dir", None
            if info is None:
                self.entry_stamp = self.entry_corrupt = None
            else:
                info["stamp"] = info["corrupt"] = None
            self.lab("corrupt:undo-dir")
            return
        if how == "undo-dir" or path is None or not os.path.isfile(path) or os.path.islink(path):
            self.lab("corrupt:no-entry")
            return self.ops.pop()
        if not os.access(path, os.R_OK):
            # our own earlier chmod 000: the permissions are repaired before the next corruption
            os.chmod(path, 0o600)
            if info is None:
                self.entry_corrupt = None
            else:
                info["corrupt"] = None
        with open(path, "rb") as f:
            current = f.read()
        noop = False
        flip_new = flip_cls = None
        if how in ("flip", "hflip"):
            # one byte of a *valid* entry is xor-ed: body (flip) or header (hflip); arg = [offset, mask],
            # offset taken modulo the length, negative = from the end
            hdr = _state["header"]
            state0 = self.entry_corrupt if info is None else info["corrupt"]
            self.flip_class = None
            if state0 is not None or not current.startswith(hdr) or len(current) <= len(hdr) \
                    or classify_remote(current[len(hdr):]) != "code":
                self.lab("corrupt:flip-without-valid-entry")
                return self.ops.pop()
            off, mask = int(arg[0]), int(arg[1]) & 0xFF
            if not mask:
                raise common.HarnessError("flip with an empty mask: %r" % (op,))
            if how == "hflip":
                idx = off % len(hdr)
                cls = "header"
                if bytes([current[idx]]).isspace() or bytes([current[idx] ^ mask]).isspace():
                    cls = "header-blank"        # a loader may tolerate other white space around the version lines
                elif hdr[:idx] + bytes([current[idx] ^ mask]) + hdr[idx + 1:] == hdr:
                    raise common.HarnessError("hflip did not change the header")
            else:
                idx = len(hdr) + off % (len(current) - len(hdr))
            mutated = bytearray(current)
            mutated[idx] ^= mask
            if how == "flip":
                cls = classify_remote(bytes(mutated[len(hdr):]))
            self.flip_class = cls
            if how == "flip" and not flip_detectable(cls):
                # 'code': a loadable, well-formed code object that is simply different code - the format has no
                # checksum and the property does not ask for one: counted, never written, never executed.
                # MemoryError / crash / hang of the unmarshaller itself: CPython's business, and not safe here.
                self.lab("corrupt:flip:" + ("undetectable-damage" if cls == "code" else "discarded-" + cls.split(":")[-1]))
                return self.ops.pop()
            if cls.startswith("noncode:") and F1 in self.open:
                return self.exclude(F1)
            flip_new, flip_cls = bytes(mutated), cls
        if how in ("noncode", "random"):
            cls = classify_body(marshal.dumps(NONCODE_OBJS[arg]), True) if how == "noncode" else \
                classify_body(bytes.fromhex(arg))
            if cls in ("risky", "code"):
                self.lab("corrupt:discarded-" + cls)
                return self.ops.pop()
            if cls == "noncode" and F1 in self.open:
                return self.exclude(F1)
        if how == "garbage" and risky_body(bytes.fromhex(arg)):
            self.lab("corrupt:discarded-risky")
            return self.ops.pop()
        if how == "chmod0":
            if F2 in self.open:
                return self.exclude(F2)
            if not _state["perm"] or self.backend == "proc":
                # child processes of root regain CAP_DAC_OVERRIDE: the class would be trivial there
                self.lab("corrupt:chmod0-not-enforceable")
                return self.ops.pop()
            os.chmod(path, 0)
            new = current
        elif how == "dir":
            os.remove(path)
            os.mkdir(path)
            new = None
        elif how == "header" and arg == "sibling-tag":
            sib = path[: -len(CACHE_TAG)] + ("cpython-27" if CACHE_TAG != "cpython-27" else "cpython-39")
            with open(sib, "wb") as f:
                f.write(corrupt_bytes(how, arg, current) + foreign_code_bytes())
            new = current
            noop = True
        else:
            new = flip_new if flip_new is not None else corrupt_bytes(how, arg, current)
            noop = new == current
            if not noop:
                with open(path, "wb") as f:
                    f.write(new)
        if noop or how in ("dir", "chmod0"):
            # nothing written: the entry keeps its place on the logical clock (and its staleness)
            stamp = self.entry_stamp if info is None else info["stamp"]
            if how == "dir":
                stamp = None
        else:
            t = self.tick()
            os.utime(path, (t, t))
            stamp = os.lstat(path).st_mtime_ns
        state = (how, arg, new, False) if flip_cls is None else (how, list(arg), new, False, flip_cls)
        if noop:
            state = self.entry_corrupt if info is None else info["corrupt"]
        if info is None:
            self.entry_stamp, self.entry_corrupt = stamp, state
        else:
            info["stamp"], info["corrupt"] = stamp, state
        self.lab("corrupt:%s" % how + (":" + arg if how == "header" else ":" + flip_cls if flip_cls else ""))


# ----------------------------------------------------------------------------------------
# replaying a history without Hypothesis


def check_history(case, open_ids=(), stats=None):
    """Re-execute {'ops': [...], 'backend': ...}.  -> Failure | None"""
    h = History(open_ids, case.get("backend", "inproc"))
    try:
        try:
            for op in case["ops"]:
                h.step(json.loads(json.dumps(op)))
        except Mismatch as e:
            return e.failure
        if stats is not None:
            for lab in h.labels:
                stats.hist[lab] += 1
            for fid, n in h.excluded.items():
                stats.excluded_known[fid] += n
    finally:
        h.close()
    return None


def minimize_ops(failure, open_ids=()):
    """Greedy removal of operations (never the first = init, never the last = the failing one)."""
    best = failure
    ops = list(failure.case["ops"])
    backend = failure.case.get("backend", "inproc")
    budget = 6 if backend == "proc" else 300
    changed = True
    while changed and budget > 0:
        changed = False
        i = len(ops) - 2
        while i >= 1 and budget > 0:
            trial = ops[:i] + ops[i + 1:]
            budget -= 1
            g = check_history({"ops": trial, "backend": backend}, open_ids)
            if g is not None and g.bucket == failure.bucket and g.finding == failure.finding:
                ops = list(g.case["ops"])
                best = g
                changed = True
                i = min(i, len(ops) - 1)
            i -= 1
    return best


# ----------------------------------------------------------------------------------------
# cache-name functions over confusable pairs


def _confusers():
    def up_to_esc(s):
        return "".join("_" + c.lower() if "A" <= c <= "Z" else c for c in s)

    def esc_to_up(s):
        out, i = [], 0
        while i < len(s):
            if s[i] == "_" and i + 1 < len(s) and "a" <= s[i + 1] <= "z":
                out.append(s[i + 1].upper())
                i += 2
            else:
                out.append(s[i])
                i += 1
        return "".join(out)

    return [
        up_to_esc, esc_to_up,
        lambda s: s.replace(".", "_."), lambda s: s.replace("_.", "."),
        lambda s: s.replace("_", "__"), lambda s: s.replace("__", "_"),
        lambda s: s.lower(), lambda s: s.upper(), lambda s: s.swapcase(),
        lambda s: s + "_", lambda s: "_" + s, lambda s: s + ".", lambda s: s.rstrip("_."),
        lambda s: s + "." + CACHE_TAG, lambda s: s.replace(".", "_") or "_", lambda s: s.replace(" ", "_") or "_",
        lambda s: s[:-1] or "x", lambda s: s + s[-1],
    ]


def pair_strategy():
    from hypothesis import strategies as st

    comp = st.one_of(st.sampled_from(FIXED_NAMES + ["d", "Dir A", "sub.d", "_x_", "UP", "a", "b"]),
                     st.text(NAME_CHARS, min_size=1, max_size=10)).filter(valid_component)
    paths = st.lists(comp, min_size=1, max_size=4)
    conf = _confusers()

    @st.composite
    def pairs(draw):
        if draw(st.integers(0, 5)) == 0:
            k1, k2 = draw(st.sampled_from(CODE_KINDS)), draw(st.sampled_from(CODE_KINDS))
            t1, t2 = draw(st.sampled_from(CODE_TOKS)), draw(st.sampled_from(CODE_TOKS))
            return {"texts": [render_code(k1, t1), render_code(k2, t2)]}
        p1 = draw(paths)
        how = draw(st.integers(0, 5))
        if how == 0:
            p2 = draw(paths)
        elif how == 1 and len(p1) > 1:
            i = draw(st.integers(0, len(p1) - 2))
            glue = draw(st.sampled_from(["", "_", ".", "_/", " "])).replace("/", "")
            p2 = p1[:i] + [p1[i] + glue + p1[i + 1]] + p1[i + 2:]
        elif how == 2:
            p2 = p1[:-1] + [p1[-1] + "." + CACHE_TAG, draw(comp)]
        else:
            i = draw(st.integers(0, len(p1) - 1))
            f = conf[draw(st.integers(0, len(conf) - 1))]
            p2 = p1[:i] + [f(p1[i])] + p1[i + 1:]
        if not all(valid_component(c) for c in p2):
            p2 = p1[:-1] + ["fallback"]
        return {"pair": [p1, p2]}

    return pairs()


def _is_ancestor(a, b):
    return b.startswith(a.rstrip("/") + "/")


def check_pair(case):
    """-> (Failure | None, nontrivial)"""
    cc = _state["cc"]
    data = _state["XSH"].env["XONSH_DATA_DIR"]
    if "texts" in case:
        t1, t2 = case["texts"]
        f1 = cc.get_cache_filename(cc.code_cache_name(t1), code=True)
        f2 = cc.get_cache_filename(cc.code_cache_name(t2), code=True)
        nt = t1 != t2 and t1[:16] == t2[:16]
        if t1 != t2 and (f1 == f2 or _is_ancestor(f1, f2) or _is_ancestor(f2, f1)):
            return Failure("code-entry-shared", case, "code strings %r and %r are cached in %r and %r" % (t1, t2, f1, f2)), nt
        if (t1 == t2) != (f1 == f2):
            return Failure("code-entry-unstable", case, "the same code string gives two cache files %r %r" % (f1, f2)), nt
        for f in (f1, f2):
            if os.path.commonpath([f, data]) != data:
                return Failure("entry-outside-data-dir", case, "%r is outside %r" % (f, data)), nt
        return None, nt
    base = os.path.realpath(_state["scratch"])
    p1, p2 = (os.path.join(base, "inj", *p) for p in case["pair"])
    r1, r2 = os.path.realpath(p1), os.path.realpath(p2)
    f1, f2 = cc.get_cache_filename(p1, code=False), cc.get_cache_filename(p2, code=False)
    special = set("._") | set("ABCDEFGHIJKLMNOPQRSTUVWXYZ")
    nt = r1 != r2 and all(any(ch in special for ch in "".join(p)) for p in case["pair"])
    if r1 != r2 and f1 == f2:
        return Failure("script-entry-shared", case, "scripts %r and %r share the cache file %r" % (r1, r2, f1)), nt
    if r1 != r2 and (_is_ancestor(f1, f2) or _is_ancestor(f2, f1)):
        return Failure("script-entry-nested", case, "the cache file of one script is a directory on the way to the "
                       "other's: %r / %r" % (f1, f2)), nt
    if r1 == r2 and f1 != f2:
        return Failure("script-entry-unstable", case, "one real path, two cache files %r %r" % (f1, f2)), nt
    code_root = os.path.join(data, "xonsh_code_cache")
    for f in (f1, f2):
        if os.path.commonpath([f, data]) != data or os.path.commonpath([f, code_root]) == code_root:
            return Failure("entry-outside-data-dir", case, "%r is not in the script store under %r" % (f, data)), nt
    return None, nt


def worker_inject(arg):
    seed, n, scratch = arg[:3]
    _setup(scratch)
    st = Stats()
    seen = {}

    def body(case):
        f, nt = check_pair(case)
        st.case(("pair", json.dumps(case, sort_keys=True)), nt, ["pair:" + ("texts" if "texts" in case else "paths")],
                sample=case if nt else None, max_per_label=1)
        if f is None and "pair" in case:
            cc = _state["cc"]
            base = os.path.realpath(_state["scratch"])
            for p in case["pair"]:
                full = os.path.join(base, "inj", *p)
                fn = cc.get_cache_filename(full, code=False)
                other = seen.setdefault(fn, os.path.realpath(full))
                if other != os.path.realpath(full):
                    f = Failure("script-entry-shared", {"pair": [os.path.relpath(other, os.path.join(base, "inj")).split("/"), p]},
                                "scripts %r and %r share the cache file %r" % (other, full, fn))
        if f is not None:
            st.fail(f)

    common.run_given(pair_strategy(), body, seed, n)
    out, got = [], set()
    for f in st.failures:
        if f.bucket in got:
            continue
        got.add(f.bucket)
        m = common.minimize(pair_strategy(), lambda c, _k=f.kind: (check_pair(c)[0] or Failure("", c)).kind == _k,
                            seed, n, seconds=15)
        if m is not None:
            g, _ = check_pair(m)
            if g is not None:
                f = g
        out.append(f)
    st.failures = out
    return st


# ----------------------------------------------------------------------------------------
# complete enumeration of truncation lengths


def trunc_bases(tier):
    """[(label, priming ops, corrupt-op template, run op)]"""
    if tier == "thorough":
        skinds = [k for k in SCRIPT_KINDS if k not in ("invalid", "invalid2")]
        names = [["script.xsh"], ["Dir A", "sub.d", "My_Script.V2.xsh"], ["run.py"]]
        ckinds = [k for k in CODE_KINDS if k != "invalid"]
        cmodes = ["exec", "single"]
    else:
        skinds = ["print", "func", "env", "nonl", "exit"]
        names = [["script.xsh"], ["Dir A", "sub.d", "My_Script.V2.xsh"]]
        ckinds = ["print", "expr", "multi"]
        cmodes = ["single", "exec"]
    out = []
    for i, k in enumerate(skinds):
        for j, nm in enumerate(names):
            if tier != "thorough" and (i + j) % len(names):
                continue
            if nm[-1].endswith(".py") and k in ("env", "sub"):
                continue
            prime = [{"op": "init", "path": nm}, {"op": "edit", "kind": k}, {"op": "run", "sw": ALL_ON}]
            out.append(("script:%s:%s" % (k, nm[-1]), prime, {"op": "corrupt", "how": "trunc"},
                        {"op": "run", "sw": ALL_ON, "via": "import" if (i + j) % 3 == 2 else "script"}))
    for i, k in enumerate(ckinds):
        for j, m in enumerate(cmodes):
            if tier != "thorough" and (i + j) % len(cmodes):
                continue
            c = {"op": "code", "kind": k, "tok": "c1", "mode": m, "sw": ALL_ON}
            prime = [{"op": "init", "path": ["script.xsh"]}, dict(c)]
            out.append(("code:%s:%s" % (k, m), prime,
                        {"op": "corrupt", "target": "code", "kind": k, "tok": "c1", "mode": m, "how": "trunc"}, dict(c)))
    return out


def worker_trunc(arg):
    shard, nshards, tier, scratch, open_ids = arg
    _setup(scratch)
    st = Stats()
    for bi, (label, prime, cor, runop) in enumerate(trunc_bases(tier)):
        if bi % nshards != shard:
            continue

        def fresh():
            h = History(open_ids)
            for op in prime:
                h.step(json.loads(json.dumps(op)))
            return h

        try:
            h = fresh()
        except Mismatch as e:
            e.failure.bucket = "trunc-priming:" + e.failure.bucket
            st.fail(e.failure)
            continue
        try:
            if cor.get("target") == "code":
                path = h.code_entry(render_code(cor["kind"], cor["tok"]), cor["mode"])["file"]
            else:
                path = h.find_entry()
            if path is None or not os.path.isfile(path):
                # nothing to truncate (the floor on enumerated lengths in main() keeps this from passing silently)
                st.inconclusive += 1
                st.notes.append("truncation base %s: the priming run left no cache entry" % label)
                continue
            total = os.path.getsize(path)
            ok, why, _ = h.well_formed(path)
            if not ok:
                st.fail(Failure("primed-entry-malformed", {"ops": prime, "backend": "inproc"},
                                "the entry written by a first cached run %s" % why))
                continue
            st.hist["trunc-entries"] += 1
            st.hist["trunc-bytes"] += total
            for L in range(total + 1):
                ops = [dict(cor, arg=L), dict(runop)]
                try:
                    for op in ops:
                        h.step(json.loads(json.dumps(op)))
                    fail = None
                except Mismatch as e:
                    fail = e.failure
                    fail.case = {"ops": prime + ops, "backend": "inproc"}
                    fail.bucket = "trunc:" + fail.bucket
                st.case(("trunc", label, L), L < total, ["trunc-length", "trunc:" + label.split(":")[0]],
                        sample={"entry": label, "length": L, "of": total} if L in (0, total // 2) else None,
                        max_per_label=2)
                if fail is not None:
                    st.fail(fail)
                    h.close()
                    h = fresh()
                del h.ops[len(prime):]
                del h.labels[:]
        finally:
            h.close()
    # one representative per bucket is enough
    seen, out = set(), []
    for f in st.failures:
        if f.bucket not in seen:
            seen.add(f.bucket)
            out.append(f)
    st.failures = out
    return st


# ----------------------------------------------------------------------------------------
# enumeration of single-byte damage: every offset of a valid entry x a list of xor masks


def flip_masks(tier, body_len):
    bits = [1 << b for b in range(8)]
    if tier == "thorough":
        return bits + [0xFF, 0x7F, 0x55, 0xAA, 0x0F, 0xF0, 0x03, 0xC0]
    if body_len <= 400:
        return bits
    return None         # per offset: the sign bit and one other bit (see worker_flip)


def undetectable_run(h, st, label, path, valid, mutated, off, m):
    """Not part of the oracle: what happens when an entry that still loads as a code object - different, possibly
    ill-formed bytecode - is run (in a bounded child process, never in the worker).  Only counted; an interpreter
    killed by a signal is noted as a candidate for analysis."""
    fn = h.spelling()
    envsw = {"XONSH_CACHE_SCRIPTS": "1", "XONSH_CACHE_EVERYTHING": "0"}
    before = os.stat(path)
    ref = h.reference(("proc-script", h.script_text, fn), lambda: h.proc_ref([fn]))
    with open(path, "wb") as f:
        f.write(mutated)
    os.utime(path, ns=(before.st_mtime_ns, before.st_mtime_ns))
    try:
        how, n, out = run_child_limited([fn], h.data, envsw, h.cwd(), os.path.join(h.root, "limited"))
    finally:
        with open(path, "wb") as f:
            f.write(valid)
        os.utime(path, ns=(before.st_mtime_ns, before.st_mtime_ns))
    if how == "exit":
        res = "same-as-uncached" if (n, out) == (ref["rc"], ref["stdout"]) else "differs-from-uncached"
    elif how == "signal":
        res = {24: "cpu-limit", 25: "output-limit", 9: "cpu-limit"}.get(n, "killed-by-signal-%d" % n)
        if res.startswith("killed"):
            st.notes.append("candidate for analysis (not a violation): entry %s with byte %d xor %d still loads as a code "
                            "object; running it killed the interpreter with signal %d" % (label, off, m, n))
    else:
        res = "timeout"
    st.hist["undetectable-run:" + res] += 1


def worker_flip(arg):
    shard, nshards, tier, scratch, open_ids, tabledir = arg
    _setup(scratch, tabledir)
    st = Stats()
    vias = ["script", "import", "rc"]
    hdr = _state["header"]
    for bi, (label, prime, cor, runop) in enumerate(trunc_bases(tier)):
        if bi % nshards != shard:
            continue
        if cor.get("target") != "code":
            runop = dict(runop, via=vias[bi % 3])
            prime = [dict(op, via=vias[bi % 3]) if op["op"] == "run" else op for op in prime]
        label = label + (":" + runop["via"] if "via" in runop else "")

        def fresh():
            h = History(open_ids)
            for op in prime:
                h.step(json.loads(json.dumps(op)))
            return h

        try:
            h = fresh()
        except Mismatch as e:
            e.failure.bucket = "flip-priming:" + e.failure.bucket
            st.fail(e.failure)
            continue
        try:
            def locate(h):
                if cor.get("target") == "code":
                    return h.code_entry(render_code(cor["kind"], cor["tok"]), cor["mode"])["file"]
                return h.find_entry()

            path = locate(h)
            fname = "<string>" if cor.get("target") == "code" else h.last_fn
            if path is None or not os.path.isfile(path):
                st.inconclusive += 1
                st.notes.append("flip base %s: the priming run left no cache entry" % label)
                continue
            with open(path, "rb") as f:
                valid = f.read()
            if not valid.startswith(hdr) or classify_remote(valid[len(hdr):]) != "code":
                st.fail(Failure("primed-entry-malformed", {"ops": prime, "backend": "inproc"},
                                "the entry written by a first cached run is not header + marshalled code"))
                continue
            body = valid[len(hdr):]
            masks = flip_masks(tier, len(body))
            st.hist["flip-entries"] += 1
            st.hist["flip-bytes"] += len(body)
            plan = []
            for off in range(len(body)):
                for m in (masks if masks is not None else [0x80, 1 << ((off * 5 + bi) % 7)]):
                    plan.append(("flip", signed_offset(body, off, fname), m))
            if bi < 2 * nshards or tier == "thorough":
                for off in range(len(hdr)):
                    for b in range(8):
                        plan.append(("hflip", off, 1 << b))
            n_undet = 0
            want_undet = (3 if tier != "thorough" else 40) if (cor.get("target") != "code" and runop.get("via") == "script") else 0
            for pi, (how, off, m) in enumerate(plan):
                ops = [dict(cor, how=how, arg=[off, m]), dict(runop)]
                n0 = len(h.ops)
                fail = None
                try:
                    h.step(json.loads(json.dumps(ops[0])))
                    done = len(h.ops) > n0
                    if done:
                        h.step(json.loads(json.dumps(ops[1])))
                except Mismatch as e:
                    done = True
                    fail = e.failure
                    fail.case = {"ops": prime + ops, "backend": "inproc"}
                    fail.bucket = "flip:" + fail.bucket
                cls = h.flip_class or "no-valid-entry"
                if cls == "no-valid-entry":
                    raise common.HarnessError("flip enumeration %s: the entry is not valid before a flip (%r)" % (label, ops[0]))
                if cls == "code" and n_undet < want_undet and pi * want_undet // len(plan) >= n_undet:
                    # a sample of the damages the oracle does not cover, spread evenly over the entry
                    n_undet += 1
                    with open(path, "rb") as f:
                        now = f.read()
                    mutated = bytearray(now)
                    mutated[len(hdr) + off % (len(now) - len(hdr))] ^= m
                    undetectable_run(h, st, label, path, now, bytes(mutated), off, m)
                cls = "undetectable-damage" if cls == "code" else cls
                st.case(("flip", label, how, off, m), done, ["flip-case", "flip-case:" + label.split(":")[0],
                                                              "flipped:" + cls],
                        sample={"entry": label, "how": how, "offset": off, "mask": m, "marshal": cls}
                        if done and (off * 131 + m) % 97 == 0 else None, max_per_label=2)
                if fail is not None:
                    st.fail(fail)
                    h.close()
                    try:
                        h = fresh()
                    except Mismatch:
                        break
                    path = locate(h)
                    if path is None or not os.path.isfile(path):
                        break
                del h.ops[len(prime):]
                del h.labels[:]
        finally:
            h.close()
    _clf_stop()
    seen, out = set(), []
    for f in st.failures:
        if f.bucket not in seen:
            seen.add(f.bucket)
            out.append(f)
    st.failures = out
    return st


# ----------------------------------------------------------------------------------------
# a fixed family of path-identity histories: one name, several files behind it


def ident_family(tier):
    """[(label, ops)]: layout x link style x spelling x entry point x mtime of the new target x switches."""
    out = []
    i = 0
    names = [["tool.xsh"], ["Dir A", "sub.d", "My_Script.V2.xsh"], ["rc.d", "init_rc.xsh"], ["run.py"]]
    for layout in ("dir", "file", "cwd"):
        for rellink in (False, True):
            if layout == "cwd" and rellink:
                continue
            for spell in ("abs", "rel", "dotdot"):
                if layout == "cwd" and spell == "abs":
                    continue
                for via in ("script", "import", "rc"):
                    for mt in ("older", "equal", "newer"):
                        for sw in (DEFAULTS, ALL_ON):
                            i += 1
                            if tier != "thorough" and i % 5 not in (0, 2):
                                continue
                            nm = names[i % len(names)]
                            r = {"op": "run", "sw": list(sw), "via": via}
                            ops = [{"op": "init", "path": nm, "layout": layout, "spell": spell, "rellink": rellink},
                                   {"op": "edit", "kind": "both"}, dict(r),
                                   {"op": "retarget", "to": 1, "mtime": mt, "kind": "where"}, dict(r),     # roll forward
                                   {"op": "retarget", "to": 0, "mtime": "keep"}, dict(r),                  # roll back
                                   {"op": "retarget", "to": 1, "mtime": "keep"}, dict(r),
                                   {"op": "edit", "kind": "func"}, dict(r),
                                   {"op": "retarget", "to": 2, "mtime": mt, "kind": "raise"}, dict(r),
                                   {"op": "retarget", "to": 0, "mtime": "equal"}, dict(r),
                                   {"op": "touch"}, {"op": "retarget", "to": 1, "mtime": "older"}, dict(r)]
                            out.append(("%s:%s:%s:%s:%s:%s" % (layout, "rel-link" if rellink else "abs-link", spell, via, mt,
                                                              "all-on" if sw == ALL_ON else "defaults"), ops))
    return out


IDENT_PROC = [
    ("dir", "abs", "older", ["releases", "app.xsh"]), ("file", "rel", "equal", ["tool.xsh"]), ("cwd", "rel", "older", ["tool.xsh"]),
]


def selfedit_family(tier):
    """[(label, ops)]: the script changes its own source while it runs - how x layout x entry point x switches."""
    out = []
    i = 0
    names = [["tool.xsh"], ["Dir A", "sub.d", "My_Script.V2.xsh"], ["rc.d", "init_rc.xsh"], ["run.py"], ["noext"]]
    news = ["both", "deep", "raise", "func", "exit", "nonl"]
    for how in ("rewrite", "replace"):
        for layout in (None, "top", "file", "dir", "cwd"):
            for via in ("script", "rc", "import"):
                for sw in (DEFAULTS, ALL_ON):
                    i += 1
                    if tier != "thorough" and i % 2:
                        continue
                    nm = names[(i // 2) % len(names)]
                    r = {"op": "run", "sw": list(sw), "via": via}
                    e = {"op": "edit", "kind": "selfedit", "how": how}
                    ops = [{"op": "init", "path": nm, "layout": layout, "spell": ["abs", "rel", "dotdot"][i % 3], "rellink": bool(i % 2)},
                           dict(e, new=news[i % 6]), dict(r), dict(r), dict(r),             # generation 1 -> 2, then hits
                           dict(e, new=news[(i + 1) % 6]), dict(r, sw=list(ALL_OFF)), dict(r), dict(r),   # changed by an uncached run
                           dict(e, new=news[(i + 2) % 6]), {"op": "touch"}, dict(r), dict(r),
                           {"op": "corrupt", "how": "trunc", "arg": 30}, dict(r),
                           dict(e, how="touch"), dict(r), dict(r)]
                    out.append(("selfedit:%s:%s:%s:%s" % (how, layout or "plain", via, "all-on" if sw == ALL_ON else "defaults"), ops))
    return out


def spelling_family(tier):
    """[(label, ops)]: a cache hit under another spelling of the script's path than the one the entry was written
    under, with bodies that look at the file name of code at every nesting depth."""
    out = []
    i = 0
    pairs = [("script", "script"), ("script", "import"), ("rc", "script"), ("import", "rc"), ("script", "rc"), ("import", "script")]
    orders = [("rel", "abs", "dotdot"), ("abs", "rel", "dotdot"), ("dotdot", "abs", "rel"), ("rel", "dotdot", "abs")]
    for layout in (None, "top", "file", "dir", "cwd"):
        for kind in ("deep", "deepraise", "klass"):
            for v1, v2 in pairs:
                i += 1
                if tier != "thorough" and kind == "klass" and i % 3:
                    continue
                s1, s2, s3 = orders[i % len(orders)]
                ops = [{"op": "init", "path": [["tool.xsh"], ["pkg.d", "Mod_a.xsh"]][i % 2], "layout": layout, "spell": s1,
                        "rellink": bool(i % 2)},
                       {"op": "edit", "kind": kind}, {"op": "run", "sw": list(ALL_ON), "via": v1},
                       {"op": "respell", "spell": s2}, {"op": "run", "sw": list(DEFAULTS), "via": v2},
                       {"op": "respell", "spell": s3}, {"op": "run", "sw": list(ALL_ON), "via": v1},
                       {"op": "run", "sw": list(DEFAULTS), "via": "import"}, {"op": "run", "sw": list(DEFAULTS), "via": v2}]
                out.append(("spelling:%s:%s:%s-%s" % (layout or "plain", kind, v1, v2), ops))
    return out


def proc2_family(tier):
    D = list(DEFAULTS)
    r = {"op": "run", "sw": D}
    fam = [
        ("proc:overlap:plain", [{"op": "init", "path": ["tool.xsh"], "layout": None, "spell": "rel"}, {"op": "edit", "kind": "print"},
                                dict(r), {"op": "overlap", "sw": D, "kind": "both"}]),
        ("proc:selfedit+spelling:plain", [{"op": "init", "path": ["proj", "tool.xsh"], "layout": None, "spell": "rel"},
                                          {"op": "edit", "kind": "selfedit", "how": "replace", "new": "deep"}, dict(r), dict(r),
                                          {"op": "respell", "spell": "abs"}, dict(r),
                                          {"op": "edit", "kind": "deepraise"}, dict(r), {"op": "respell", "spell": "dotdot"}, dict(r)]),
    ]
    if tier == "thorough":
        fam += [
            ("proc:overlap:dir", [{"op": "init", "path": ["app.xsh"], "layout": "dir", "spell": "abs"}, {"op": "edit", "kind": "both"},
                                  dict(r), {"op": "overlap", "sw": D, "kind": "deep"}, {"op": "overlap", "sw": [1, 1, 1, 1], "kind": "print"}]),
            ("proc:selfedit:cwd", [{"op": "init", "path": ["tool.xsh"], "layout": "cwd", "spell": "rel"},
                                   {"op": "edit", "kind": "selfedit", "how": "rewrite", "new": "both"}, dict(r), dict(r), dict(r)]),
        ]
    return fam


def worker_ident(arg):
    which, tier, scratch, open_ids, tabledir = arg
    _setup(scratch, tabledir)
    st = Stats()
    if which == "proc2":
        fam = proc2_family(tier)
        backend = "proc"
    elif which == "dyn":
        fam = selfedit_family(tier) + spelling_family(tier)
        backend = "inproc"
    elif which == "proc":
        fam = []
        for layout, spell, mt, nm in IDENT_PROC[: 3 if tier == "thorough" else 2]:
            r = {"op": "run", "sw": list(DEFAULTS)}
            fam.append(("proc:%s:%s:%s" % (layout, spell, mt),
                        [{"op": "init", "path": nm, "layout": layout, "spell": spell, "rellink": layout == "file"},
                         {"op": "edit", "kind": "both"}, dict(r),
                         {"op": "retarget", "to": 1, "mtime": mt, "kind": "print"}, dict(r),
                         {"op": "retarget", "to": 0, "mtime": "keep"}, dict(r)]))
        backend = "proc"
    else:
        fam = ident_family(tier)
        backend = "inproc"
    seen = set()
    for label, ops in fam:
        f = check_history({"ops": ops, "backend": backend}, open_ids, stats=st)
        st.case(("ident", label), True, ["ident-history:" + backend, "ident:" + label.split(":")[1 if backend == "proc" else 0],
                                         "fixed-history:" + which],
                sample={"family": label, "ops": ops[:6]} if len(seen) < 1 else None, max_per_label=1)
        if f is not None and f.bucket not in seen:
            seen.add(f.bucket)
            if backend == "inproc":
                f = minimize_ops(f, open_ids)
            st.fail(f)
    return st


# ----------------------------------------------------------------------------------------
# the state machine

_ctx = {}


def make_machine(backend):
    from hypothesis import strategies as st
    from hypothesis.stateful import RuleBasedStateMachine, initialize, rule

    exts = st.sampled_from(["", ".xsh", ".xsh", ".xsh", ".py", ".XSH"])
    rnd_name = st.builds(lambda s, e: s + e, st.text(NAME_CHARS, min_size=1, max_size=20), exts)
    names = st.one_of(st.sampled_from(FIXED_NAMES), st.sampled_from(FIXED_NAMES), st.sampled_from(FIXED_NAMES),
                      rnd_name, rnd_name, rnd_name, rnd_name, st.sampled_from(LONG_NAMES)).filter(valid_component)
    dirnames = st.one_of(st.sampled_from(["d", "Dir A", "sub.d", "_x_", "UP", "D" * 130, "é", "a.%s" % CACHE_TAG]),
                         st.text(NAME_CHARS, min_size=1, max_size=8)).filter(valid_component)
    paths = st.builds(lambda d, n: d + [n], st.lists(dirnames, max_size=3), names)
    bit = st.integers(0, 1)
    sws = st.one_of(st.just(ALL_ON), st.just(ALL_ON), st.just(DEFAULTS), st.just(DEFAULTS),
                    st.lists(bit, min_size=4, max_size=4))
    on_sws = st.one_of(st.just(ALL_ON), st.just(ALL_ON), st.just(DEFAULTS), st.lists(bit, min_size=4, max_size=4))
    code_sws = st.one_of(st.just(ALL_ON), st.just(ALL_ON), st.just([1, 1, 1, 0]), st.just([1, 0, 1, 1]),
                         st.lists(bit, min_size=4, max_size=4))
    kinds = st.sampled_from(SCRIPT_KINDS + ["deep", "deep", "deepraise"])
    selfhows = st.sampled_from(["rewrite", "rewrite", "replace", "replace", "touch"])
    newkinds = st.sampled_from(SELFEDIT_NEW_KINDS)
    vias = st.sampled_from(["script", "script", "script", "import", "import", "rc"])
    layouts = st.sampled_from([None, None, "top", "file", "dir", "cwd"])
    spells = st.sampled_from(["abs", "abs", "rel", "dotdot"])
    mtimes = st.sampled_from(["older", "older", "equal", "newer", "keep", "keep"])
    # byte flips: the first bytes of a marshalled code object are its scalar fields, the last ones its line /
    # exception tables; the rest is addressed modulo the length
    offsets = st.one_of(st.integers(0, 24), st.integers(0, 4095), st.integers(0, 4095), st.integers(-80, -1))
    masks = st.one_of(st.sampled_from([1, 2, 4, 8, 16, 32, 64, 128]), st.sampled_from([128, 128, 255, 64]),
                      st.integers(1, 255))
    flips = st.one_of(st.tuples(st.just("flip"), st.tuples(offsets, masks)),
                      st.tuples(st.just("flip"), st.tuples(offsets, masks)),
                      st.tuples(st.just("flip"), st.tuples(offsets, masks)),
                      st.tuples(st.just("hflip"), st.tuples(st.integers(0, 63), masks)))
    ckinds = st.sampled_from(CODE_KINDS + ["print", "expr", "expr", "multi", "nonl"])
    ctoks = st.sampled_from(CODE_TOKS + ["c0", "c0"])
    modes = st.sampled_from(["exec", "exec", "single", "single", "single", "eval"])
    hows = st.one_of(
        st.tuples(st.just("trunc"), st.one_of(st.integers(0, 48), st.integers(0, 400), st.integers(0, 2500))),
        st.tuples(st.just("header"), st.sampled_from(HEADER_VARIANTS)),
        st.tuples(st.just("header"), st.sampled_from(HEADER_VARIANTS)),
        st.tuples(st.just("noncode"), st.sampled_from(sorted(NONCODE_OBJS))),
        st.tuples(st.just("random"), st.binary(max_size=24).map(sanitize).map(bytes.hex)),
        st.tuples(st.just("garbage"), st.binary(max_size=40).map(sanitize).map(bytes.hex)),
        st.tuples(st.just("chmod0"), st.none()),
        st.tuples(st.just("dir"), st.none()),
    )

    class CacheMachine(RuleBasedStateMachine):
        def __init__(self):
            super().__init__()
            self.h = History(_ctx["open_ids"], backend)

        def teardown(self):
            h = self.h
            h.close()
            stats = _ctx["stats"]
            if _ctx.get("failed") or not h.ops:
                return
            stats.case(("history", backend, json.dumps(h.ops, sort_keys=True)), h.nontrivial,
                       ["history:" + backend] + (["history-nontrivial:" + backend] if h.nontrivial else []),
                       sample=({"backend": backend, "ops": h.ops[:12], "of": len(h.ops)} if h.nontrivial else None),
                       max_per_label=2)
            stats.hist["steps:" + backend] += len(h.ops)
            for lab in h.labels:
                stats.hist[lab] += 1
            for fid, n in h.excluded.items():
                stats.excluded_known[fid] += n

        def do(self, *ops):
            try:
                for op in ops:
                    self.h.step(op)
            except Mismatch:
                _ctx["failed"] = True
                raise

        @initialize(p=paths, layout=layouts, spell=spells, rellink=st.booleans(), k=kinds, sw=on_sws, via=vias)
        def start(self, p, layout, spell, rellink, k, sw, via):
            self.do({"op": "init", "path": list(p), "layout": layout, "spell": spell, "rellink": rellink},
                    {"op": "edit", "kind": k}, {"op": "run", "sw": list(sw), "via": via})

        @rule(to=st.integers(0, 2), mt=mtimes, k=kinds, sw=st.one_of(st.none(), on_sws, on_sws, on_sws), via=vias)
        def retarget(self, to, mt, k, sw, via):
            self.do({"op": "retarget", "to": to, "mtime": mt, "kind": k})
            if sw is not None:
                self.do({"op": "run", "sw": list(sw), "via": via})

        @rule(f=flips, sw=on_sws, via=vias)
        def flip_script(self, f, sw, via):
            # a valid, fresh entry first; then one byte of it is damaged
            self.do({"op": "run", "sw": list(ALL_ON), "via": via},
                    {"op": "corrupt", "how": f[0], "arg": list(f[1])}, {"op": "run", "sw": list(sw), "via": via})

        @rule(f=flips, k=ckinds, t=ctoks, m=st.sampled_from(["exec", "single", "single"]), sw=code_sws)
        def flip_code(self, f, k, t, m, sw):
            c = {"op": "code", "kind": k, "tok": t, "mode": m, "sw": list(sw)}
            self.do(dict(c, sw=list(ALL_ON)),
                    {"op": "corrupt", "target": "code", "kind": k, "tok": t, "mode": m, "how": f[0], "arg": list(f[1])},
                    dict(c))

        @rule(how=selfhows, new=newkinds, sw=on_sws, via=vias, sw2=on_sws, via2=vias)
        def selfedit(self, how, new, sw, via, sw2, via2):
            # a body that changes its own source file while it runs; the next run must run what it left
            self.do({"op": "edit", "kind": "selfedit", "how": how, "new": new}, {"op": "run", "sw": list(sw), "via": via},
                    {"op": "run", "sw": list(sw2), "via": via2})

        @rule(spell=st.sampled_from(["abs", "rel", "dotdot"]), sw=on_sws, via=vias)
        def respell(self, spell, sw, via):
            self.do({"op": "respell", "spell": spell}, {"op": "run", "sw": list(sw), "via": via})

        if backend == "proc":
            @rule(k=st.sampled_from(["print", "both", "deep", "exit"]), sw=st.sampled_from([DEFAULTS, DEFAULTS, ALL_ON]))
            def overlap(self, k, sw):
                self.do({"op": "overlap", "sw": list(sw), "kind": k})

        @rule(k=kinds, sw=st.one_of(st.none(), on_sws), via=vias)
        def edit(self, k, sw, via):
            self.do({"op": "edit", "kind": k})
            if sw is not None:
                self.do({"op": "run", "sw": list(sw), "via": via})

        @rule(sw=st.one_of(st.none(), on_sws))
        def touch(self, sw):
            self.do({"op": "touch"})
            if sw is not None:
                self.do({"op": "run", "sw": list(sw)})

        @rule(sw=sws, via=vias)
        def run(self, sw, via):
            self.do({"op": "run", "sw": list(sw), "via": via})

        @rule(k=ckinds, t=ctoks, m=modes, sw=code_sws)
        def code(self, k, t, m, sw):
            self.do({"op": "code", "kind": k, "tok": t, "mode": m, "sw": list(sw)})

        @rule(how=hows, sw=on_sws, via=vias)
        def corrupt_script(self, how, sw, via):
            self.do({"op": "corrupt", "how": how[0], "arg": how[1]}, {"op": "run", "sw": list(sw), "via": via})

        @rule(how=hows, k=ckinds, t=ctoks, m=modes, sw=code_sws, prime=st.sampled_from([True, True, True, False]))
        def corrupt_code(self, how, k, t, m, sw, prime):
            c = {"op": "code", "kind": k, "tok": t, "mode": m, "sw": list(sw)}
            if prime:
                self.do(dict(c, sw=list(ALL_ON), mode="exec" if m == "eval" else m))
            self.do({"op": "corrupt", "target": "code", "kind": k, "tok": t, "mode": m, "how": how[0], "arg": how[1]},
                    dict(c))

    return CacheMachine


def worker_machine(arg):
    backend, seed, n_examples, steps, scratch, open_ids, tabledir = arg
    _setup(scratch, tabledir)
    stats = Stats()
    _ctx.clear()
    _ctx.update(open_ids=set(open_ids), stats=stats, failed=False)
    exc = common.run_machine(make_machine(backend), seed, n_examples, steps, shrink=(backend == "inproc"),
                             shrink_seconds=10)
    f = common.machine_failure(exc, "C19 cache machine (%s)" % backend)
    if f is not None and backend == "proc":
        # child processes are slow: minimise the same history in-process when it fails there too, then
        # confirm the small history with child processes
        g = check_history(dict(f.case, backend="inproc"), open_ids)
        if g is not None:
            g = minimize_ops(g, open_ids)
            p = check_history(dict(g.case, backend="proc"), open_ids)
            stats.fail(p if p is not None else g)
        else:
            g = check_history(f.case, open_ids)
            stats.fail(minimize_ops(g, open_ids) if g is not None else f)
    elif f is not None:
        g = check_history(f.case, open_ids)
        if g is None:
            stats.notes.append("shrunk history did not fail again on replay (kept the original failure): %s"
                               % json.dumps(f.case)[:300])
            stats.fail(f)
        else:
            stats.fail(minimize_ops(g, open_ids))
    if not _state["perm"]:
        stats.notes.append("chmod 000 is not enforced for this process (capabilities could not be dropped): the "
                           "unreadable-entry class was trivial")
    else:
        stats.hist["workers-with-real-permission-checks"] += 1
    return stats


def worker_any(task):
    t0 = _time.time()
    which, arg = task
    fn = {"machine": worker_machine, "trunc": worker_trunc, "inject": worker_inject, "replay": worker_replay,
          "flip": worker_flip, "ident": worker_ident}[which]
    try:
        st = fn(arg)
    finally:
        _clf_stop()
    if isinstance(st, Stats):
        st.hist["worker-seconds:" + which + (":" + arg[0] if which in ("machine", "ident") else "")] += int(_time.time() - t0)
    return st


def check_case(case, open_ids=()):
    if "ops" in case:
        return check_history(case, open_ids)
    return check_pair(case)[0]


def worker_replay(arg):
    cases, scratch, tabledir = arg
    _setup(scratch, tabledir)
    out = []
    for case in cases:
        f = check_case(case)
        out.append(None if f is None else f.to_json())
    return {"results": out, "perm": _state["perm"]}


# ----------------------------------------------------------------------------------------


def _replays_in_worker(run, cases, tabledir):
    d = os.path.join(run.scratch, "replay")
    os.makedirs(d, exist_ok=True)
    res = common.pool_map(run, __name__, "worker_any", [("replay", (cases, d, tabledir))], procs=1)
    if not res[0]["perm"]:
        run.stats.notes.append("replays ran without enforced file permissions")
    return [None if r is None else Failure.from_json(r) for r in res[0]["results"]]


def main(run):
    import glob

    tabledir = prepare_tables(run.scratch)      # also builds the LALR tables once, before any worker needs them
    files = [p for p in sorted(glob.glob(os.path.join(common.REPLAY_DIR, PROP, "*.json")))
             if not os.path.basename(p).startswith("violation-")]
    cases = []
    for p in files:
        with open(p) as f:
            body = json.load(f)
        cases.append(body.get("case", body))
    cache = {}
    if cases:
        for c, r in zip(cases, _replays_in_worker(run, cases, tabledir)):
            cache[json.dumps(c, sort_keys=True)] = r
    common.replay_tier(run, lambda case: cache[json.dumps(case, sort_keys=True)])

    open_ids = sorted(run.known_open)
    quick = run.tier == "quick"
    nprocs = 16
    try:
        nprocs = max(1, min(nprocs, int(os.environ.get("VERIF_PROCS") or nprocs)))
    except ValueError:
        pass
    n_in, n_proc, n_tr, n_fl = (8, 4, 2, 3) if quick else (11, 3, 4, 12)
    per_in = run.n(75, 2500)
    per_proc = run.n(3, 60)
    tasks = []
    # long tasks first
    for w in range(n_proc):
        tasks.append(("machine", ("proc", common.worker_seed(run.seed, 50 + w), per_proc, run.n(6, 9),
                                  os.path.join(run.scratch, "p%d" % w), open_ids, tabledir)))
    for w in range(n_in):
        tasks.append(("machine", ("inproc", common.worker_seed(run.seed, w), per_in, run.n(25, 40),
                                  os.path.join(run.scratch, "m%d" % w), open_ids, tabledir)))
    for s in range(n_fl):
        tasks.append(("flip", (s, n_fl, run.tier, os.path.join(run.scratch, "f%d" % s), open_ids, tabledir)))
    tasks.append(("inject", (common.worker_seed(run.seed, 90), run.n(5000, 100000), os.path.join(run.scratch, "inj"))))
    tasks.append(("ident", ("proc", run.tier, os.path.join(run.scratch, "ip"), open_ids, tabledir)))
    tasks.append(("ident", ("proc2", run.tier, os.path.join(run.scratch, "ip2"), open_ids, tabledir)))
    tasks.append(("ident", ("dyn", run.tier, os.path.join(run.scratch, "id"), open_ids, tabledir)))
    tasks.append(("ident", ("inproc", run.tier, os.path.join(run.scratch, "ii"), open_ids, tabledir)))
    for s in range(n_tr):
        tasks.append(("trunc", (s, n_tr, run.tier, os.path.join(run.scratch, "t%d" % s), open_ids)))
    common.pool_map(run, __name__, "worker_any", tasks, procs=nprocs)

    h = run.stats.hist
    run.extra["steps_executed"] = h.get("steps:inproc", 0) + h.get("steps:proc", 0)
    run.extra["exhaustive_subspace"] = ("every truncation length 0..len of %d cache entries (%d lengths): %s"
                                        % (h.get("trunc-entries", 0), h.get("trunc-length", 0),
                                           ", ".join(b[0] for b in trunc_bases(run.tier))))
    run.extra["byte_damage"] = {
        "enumerated (every offset of %d valid entries, %d body bytes)" % (h.get("flip-entries", 0), h.get("flip-bytes", 0)):
            {k[len("flipped:"):]: v for k, v in sorted(h.items()) if k.startswith("flipped:")},
        "drawn in histories": {k[len("corrupt:"):]: v for k, v in sorted(h.items())
                               if k.startswith(("corrupt:flip", "corrupt:hflip"))},
    }
    run.extra["open_findings_excluded_from_generation"] = open_ids
    if not run.stats.failures:
        def tot(prefix, suffix=""):
            return sum(v for k, v in h.items() if k.startswith(prefix) and k.endswith(suffix))

        floors = [
            ("runs over a stale entry after an edit, cache on", tot("run:stale-after-edit", "cache-on"), 50),
            ("runs over a stale entry after a touch, cache on", tot("run:stale-after-touch", "cache-on"), 10),
            ("runs over a fresh entry, cache on (hits)", tot("run:fresh", "cache-on"), 50),
            ("runs with the cache off over an existing entry", tot("run:stale", "cache-off") + tot("run:fresh", "cache-off")
             + tot("run:corrupt", "cache-off"), 10),
            ("runs over a truncated entry", tot("run:corrupt:trunc", "cache-on"), 10),
            ("runs over a foreign-header entry", tot("run:corrupt:header", "cache-on"), 10),
            ("runs over a garbage entry", tot("run:corrupt:garbage", "cache-on") + tot("run:corrupt:random", "cache-on"), 10),
            ("runs over a directory in place of the entry", tot("run:corrupt:dir", "cache-on"), 3),
            ("code runs over a fresh entry (hits)", tot("code:exec:fresh", "cache-on") + tot("code:single:fresh", "cache-on"), 30),
            ("code runs over a corrupted entry", tot("code:exec:corrupt") + tot("code:single:corrupt"), 10),
            ("runs through the import hook", h.get("via:import", 0), 10),
            ("child-process histories", h.get("history:proc", 0), 2),
            ("truncation lengths", h.get("trunc-length", 0), 500),
            ("path pairs", h.get("pair:paths", 0), 500),
            ("runs after the script's name was re-pointed to a file that is not newer than an existing entry, cache on",
             tot("run-after-retarget:", "not-newer-than-an-entry:cache-on"), 100),
            ("... through a re-pointed directory link", tot("run-after-retarget:dir", "not-newer-than-an-entry:cache-on"), 20),
            ("... through a re-pointed file link", tot("run-after-retarget:file", "not-newer-than-an-entry:cache-on"), 20),
            ("... same relative name from another working directory",
             tot("run-after-retarget:cwd", "not-newer-than-an-entry:cache-on"), 20),
            ("fixed path-identity histories", h.get("fixed-history:inproc", 0), 20),
            ("fixed path-identity histories with child processes", h.get("fixed-history:proc", 0), 2),
            ("fixed self-edit / spelling histories", h.get("fixed-history:dyn", 0), 40),
            ("fixed overlap / self-edit / spelling histories with child processes", h.get("fixed-history:proc2", 0), 2),
            ("runs during which the script rewrote or replaced its own source",
             h.get("source-changed-during-run:rewrite", 0) + h.get("source-changed-during-run:replace", 0), 100),
            ("cache-on runs right after the source changed during a run", tot("run-after-source-changed-during-run:", "cache-on"), 100),
            ("... where the run that changed the source had written an entry (before its edit)",
             h.get("entry-vs-edit-during-run:written-before", 0), 50),
            ("overlapping child runs with an edit in between", tot("overlap:"), 1),
            ("runs under a changed spelling of the script's path", tot("respell:"), 50),
            ("edits to a body that observes the file name at every nesting depth", h.get("edit:deep", 0) + h.get("edit:deepraise", 0), 50),
            ("runs as a run-control file", h.get("via:rc", 0), 10),
            ("script runs over an entry with one damaged byte", tot("run:corrupt:flip", "cache-on"), 100),
            ("code runs over an entry with one damaged byte",
             tot("code:exec:corrupt:flip") + tot("code:single:corrupt:flip"), 50),
            ("runs over an entry with one damaged header byte", tot("run:corrupt:hflip", "cache-on")
             + tot("code:exec:corrupt:hflip") + tot("code:single:corrupt:hflip"), 20),
            ("enumerated single-byte damages", h.get("flip-case", 0), 3000),
            ("damaged bodies that the unmarshaller rejects with SystemError (not one of the documented three)",
             h.get("flipped:exc:SystemError", 0) + h.get("corrupt:flip:exc:SystemError", 0), 20),
            ("damaged bodies that still load as a code object (counted, not run)",
             h.get("flipped:undetectable-damage", 0) + h.get("corrupt:flip:undetectable-damage", 0), 100),
        ]
        if F1 not in open_ids:
            floors.append(("runs over a non-code entry", tot("run:corrupt:noncode", "cache-on"), 5))
        if F2 not in open_ids and h.get("workers-with-real-permission-checks"):
            floors.append(("runs over an unreadable entry", tot("run:corrupt:chmod0", "cache-on"), 3))
        low = ["%s: %d < %d" % f for f in floors if f[1] < f[2]]
        if low:
            raise common.HarnessError("generator incomplete, under the floor: " + "; ".join(low))
    run.assumptions += [
        "edits always give the source a strictly newer mtime than every existing cache entry (logical clock, whole "
        "seconds); replacing the source by different text with an *older or equal* mtime is outside the property",
        "every run starts from the same fresh namespace (xonsh's compilation is context-sensitive; varying the "
        "namespace between the caching and the cached run is outside the property's quantifier); the script's name is "
        "spelled absolute / relative to the working directory / with a `dir/..` detour over a real directory, the "
        "spelling may change between runs (respell), and the import hook always works with the absolute path",
        "a source that changes during a run changes through the running script itself (in-process tiers) or while a "
        "child run waits at a known point (overlap); the edit gets a harness-clock mtime that is newer than every "
        "entry that existed when the run started; an entry (re)written during that run is put before the edit on the "
        "harness clock iff its real mtime is not later than the source's real ctime (a tie counts as before, and the "
        "self-editing body pauses 5 ms after its edit so that a write after the run is not a tie on a file system "
        "with coarse time stamps); a change that lands in the same time-stamp granule as the entry's own write is "
        "outside the property (mtime comparison cannot see it)",
        "the uncached reference is compile_code + run_compiled_code applied to the current text (no cache code "
        "involved); bodies avoid the local variable names of run_script_with_cache, which leak into the compile "
        "context when loc is None",
        "a loadable, well-formed code object of the *right* version that simply is different code (e.g. a flipped "
        "byte inside the bytecode or a constant) is never written nor run: the format has no checksum and the property "
        "does not ask for one. Single-byte damage of a valid entry is classified by marshal.loads in a throw-away child "
        "process of the same Python; only damage a loader can notice (any exception except MemoryError, or a non-code "
        "object) is handed to xonsh; bodies that still load as code are counted as undetectable-damage; bodies that "
        "make CPython's unmarshaller itself die from a signal, hang or run out of a 256 MB address space are discarded",
        "a re-pointed name (symlinked script, symlinked parent directory, or the same relative name from another "
        "working directory) may resolve to a file of any age: older than every entry, exactly as old as the newest "
        "entry, newer, or unchanged; a file that has been seen before never travels back in time, and its text only "
        "changes together with a strictly newer mtime",
        "the run-control entry point is environ.xonsh_script_run_control called directly (what xonshrc_context does per "
        "file); modules are imported through XonshImportHook.find_spec + get_code, not through `import`",
        "corruptions are files or a directory in place of the entry; symbolic links, FIFOs and unwritable parent "
        "directories in the cache tree are not generated",
        "child processes enter through xonsh.main.main() (what `python -m xonsh` calls) with --no-rc, PYTHONPATH=%s "
        "and the LALR tables built from the working tree installed first; a plain `python -m xonsh` would read "
        "xonsh/parser_table.py of the tree instead, which makes no difference to this property" % common.REPO,
        "EACCES is made real by dropping CAP_DAC_OVERRIDE in the worker; child processes run by root regain it, so "
        "the unreadable-entry class is only meaningful in-process",
        "eval mode of run_code_with_cache cannot succeed in this tree (compile_code appends a newline and the eval "
        "grammar then yields a Module): it is exercised, and compared, as an error path only",
    ]


def replay(run, path):
    with open(path) as f:
        d = json.load(f)
    case = d.get("case", d)
    f = _replays_in_worker(run, [case], prepare_tables(run.scratch))[0]
    if f is None:
        print("replay: property holds on this case")
        return 0
    print("VIOLATION property=%s replay=%s kind=%s %s" % (PROP, path, f.kind, common._oneline(f.detail)))
    return 1

#!/usr/bin/env python3
"""Work with independently seeded breaking changes (seeded/<id>/patch.diff + demo + meta.json).

  seeded.py confirm <seeded-dir> [--suite]   apply the patch in a scratch worktree of /repo HEAD, run the demonstration
                                             (must fail), revert (must pass); with --suite also run the repository's
                                             test-suite with the patch and compare with BASELINE stable_pass
  seeded.py check <seeded-dir> [Cxx ...]     run the quick tier of the property's check (default: meta.json 'property')
                                             against the patched worktree through VERIF_REPO; prints exit code and time

  seeded.py check-all [--only-missing] [id ...]  `check` for every seeded/<id>; outcomes recorded in seeded/results.json
  seeded.py meta-refresh                      copy the outcome of confirm.json into the 'confirmed' field of meta.json
  seeded.py rerun-failures <seeded-dir>       re-run alone the stable tests that failed in the loaded full-suite run of confirm --suite
  seeded.py summary                           rewrite the per-property summary table in DESIGN.md section 10
  seeded.py readme                            regenerate seeded/README.md from meta.json + results.json (+ seeded/NOTES.md)
  seeded.py stage <agent-out-dir> Cxx k       copy the agent's patch<k>.diff / demo<k>.py / notes<k>.md to seeded/Cxx-m<k>/

The worktree lives under /var/tmp and is removed afterwards.  /repo itself is never modified."""

import json
import os
import shutil
import subprocess
import sys
import time

VERIF = os.path.dirname(os.path.dirname(os.path.abspath(__file__)))
REPO = "/repo"
PY = "/venv/bin/python"


def sh(cmd, cwd=None, env=None, timeout=None):
    r = subprocess.run(cmd, cwd=cwd, env=env, shell=isinstance(cmd, str), capture_output=True, text=True, timeout=timeout)
    return r.returncode, r.stdout + r.stderr


def worktree(tag, rev="HEAD"):
    wt = "/var/tmp/seed-%s-%d" % (tag, os.getpid())
    sh(["git", "-C", REPO, "worktree", "remove", "--force", wt])
    rc, out = sh(["git", "-C", REPO, "worktree", "add", "--detach", wt, rev])
    if rc != 0:
        raise SystemExit("worktree add failed: " + out)
    return wt


def patched_worktree(d, tag):
    """worktree of /repo HEAD with the patch applied; when a later repair in /repo touched the same lines the patch
    no longer applies there - then the commit recorded in meta.json (applies_to_repo_commit) is used.  -> (wt, rev)"""
    patch = os.path.join(os.path.abspath(d), "patch.diff")
    revs = ["HEAD"]
    mp = os.path.join(d, "meta.json")
    if os.path.exists(mp):
        m = json.load(open(mp))
        c = m.get("applies_to_repo_commit")
        if c:
            revs.append(c)
        if m.get("pin_repo_commit"):
            # a later repair in /repo made this change harmless (it still applies, but no longer breaks the property):
            # it is only meaningful on the tree it was written for
            revs = [m["pin_repo_commit"]]
    for rev in revs:
        wt = worktree(tag, rev)
        rc, out = sh(["git", "apply", patch], cwd=wt)
        if rc == 0:
            return wt, rev
        remove(wt)
    raise SystemExit("patch does not apply: " + out)


def remove(wt):
    sh(["git", "-C", REPO, "worktree", "remove", "--force", wt])
    shutil.rmtree(wt, ignore_errors=True)


def warm(wt, env):
    """A fresh worktree has neither the generated parser tables (git-ignored build products: the children that the
    integration tests start would all write them at the same time and read each other's half-written files) nor byte-code
    files (every xonsh child would compile all modules first and miss the tests' 5-second deadlines)."""
    e = dict(env, PYTHONPATH=wt)
    sh([PY, "-c", "from xonsh.parser import Parser; Parser().parse(\"1\\n\"); "
                  "from xonsh.parsers.completion_context import CompletionContextParser; CompletionContextParser()"], cwd=wt, env=e)
    sh([PY, "-m", "compileall", "-q", "xonsh"], cwd=wt, env=e)


def find_demo(d):
    for n in sorted(os.listdir(d)):
        if n.startswith(("demo", "test_demo")) and n.endswith(".py"):
            return n
    raise SystemExit("no demo in " + d)


def run_demo(d, wt):
    demo = find_demo(d)
    shutil.copy(os.path.join(d, demo), os.path.join(wt, demo))
    env = dict(os.environ, PYTHONPATH=wt, PYTHONDONTWRITEBYTECODE="1", HOME="/var/tmp", XONSH_DATA_DIR="/var/tmp/seed-xdg",
               XONSH_CACHE_DIR="/var/tmp/seed-xdg")
    env.pop("XONSH_XONSH_VERIF", None)
    if demo.startswith("test_"):
        cmd = [PY, "-m", "pytest", "-q", "-p", "no:cacheprovider", demo]
    else:
        cmd = [PY, demo]
    try:
        rc, out = sh(cmd, cwd=wt, env=env, timeout=900)
    except subprocess.TimeoutExpired:
        rc, out = 124, "timeout"
    os.unlink(os.path.join(wt, demo))
    return rc, out


def confirm(d, suite):
    tag = os.path.basename(os.path.normpath(d))
    wt, rev = patched_worktree(d, tag)
    res = {"repo_rev": rev}
    try:
        patch = os.path.join(os.path.abspath(d), "patch.diff")
        sh(["git", "apply", "-R", patch], cwd=wt)
        rc0, out0 = run_demo(d, wt)
        res["demo_unpatched_rc"] = rc0
        rc, out = sh(["git", "apply", patch], cwd=wt)
        if rc != 0:
            raise SystemExit("patch does not apply: " + out)
        # a grammar change needs fresh tables in the worktree
        rc, changed = sh(["git", "diff", "--name-only"], cwd=wt)
        res["files"] = changed.split()
        rc1, out1 = run_demo(d, wt)
        res["demo_patched_rc"] = rc1
        res["demo_patched_tail"] = out1[-600:]
        if suite:
            junit = "/var/tmp/seed-%s-junit.xml" % tag
            env = dict(os.environ)
            env.pop("XONSH_XONSH_VERIF", None)
            warm(wt, env)
            sh([PY, "-m", "pytest", "-q", "-p", "no:cacheprovider", "--timeout=900", "--continue-on-collection-errors", "-n", "4",
                "--junitxml=" + junit], cwd=wt, env=env, timeout=3600)
            rc, out = sh([sys.executable, os.path.join(VERIF, "tools", "baseline_diff.py"), junit])
            res["suite"] = out.strip().splitlines()[:12]
            res["suite_ok"] = rc == 0
            try:
                os.unlink(junit)
            except OSError:
                pass
    finally:
        remove(wt)
    res["confirmed"] = res.get("demo_unpatched_rc") == 0 and res.get("demo_patched_rc", 0) != 0 and res.get("suite_ok", True)
    print(json.dumps(res, indent=1))
    return 0 if res["confirmed"] else 1


def check(d, props):
    tag = os.path.basename(os.path.normpath(d))
    meta = {}
    mp = os.path.join(d, "meta.json")
    if os.path.exists(mp):
        meta = json.load(open(mp))
    props = props or [meta.get("property")]
    wt, rev = patched_worktree(d, tag + "-chk")
    out_rows = []
    try:
        for p in props:
            env = dict(os.environ, VERIF_REPO=wt)
            # the evidence file must describe the unchanged tree: keep it and put it back afterwards
            ev = os.path.join(VERIF, "evidence", p + ".json")
            saved = open(ev).read() if os.path.exists(ev) else None
            t0 = time.time()
            try:
                rc, out = sh([PY, os.path.join(VERIF, "run.py"), p, "--tier", "quick"], cwd=VERIF, env=env, timeout=3600)
            except subprocess.TimeoutExpired:
                rc, out = 124, "timeout"
            viol = [ln for ln in out.splitlines() if ln.startswith("VIOLATION")]
            out_rows.append({"property": p, "exit": rc, "wall_s": round(time.time() - t0, 1), "violations": len(viol),
                             "first": viol[0][:300] if viol else out.strip().splitlines()[-1][:300] if out.strip() else "",
                             "repo_rev": rev})
            # violation replay files written by this run belong to the mutant, not to the tree
            sh("rm -f %s/replays/%s/violation-*.json" % (VERIF, p))
            if saved is not None:
                open(ev, "w").write(saved)
    finally:
        remove(wt)
    print(json.dumps(out_rows, indent=1))
    return 0


def check_all(only_missing, ids):
    """run `check` for every seeded/<id> and record the outcome in seeded/results.json (one entry per id)"""
    import io
    import contextlib

    rp = os.path.join(VERIF, "seeded", "results.json")
    res = json.load(open(rp)) if os.path.exists(rp) else {}
    rc, head = sh(["git", "-C", VERIF, "rev-parse", "--short", "HEAD"])
    for name in sorted(os.listdir(os.path.join(VERIF, "seeded"))):
        d = os.path.join(VERIF, "seeded", name)
        if not os.path.exists(os.path.join(d, "patch.diff")):
            continue
        if ids and name not in ids:
            continue
        if only_missing and name in res:
            continue
        buf = io.StringIO()
        with contextlib.redirect_stdout(buf):
            check(d, [])
        rows = json.loads(buf.getvalue())
        res[name] = {"check": rows[0]["property"], "caught": rows[0]["exit"] == 1, "exit": rows[0]["exit"], "wall_s": rows[0]["wall_s"],
                     "violations": rows[0]["violations"], "first": rows[0]["first"], "verif_commit": head.strip(),
                     "repo_rev": rows[0].get("repo_rev", "HEAD")}
        print(name, "caught" if res[name]["caught"] else "MISSED (exit %s)" % rows[0]["exit"], rows[0]["wall_s"], flush=True)
        # several check-all runs may work on different ids at the same time: merge under a lock
        import fcntl

        with open(rp + ".lock", "w") as lk:
            fcntl.flock(lk, fcntl.LOCK_EX)
            cur = json.load(open(rp)) if os.path.exists(rp) else {}
            cur[name] = res[name]
            with open(rp, "w") as f:
                json.dump(cur, f, indent=1, sort_keys=True)
            res = cur
    return 0


def readme():
    """write seeded/README.md from the meta.json files and results.json"""
    rp = os.path.join(VERIF, "seeded", "results.json")
    res = json.load(open(rp)) if os.path.exists(rp) else {}
    lines = ["# Independently seeded breaking changes", "",
             "Each directory holds one change to xonsh written by an agent that saw only the text of one property and a scratch",
             "worktree (nothing from /verif): `patch.diff`, the author's demonstration (`demo.py`: exit 0 on the unchanged tree,",
             "non-zero with the patch), `notes.md`, and `meta.json` (property, what it needs to manifest, how it was confirmed).",
             "None of them is ever applied to /repo: `tools/seeded.py confirm <dir> [--suite]` and `tools/seeded.py check <dir>` work in a",
             "scratch worktree under /var/tmp and point the check at it with `VERIF_REPO`.", "",
             "`results.json` is written by `tools/seeded.py check-all` (quick tier, seed 1, of the property's own check against the patched tree).", "",
             "| id | what the change does | needs | quick tier of the property's check | wall |", "|---|---|---|---|---|"]
    for name in sorted(os.listdir(os.path.join(VERIF, "seeded"))):
        mp = os.path.join(VERIF, "seeded", name, "meta.json")
        if not os.path.exists(mp):
            continue
        m = json.load(open(mp))
        r = res.get(name)
        verdict = "not run" if r is None else ("**caught** (%d VIOLATION lines)" % r["violations"] if r["caught"] else "MISSED (exit %s)" % r["exit"])
        cell = lambda t: (t or "").replace("|", "\\|").replace("\n", " ")  # noqa: E731
        lines.append("| %s | %s | %s | %s | %s |" % (name, cell(m.get("what")), cell(m.get("needs")), verdict, "%.0f s" % r["wall_s"] if r else ""))
    extra = os.path.join(VERIF, "seeded", "NOTES.md")
    if os.path.exists(extra):
        lines += ["", open(extra).read().rstrip()]
    with open(os.path.join(VERIF, "seeded", "README.md"), "w") as f:
        f.write("\n".join(lines) + "\n")
    return 0


def meta_refresh():
    """rewrite the 'confirmed' field of every meta.json from its confirm.json (when that holds a suite result)"""
    for name in sorted(os.listdir(os.path.join(VERIF, "seeded"))):
        d = os.path.join(VERIF, "seeded", name)
        mp, cp = os.path.join(d, "meta.json"), os.path.join(d, "confirm.json")
        if not (os.path.exists(mp) and os.path.exists(cp)):
            continue
        try:
            c = json.load(open(cp))
        except ValueError:
            continue
        m = json.load(open(mp))
        txt = "tools/seeded.py confirm%s (repo %s): demo exits %s unpatched, %s patched" % (
            " --suite" if "suite_ok" in c else "", c.get("repo_rev", "HEAD"), c.get("demo_unpatched_rc"), c.get("demo_patched_rc"))
        if "suite_ok" in c:
            txt += "; repository test-suite with the patch: %s (%s)" % ("no stable test lost" if c["suite_ok"] else "LOSES STABLE TESTS",
                                                                        (c.get("suite") or [""])[0])
        m["confirmed"] = txt
        with open(mp, "w") as f:
            json.dump(m, f, indent=1)
        print(name, txt[:150])
    return 0


def summary():
    """rewrite the seeded summary of DESIGN.md (between the markers <!-- seeded-summary:begin/end -->) from results.json"""
    import re

    rp = os.path.join(VERIF, "seeded", "results.json")
    res = json.load(open(rp)) if os.path.exists(rp) else {}
    props = {}
    for name in sorted(os.listdir(os.path.join(VERIF, "seeded"))):
        if not os.path.exists(os.path.join(VERIF, "seeded", name, "patch.diff")):
            continue
        props.setdefault(name.split("-")[0], []).append(name)
    lines = ["| Prop | caught by the property's quick tier | not caught | wall (s) |", "|---|---|---|---|"]
    tot = [0, 0]
    for p in sorted(props):
        c = [n for n in props[p] if res.get(n, {}).get("caught")]
        m = [n for n in props[p] if n in res and not res[n]["caught"]]
        nr = [n for n in props[p] if n not in res]
        tot[0] += len(c)
        tot[1] += len(m)
        walls = [res[n]["wall_s"] for n in c]
        lines.append("| %s | %s | %s | %s |" % (p, ", ".join(n.split("-")[1] for n in c) or "-",
                                              ", ".join(n.split("-")[1] for n in m + ["%s (not run)" % x for x in nr]) or "-",
                                              "%.0f-%.0f" % (min(walls), max(walls)) if walls else ""))
    lines.append("| all | %d | %d | |" % tuple(tot))
    path = os.path.join(VERIF, "DESIGN.md")
    s = open(path).read()
    new = "<!-- seeded-summary:begin -->\n" + "\n".join(lines) + "\n<!-- seeded-summary:end -->"
    s = re.sub(r"<!-- seeded-summary:begin -->.*?<!-- seeded-summary:end -->", lambda m: new, s, flags=re.S)
    open(path, "w").write(s)
    print("caught %d, missed %d" % tuple(tot))
    return 0


def rerun_failures(d):
    """The suite ran under load: tests of BASELINE stable_pass that did not pass in the full run are run again alone, in
    a fresh patched worktree; confirm.json is updated (suite_ok = all of them pass alone)."""
    cp = os.path.join(d, "confirm.json")
    c = json.load(open(cp))
    if c.get("suite_ok") is not False:
        print(d, "nothing to re-run")
        return 0
    tests = []
    for ln in c.get("suite_full") or c.get("suite") or []:
        ln = ln.strip()
        if ln.startswith("failure ") or ln.startswith("missing ") or ln.startswith("error "):
            tid = ln.split(" ", 1)[1]
            mod, _, rest = tid.partition("::")
            tests.append(mod.replace(".", "/") + ".py::" + rest)
    if not tests:
        print(d, "no test ids recorded")
        return 1
    tag = os.path.basename(os.path.normpath(d))
    wt, rev = patched_worktree(d, tag + "-rr")
    try:
        env = dict(os.environ)
        env.pop("XONSH_XONSH_VERIF", None)
        # a fresh worktree has no byte-code files: every xonsh child of the integration tests would compile all modules first
        # and miss the tests' 5-second deadlines
        warm(wt, env)
        junit = "/var/tmp/seed-%s-rr.xml" % tag
        sh([PY, "-m", "pytest", "-q", "-p", "no:cacheprovider", "--timeout=900", "--junitxml=" + junit] + tests, cwd=wt, env=env, timeout=3600)
        import xml.etree.ElementTree as ET

        bad = []
        n = 0
        for tc in ET.parse(junit).getroot().iter("testcase"):
            n += 1
            if any(ch.tag in ("failure", "error") for ch in tc):
                bad.append(tc.get("classname", "") + "::" + tc.get("name", ""))
        os.unlink(junit)
    finally:
        remove(wt)
    c["suite_rerun_alone"] = {"tests": len(tests), "ran": n, "still_failing": bad}
    if n >= len(tests) and not bad:
        c["suite_ok"] = True
        c["suite"] = [c["suite"][0] + " in the full run under load; all of them pass when re-run alone with the patch"] + c["suite"][1:]
    c["confirmed"] = c.get("demo_unpatched_rc") == 0 and c.get("demo_patched_rc", 0) != 0 and c.get("suite_ok", True)
    with open(cp, "w") as f:
        json.dump(c, f, indent=1)
    print(d, "suite_ok" if c["suite_ok"] else "STILL FAILING %r" % bad)
    return 0


def stage(src, prop, k):
    """copy <src>/patch<k>.diff, demo<k>.py, notes<k>.md to seeded/<prop>-m<k>/"""
    d = os.path.join(VERIF, "seeded", "%s-m%s" % (prop, k))
    os.makedirs(d, exist_ok=True)
    shutil.copy(os.path.join(src, "patch%s.diff" % k), os.path.join(d, "patch.diff"))
    shutil.copy(os.path.join(src, "demo%s.py" % k), os.path.join(d, "demo.py"))
    if os.path.exists(os.path.join(src, "notes%s.md" % k)):
        shutil.copy(os.path.join(src, "notes%s.md" % k), os.path.join(d, "notes.md"))
    rc, head = sh(["git", "-C", REPO, "rev-parse", "--short", "HEAD"])
    meta = {"property": prop, "id": "%s-m%s" % (prop, k), "source": "independent agent (property text + scratch worktree only)",
            "applies_to_repo_commit": head.strip()}
    with open(os.path.join(d, "meta.json"), "w") as f:
        json.dump(meta, f, indent=1)
    print(d)
    return 0


if __name__ == "__main__":
    if len(sys.argv) < 2:
        raise SystemExit(__doc__)
    if sys.argv[1] == "check-all":
        sys.exit(check_all("--only-missing" in sys.argv, [a for a in sys.argv[2:] if not a.startswith("-")]))
    if sys.argv[1] == "rerun-failures":
        sys.exit(rerun_failures(sys.argv[2]))
    if sys.argv[1] == "summary":
        sys.exit(summary())
    if sys.argv[1] == "meta-refresh":
        sys.exit(meta_refresh())
    if sys.argv[1] == "readme":
        sys.exit(readme())
    if sys.argv[1] == "stage":
        sys.exit(stage(sys.argv[2], sys.argv[3], sys.argv[4]))
    if sys.argv[1] == "confirm":
        sys.exit(confirm(sys.argv[2], "--suite" in sys.argv))
    if sys.argv[1] == "check":
        sys.exit(check(sys.argv[2], [a for a in sys.argv[3:] if not a.startswith("-")]))
    raise SystemExit(__doc__)

"""C07 - redirections and pipes deliver each stream to exactly the documented place.

Generator : (1) PRODUCT - the complete documented spelling table ({"",o,out,1} x {>,>>}, {e,err,2} x {>,>>},
            {a,all,&} x {>,>>}, the 12 err->out merges, the 12 out->err merges, a>p/all>p, e>p/err>p/2>p, `<` in
            suffix and prefix form) x stage kind {external helper `vtag`, threaded callable alias, @unthreadable
            callable alias (single stage only)} x position {only, first, middle, last} x neighbour kind x
            $THREAD_SUBPROCS x capture form {bare, ![ ], $[ ], $( ), !( )} x target state {missing, existing,
            in a missing directory, read-only}, and every ordered PAIR of the 11 operator classes on one stage
            x kind x position x capture form.  Enumerated completely in the thorough tier, a seeded sample in
            quick.  (2) GENERATED - Hypothesis-drawn pipelines of 1-3 stages with 0-3 redirects per stage
            (a "compatible" mode that fills each of stdin/stdout/stderr at most once, and a free, mostly
            conflicting mode), whitespace variants (`> f`, `>f`, `>  f`, tab), targets written plain / quoted /
            @() / $VAR / "$VAR", target names that are operator parts (`p`, `out`, `2` ...), plus a fixed list of
            malformed operators x kind x capture form.  (3) ALIAS BODIES AND STAGE DECORATIONS (round 2) - what a stage
            *is*: besides the external helper and callable aliases that write to their stream arguments, ExecAliases
            (`a && b`, `a; b`, `a | b`, alias-calling-alias, alias-calling-alias-that-runs-a-program), a callable alias
            written in xonsh whose body emits through any sequence of stdout.write / print() / bare command /
            `![...]` / execx() / nested alias (`cb TAG wpchxnm`), its @unthreadable twin (`ub`), and a slow alias that
            still writes after the downstream stage has finished (`sl`); a stage that ignores its stdin (`... | true`);
            stage decorations: one or two `$VAR=value` prefixes on any stage, `@thread` / `@unthread` /
            `@error_ignore` decorator aliases.  Product of 13 body variants x 17 routings (none, >, >>, e>, e>>, a>, a>>,
            e>o, o>e, a>p, e>p, two-file, file+e>p, file+merge, <) x 7 decorations x 7 (position, neighbour) x 5 capture
            forms (complete in thorough, 5.5 % in quick), and the same dimensions drawn freely in part (2).  File
            targets glued to the operator whose name begins with an operator part (`2>out.txt`, `a>path`).
Oracle    : a routing model written from docs/tutorial.rst "Input/Output Redirection" (not from specs.py):
            stage i writes `O<i>` to stdout and `E<i>` to stderr, stages that read stdin echo every line as
            `I<i>:<line>`.  After the run every tagged line must be found exactly once, and only, in the place the
            operators say: target file (`>` truncated, `>>` previous content kept in front), the next stage's
            stdin (visible through the echo), the capture value ($() string, !().out / .err) or the terminal.
            Conflicts / malformed operators / unopenable targets must raise XonshError or SyntaxError and deliver
            nothing; `>>`/`<` targets and unrelated files must keep their content (see STRICT_UNTOUCHED for
            created-empty / truncated `>` targets).  All spellings of one operator must give the same observation
            (metamorphic, compared inside each product group).  Where the tutorial leaves two readings open both
            are accepted (see model()).  A failure is reported only when it reproduces on re-execution; the exact
            symptoms of recorded findings are predicted by the model (defects=...) and attributed narrowly.
            Everything an alias body emits carries its own tag (O<stage><emitter letter>) and must follow the stage's
            routing (docs/callable_aliases.rst "Capturing and Stream Redirection"); decorations never change routing,
            @thread / @unthread only decide whether an alias may stand in a pipeline.  Stages upstream of a stage that
            ignores its stdin may be cut short by SIGPIPE / EPIPE: their lines may be missing, never misplaced.
Terminal  : "the terminal" is file descriptor 1 (stdout) and 2 (stderr) of the xonsh process.  Around every
            execution two O_APPEND temp files are dup2'ed onto fds 1 and 2 and sys.stdout / sys.stderr are
            replaced by write-through text wrappers over those same fds, so output of real children (inherited
            fds), of aliases (Python streams) and of xonsh's own tee of captured output all land in the same
            two files.  fd 0 is /dev/null.
Hang bound: 10 s per execution (typical 3-15 ms) until the command has returned, SIGALRM re-armed every 2 s,
            BaseException subclass; a hang is a recorded failure; after 6 hangs a worker stops (its process is full
            of stuck threads) and counts the rest of its share as inconclusive.  Threads the command leaves behind
            are waited for separately (5 s for all of them, noted as 'thread-left-behind', the subject of C09).
Reproduce : an unattributed failure is re-executed twice in the worker; the first three distinct symptoms of every
            worker part - and every symptom in a worker that carries a thread left behind by an earlier case - must
            also fail in a fresh interpreter (a worker runs thousands of lines in one process; leftovers of an earlier
            line can keep xonsh's shared sys.stdout swap open, hold pipes or close descriptor numbers in use again);
            a hang must repeat in two fresh interpreters.  What does not reproduce is counted as inconclusive.
"""

from __future__ import annotations

import io
import itertools
import json
import os
import re
import shutil
import signal
import sys
from collections import Counter

from vlib import common, helpers
from vlib.common import Failure, Stats

PROP = "C07"
LEVEL = "exploration"
HOOKS = False
RULE = ("(1) product: documented redirect spelling x stage kind (external / threaded alias / unthreadable alias) x pipeline "
        "position x neighbour kind x $THREAD_SUBPROCS x capture form x target state, and every ordered pair of operator classes on "
        "one stage x kind x position x capture form; complete in thorough, seeded sample in quick; (2) generated pipelines of 1-3 "
        "stages with 0-3 redirects per stage, whitespace and target-form variants, malformed operators; (3) product: alias-body "
        "stage (ExecAlias && / ; / | / alias-in-alias, callable alias emitting by write / print / command / ![ ] / execx / nested "
        "alias, @unthreadable twin, slow alias) x routing x decoration ($VAR=value prefixes, @thread / @unthread / @error_ignore) x "
        "position x neighbour x capture form; the same stage kinds and decorations are drawn in (2); every case has >= 1 redirect, "
        "pipe, capture or alias body, non-trivial = every case; distinct = hash of the case (rendered source + configuration)")

HANG_S = 10
FRESH_CONFIRMATIONS = 3
MAX_HANGS = 6          # per worker; afterwards the worker's remaining cases are counted as inconclusive
# A rejected command (conflict / unopenable target) must never have *delivered* anything.  Whether it may already have
# created an (empty) write target or truncated a `>` target it was asked to overwrite is not stated by the property text
# ("reported as errors rather than silently misrouted") nor by the tutorial; DESIGN.md section 2 asked for "all targets
# untouched", which xonsh does not do (targets are opened left to right before the conflict is seen).  With False the
# oracle only demands: nothing delivered, `>>`/`<` targets and unrelated files keep their content; the number of
# created/truncated targets is reported in the histogram ("rejected:target-created-or-truncated").
STRICT_UNTOUCHED = False

OUT_NAMES = ("", "o", "out", "1")
ERR_NAMES = ("e", "err", "2")
ALL_NAMES = ("a", "all", "&")
CAPS = ("bare", "hidden", "uncap", "stdout", "object")
STATES = ("missing", "existing", "nodir", "readonly")
CMD = {"ext": "vtag", "thr": "atag", "unt": "utag", "cb": "cb", "ub": "ub", "sl": "sl",
       "xand": "xand", "xseq": "xseq", "xpipe": "xpipe", "xali": "xali", "xnest": "xnest"}
# Stage kinds whose *body* produces the output (strengthening round 2).  ExecAliases (string aliases that need the
# execer): the stage's stdout/stderr is whatever the commands inside write.
EXEC_ALIASES = {
    "xand": 'vtag @($arg0+"a") && vtag @($arg0+"b")',
    "xseq": 'vtag @($arg0+"a"); vtag @($arg0+"b")',
    "xpipe": 'vtag @($arg0+"a") | vtag @($arg0+"b") in',
    "xali": 'atag @($arg0+"a") && vtag @($arg0+"b")',          # an alias that calls another alias, then a program
    "xnest": 'cbi @($arg0+"n") cp',                              # an alias that calls an alias that runs a program
}
X_KINDS = frozenset(EXEC_ALIASES)
# `cb TAG EMITTERS [in]` (threadable) / `ub ...` (@unthreadable): a callable alias written in xonsh whose body emits
# O<TAG><letter> on its stdout and E<TAG><letter> on its stderr once per letter of EMITTERS:
#   w  stdout.write / stderr.write (the stream arguments)      p  print() / print(file=sys.stderr)
#   c  a bare subprocess command `vtag ...`                    h  `![vtag ...]`
#   x  execx("vtag ...")                                       n  another callable alias (`atag ...`)
#   m  another alias whose body runs a program (`cbi ... c`, emits O<TAG>mc / E<TAG>mc)
# `sl TAG [in]`: threaded alias that writes O<TAG>, sleeps SLOW_S, then writes E<TAG> (output after the downstream
# stage may have finished); it survives a closed stdout pipe.
EMITTERS = "wpchxnm"
PY_CLASSES = frozenset("wpnq")      # delivered through the alias' Python-level streams (q = print() in a nested alias)
BODY_KINDS = ("cb", "ub", "sl") + tuple(sorted(X_KINDS))
UNTHREADABLE_KINDS = ("unt", "ub")
DECOS = ("@thread", "@unthread", "@error_ignore")
SLOW_S = 0.2
BODY_SRC = r'''
import sys as _sys
def _c07_body(args, stdin=None, stdout=None, stderr=None):
    t = args[0]
    em = args[1] if len(args) > 1 else "w"
    if len(args) > 2 and stdin is not None:
        for line in stdin:
            if not line.endswith("\n"):
                line += "\n"
            stdout.write("I%s:%s" % (t, line))
        stdout.flush()
    for L in em:
        if L == "w":
            stdout.write("O%sw\n" % t)
            stdout.flush()
            stderr.write("E%sw\n" % t)
            stderr.flush()
        elif L == "p":
            print("O%sp" % t, flush=True)
            print("E%sp" % t, file=_sys.stderr, flush=True)
        elif L == "c":
            vtag @(t + "c")
        elif L == "h":
            ![vtag @(t + "h")]
        elif L == "x":
            execx("vtag %sx" % t)
        elif L == "n":
            atag @(t + "n")
        elif L == "m":
            cbi @(t + "m") c
    return 0
def _c07_ubody(args, stdin=None, stdout=None, stderr=None):
    return _c07_body(args, stdin, stdout, stderr)
'''


def spelling_table():
    """spelling -> semantic operator, written out from the tutorial's table by construction."""
    t = {}
    for m, mode in ((">", "w"), (">>", "a")):
        for n in OUT_NAMES:
            t[n + m] = ("out", mode)
        for n in ERR_NAMES:
            t[n + m] = ("err", mode)
        for n in ALL_NAMES:
            t[n + m] = ("all", mode)
    for e in ERR_NAMES:
        for o in ("out", "o", "1", "&1"):
            t[e + ">" + o] = ("e2o",)
    for o in ("out", "o", "1"):
        for e in ("err", "e", "2", "&2"):
            t[o + ">" + e] = ("o2e",)
    for a in ("a", "all"):
        t[a + ">p"] = ("a2p",)
    for e in ERR_NAMES:
        t[e + ">p"] = ("e2p",)
    t["<"] = ("in",)
    return t


TABLE = spelling_table()
SEMGROUPS = {}
for _sp, _sem in TABLE.items():
    SEMGROUPS.setdefault(_sem, []).append(_sp)
NO_TARGET = {("e2o",), ("o2e",), ("a2p",), ("e2p",)}

MALFORMED = [
    # operator without a target, doubled operators, unsupported file descriptors: nothing here can be read as
    # "argument + well-formed redirect" (`o>p` = `o> p`, `p> f` = argument p + `> f` ... are therefore NOT in the list)
    ">", ">>", "e>", "2>>", "all>", "&>", "<", "> t0.txt >", "> t0.txt e>", "> > t0.txt", ">>> t0.txt", "e>>> t0.txt",
    "e> > t0.txt", "1>&3", "2>&3", "2>&", "< < t0.txt",
]

_state = {}


class _Timeout(BaseException):
    """BaseException and re-armed, so neither `except Exception` nor a retry loop in xonsh can swallow it."""


def _alarm(signum, frame):
    raise _Timeout()


# ----------------------------------------------------------------------------------------
# rendering a case to source text


def target_text(t, idx):
    name, form = t["name"], t.get("form", "plain")
    if form == "plain":
        return name
    if form == "squote":
        return "'" + name + "'"
    if form == "dquote":
        return '"' + name + '"'
    if form == "at":
        return "@(%r)" % name
    if form == "atvar":
        return "@(TV%d)" % idx
    if form == "var":
        return "$TGT%d" % idx
    if form == "dvar":
        return '"$TGT%d"' % idx
    raise common.HarnessError("bad target form %r" % form)


def iter_redirs(case):
    k = 0
    for i, st in enumerate(case["stages"]):
        for r in st.get("redirs", []):
            yield i, k, r
            k += 1


def _drains(st):
    """Does the stage consume its stdin (to EOF) when it is given one?"""
    return st["kind"] not in X_KINDS and not st.get("noread")


def stage_words(st, i, reads):
    kind = st["kind"]
    words = [CMD[kind], str(i)]
    if kind in ("cb", "ub"):
        words.append(st.get("em") or "w")
    if reads and _drains(st):
        words.append("in")
    return words


def render(case):
    parts = []
    k = 0
    for i, st in enumerate(case["stages"]):
        reads = i > 0 or any(TABLE.get(r["op"]) == ("in",) for r in st.get("redirs", []))
        words = stage_words(st, i, reads)
        # decorations: `$VAR=value` prefixes come first, then a decorator alias, then the command (with its redirects)
        deco = ["$%s=%s" % (nm, val) for nm, val in st.get("envs", [])] + ([st["deco"]] if st.get("deco") else [])
        pre, post = [], []
        for r in st.get("redirs", []):
            if r.get("raw") is not None:
                txt = r["raw"]
            elif r.get("tgt") is None:
                txt = r["op"]
            else:
                txt = r["op"] + r.get("sp", " ") + target_text(r["tgt"], k)
            (pre if r.get("prefix") else post).append(txt)
            k += 1
        parts.append(" ".join(deco + pre + words + post))
    line = " | ".join(parts)
    cap = case["cap"]
    if cap == "bare":
        return line + "\n"
    if cap == "hidden":
        return "![" + line + "]\n"
    if cap == "uncap":
        return "$[" + line + "]\n"
    if cap == "stdout":
        return "r = $(" + line + ")\n"
    if cap == "object":
        return "r = !(" + line + ")\n"
    raise common.HarnessError("bad capture form %r" % cap)


def init_lines(k, t):
    if t["state"] in ("existing", "readonly"):
        return ["P%da" % k, "P%db" % k]
    return None


# ----------------------------------------------------------------------------------------
# the model (docs/tutorial.rst "Input/Output Redirection")


class Undefined(Exception):
    """The documentation gives the combination no meaning (circular merges); not generated."""


def _kinfo(st, ts):
    """-> (is a callable alias, runs threaded).  `@thread` / `@unthread` override the alias' own marking and
    $THREAD_SUBPROCS for one invocation (docs/callable_aliases.rst "Threading")."""
    if st["kind"] == "ext":
        return False, None
    deco = st.get("deco")
    if deco == "@thread":
        return True, True
    if deco == "@unthread":
        return True, False
    return True, bool(ts) and st["kind"] not in UNTHREADABLE_KINDS


def _unthreaded_last(st, ts):
    """shape of C07-F3: the stage is not run through a thread (alias: see _kinfo; program: @unthread, or
    $THREAD_SUBPROCS off without @thread)"""
    alias, threaded = _kinfo(st, ts)
    if alias:
        return not threaded
    return st.get("deco") == "@unthread" or (not ts and st.get("deco") != "@thread")


def stage_emits(st, i, in_lines):
    """What stage i writes: [(stream "o"/"e", line, emitter class, emitter ordinal)].  Classes: proc = an external
    program's own fds, w/p/n/q = Python-level streams of an alias (q = print() inside a nested alias), c/h/x/m = commands
    run inside an alias body, cn = the stderr of a non-last command of a pipeline inside an alias body.  The ordinal counts the emitters of the body in the
    order they run (-1 = the echo of stdin, which precedes them)."""
    kind, t = st["kind"], str(i)
    if kind == "ext":
        return [("o", "I%s:%s" % (t, ln), "proc", -1) for ln in in_lines] + [("o", "O" + t, "proc", 0), ("e", "E" + t, "proc", 0)]
    out = [("o", "I%s:%s" % (t, ln), "w", -1) for ln in in_lines]
    if kind in ("thr", "unt", "sl"):
        return out + [("o", "O" + t, "w", 0), ("e", "E" + t, "w", 0)]
    if kind in ("cb", "ub"):
        for j, L in enumerate(st.get("em") or "w"):
            tag = t + ("mc" if L == "m" else L)
            out += [("o", "O" + tag, L, j), ("e", "E" + tag, L, j)]
        return out
    if kind in ("xand", "xseq"):
        return [("o", "O%sa" % t, "c", 0), ("e", "E%sa" % t, "c", 0), ("o", "O%sb" % t, "c", 1), ("e", "E%sb" % t, "c", 1)]
    if kind == "xpipe":
        return [("o", "I%sb:O%sa" % (t, t), "c", 0), ("e", "E%sa" % t, "cn", 0), ("o", "O%sb" % t, "c", 0), ("e", "E%sb" % t, "c", 0)]
    if kind == "xali":
        return [("o", "O%sa" % t, "n", 0), ("e", "E%sa" % t, "n", 0), ("o", "O%sb" % t, "c", 1), ("e", "E%sb" % t, "c", 1)]
    if kind == "xnest":
        return [("o", "O%snc" % t, "c", 0), ("e", "E%snc" % t, "c", 0), ("o", "O%snp" % t, "q", 1), ("e", "E%snp" % t, "q", 1)]
    raise common.HarnessError("bad stage kind %r" % kind)


def _n_emitters(st):
    return 1 + max(e[3] for e in stage_emits(st, 0, []))


def _certain_overlap(stages, i, ts):
    """Stage i (a threaded alias) starts while a slow threaded alias upstream is still running and can only emit
    after that one has finished (it drains its stdin first, as do all stages in between)."""
    if i == 0 or not _drains(stages[i]):
        return False
    for k in range(i):
        if stages[k]["kind"] == "sl" and _kinfo(stages[k], ts) == (True, True) and all(_drains(stages[m]) for m in range(k + 1, i + 1)):
            return True
    return False


def _racy_stages(case):
    """threaded alias stages whose body print()s, in a pipeline that runs another threaded alias at the same time"""
    ts = bool(case.get("ts", True))
    thr = [j for j, st in enumerate(case["stages"]) if _kinfo(st, ts) == (True, True)]
    if len(thr) < 2:
        return []
    return [j for j in thr if _body_classes(case["stages"][j]) & {"p", "q"}]


_MERGE_SPELLINGS = sorted((sp for sp, sem in TABLE.items() if sem in NO_TARGET), key=lambda x: (-len(x), x))


def glued(r):
    """A file redirect written without a blank whose operator + the beginning of the target name spell a merge /
    pipe operator (`2>out.txt`, `a>path`, `1>err.log`): -> (that operator, rest of the name), else None."""
    if r.get("raw") is not None or r.get("tgt") is None or r.get("sp") != "" or r["tgt"].get("form", "plain") != "plain":
        return None
    op = r["op"]
    if not op.endswith(">") or op.endswith(">>") or op == ">":
        return None
    txt = op + r["tgt"]["name"]
    for sp in _MERGE_SPELLINGS:
        if len(sp) > len(op) and txt.startswith(sp):
            return sp, txt[len(sp):]
    return None


def model(case, posix_order=False, explicit_wins=False, nonlast_err_captured=False, o2e_literal=False, defects=frozenset(),
          race=None):
    """-> {"error": True} or {"places": {place: [lines]}, "files": {name: lines-or-None}, "append": {name: ninit}}.

    `defects` switches on the routing of recorded findings (see FINDINGS) so that a failing case can be attributed
    to a finding only when the observation is *exactly* what that defect produces.

    Readings the documentation leaves open are parameters; the oracle accepts any of them:
      posix_order          a merge (e>o / o>e) written *before* the other stream's file redirect binds to that
                           stream's default place (POSIX left-to-right) instead of following the file
      explicit_wins        `cmd > f | next`: explicit redirect wins and the pipe stays empty (POSIX) instead of an error
      nonlast_err_captured in !( ) the unredirected stderr of non-last stages is part of .err instead of the terminal
      o2e_literal          "send stdout to stderr" read literally: o>e sends stdout to the *shell's* stderr place even when
                           the command's own stderr is redirected to a file on the same line
    `race` ({stage: emitter ordinal}, only with defect C07-F14): from that emitter on the body output of the stage went
    to the shell's own fds.

    Stage decorations (`$VAR=value` prefixes, `@error_ignore`) have no influence on routing; `@thread` / `@unthread`
    only decide whether an alias runs threaded (_kinfo).  Everything an alias body emits (stage_emits) belongs to the
    stage's stdout / stderr and follows the stage's routing (docs/callable_aliases.rst "Capturing and Stream
    Redirection": print(), the stream arguments and subprocess commands are all captured / redirected)."""
    stages = case["stages"]
    n = len(stages)
    cap = case["cap"]
    ts = bool(case.get("ts", True))
    files = {}
    for i, k, r in iter_redirs(case):
        if r.get("raw") is not None:
            return {"error": True, "why": "malformed operator"}
        if r.get("tgt") is not None:
            files[r["tgt"]["name"]] = init_lines(k, r["tgt"])
            g = glued(r)
            if g is not None and g[1] == "":
                raise Undefined()       # `e>out`: the text *is* the merge operator, not `e>` + file "out"
    if "C07-F11" in defects:
        # the tokenizer reads `2>out.txt` as the merge operator `2>out` followed by the argument `.txt`
        stages = _mistokenized(case)["stages"]
    if "C07-F8" in defects:
        return {"error": True, "why": "C07-F8", "exc_ok": ("TypeError", r"unhashable type: 'list'")}
    sinks = {}
    result_files = dict(files)
    append_n = {}
    error = None
    plans = []
    for i, st in enumerate(stages):
        slot = {"in": None, "out": None, "err": None}
        order = {}
        if i > 0:
            slot["in"] = ("pipe", i - 1)

        def put(s, v, pos):
            nonlocal error
            if slot[s] is not None:
                error = error or "multiple redirections for std%s of stage %d" % (s, i)
            else:
                slot[s] = v
                order[s] = pos

        for pos, r in enumerate(st.get("redirs", [])):
            sem = TABLE.get(r["op"])
            if sem is None:
                return {"error": True, "why": "unknown operator"}
            t = r.get("tgt")
            if sem[0] in ("out", "err", "all"):
                if t["state"] == "nodir":
                    error = error or "target in a missing directory"
                if t["state"] == "readonly":
                    error = error or "target not writable"
                f = ("file", t["name"], sem[1])
                if sem[0] in ("out", "all"):
                    put("out", f, pos)
                if sem[0] in ("err", "all"):
                    put("err", f, pos)
            elif sem[0] == "in":
                if t["state"] in ("missing", "nodir"):
                    error = error or "input file missing"
                put("in", ("file", t["name"], "r"), pos)
            elif sem[0] == "e2o":
                put("err", ("=out",), pos)
            elif sem[0] == "o2e":
                put("out", ("=err",), pos)
            elif sem[0] == "a2p":
                if i == n - 1:
                    error = error or "a>p without a following pipe"
                put("out", ("pipe", i), pos)
                put("err", ("=out",), pos)
            elif sem[0] == "e2p":
                if i == n - 1:
                    error = error or "e>p without a following pipe"
                put("err", ("pipe", i), pos)
        alias, threaded = _kinfo(st, ts)
        if alias and not threaded and n > 1:
            error = error or "alias that does not run threaded (@unthreadable / @unthread / $THREAD_SUBPROCS off) in a pipeline"
        if i < n - 1:
            if slot["out"] is None:
                slot["out"] = ("pipe", i)
            elif slot["out"] == ("pipe", i):
                pass
            elif slot["err"] == ("pipe", i):
                pass            # documented: `cmd o> file e>p | next`
            elif not explicit_wins:
                error = error or "stdout both redirected and piped"
        plans.append((slot, order))
    if error:
        res = {"error": True, "why": error}
        if "C07-F7" in defects:
            res["exc_ok"] = ("TypeError", r"sequence item \d+: expected str instance, list found")
        return res
    if "C07-F6" in defects:
        # unthreadable alias with `<`: the alias dies with a TypeError before it writes anything (its write targets
        # have been opened by then)
        ff = dict(files)
        for _i, _k, r in iter_redirs(case):
            sem = TABLE[r["op"]]
            if sem[0] in ("out", "err", "all"):
                nm = r["tgt"]["name"]
                ff[nm] = list(files[nm] or []) if sem[1] == "a" else []
        return {"error": False, "crash": None if cap == "object" else "CalledProcessError",
                "places": {"term1": [], "term2": [], "capout": [], "caperr": []}, "files": ff,
                "append": {nm: len(v or []) for nm, v in ff.items()}}

    def default_out(i):
        if i < n - 1:
            return ("pipe", i)
        return ("cap", "out") if cap in ("stdout", "object") else ("term", 1)

    def default_err(i):
        if cap == "object" and (i == n - 1 or nonlast_err_captured):
            return ("cap", "err")
        return ("term", 2)

    optional = []
    for i, (slot, order) in enumerate(plans):
        out, err = slot["out"], slot["err"]
        if out == ("=err",) and (err == ("=out",) or (err is not None and err[0] == "pipe")):
            raise Undefined()       # circular merge / o>e together with e>p: no documented meaning
        last = i == n - 1
        st = stages[i]
        kind = st["kind"]
        alias, threaded = _kinfo(st, ts)
        # xonsh captures the commands run inside an alias body only when the stage is not the last one, or the whole
        # line is captured, or the stage's stdout is redirected (specs.py cmds_to_specs "boundary conditions")
        inner_captured = (not last) or cap in ("stdout", "object") or slot["out"] is not None
        if "C07-F2" in defects and last and cap == "stdout" and out == ("=err",) and err is None:
            out = None              # $( ... o>e): stdout falls back to the inherited fd 1
        if "C07-F1" in defects and last and alias and threaded and out is None and err is None and (
                cap == "uncap" or (cap == "stdout" and "C07-F2" in defects)):
            err = ("=out",)         # ProcProxyThread treats "neither redirected" as "stderr == stdout"
            if cap == "stdout":
                out = ("term", 1)
        if "C07-F2" in defects and last and cap == "stdout" and slot["out"] == ("=err",) and out is None:
            out = ("term", 1)
        if "C07-F4" in defects and alias and not threaded and err == ("=out",) and cap in ("bare", "hidden", "uncap"):
            err = None              # ProcProxy ignores the merge flag
        if out is None:
            out = default_out(i)
        if err is None:
            err = default_err(i)
        if out == ("=err",):
            if err[0] == "file" and (o2e_literal or (posix_order and order["err"] > order["out"])):
                out = default_err(i)
            else:
                out = err
        if err == ("=out",):
            if posix_order and out[0] == "file" and order["out"] > order["err"]:
                err = default_out(i)
            else:
                err = out
        if out == ("=err",) or err == ("=out",):
            raise Undefined()
        inp = slot["in"]
        if inp is None:
            in_lines = []
        elif inp[0] == "pipe":
            in_lines = sinks.get(inp, [])
        else:
            in_lines = list(files[inp[1]] or [])
        if not _drains(st):
            in_lines = []           # an ExecAlias / a stage that ignores its stdin
        # When some later stage does not consume its stdin the pipeline can be over before this stage is: xonsh then
        # closes the read ends of *all* connecting pipes and the stage is cut short by SIGPIPE / EPIPE at its next
        # write - whether its lines arrive is scheduling (`sl` is written to survive that).
        early_end = any(not _drains(stages[k]) for k in range(i + 1, n))
        fragile = early_end and kind != "sl"
        later_slow = any(stages[k]["kind"] == "sl" for k in range(i + 1, n))
        raced_from, raced_cls = None, ()
        if "C07-F14" in defects and alias and threaded:
            # every alias thread swaps the process-wide sys.stdout / sys.stderr for the dispatcher and puts back what it
            # found: the first alias of a pipeline to finish restores the *shell's* streams under the others
            if _certain_overlap(stages, i, ts):
                raced_from, raced_cls = 0, ("p",)
            elif race and i in race:
                raced_from, raced_cls = race[i], ("p", "q")
        for stream, line, cls, ordinal in stage_emits(st, i, in_lines):
            sink = out if stream == "o" else err
            direct = ("term", 1 if stream == "o" else 2)
            if cls not in ("proc", "w"):
                if raced_from is not None and ordinal >= raced_from and cls in raced_cls:
                    sink = direct           # print() looks sys.stdout up when it is called
                elif cls == "cn" and "C07-F13" in defects:
                    sink = direct           # stderr of a non-last command of a pipeline inside the body is never captured
                elif alias and not threaded:
                    if "C07-F12" in defects:
                        sink = direct       # ProcProxy does not redirect sys.stdout / sys.stderr for the alias body
                    elif "C07-F15" in defects and stream == "e" and (cls == "m" or (kind == "xnest" and cls == "c")):
                        sink = direct       # stderr of a command run inside a *nested* alias: the nested alias thread's tee
                                            # looks the shell's stderr up itself (a race: 10-40 % of the runs)
                elif cls == "cn":
                    pass
                elif cls not in PY_CLASSES and not inner_captured and "C07-F9" in defects:
                    sink = direct           # commands inside the body are not captured: they write to the shell's fds
            if "C07-F10" in defects and kind == "sl" and stream == "e" and line == "E%d" % i and early_end and sink[0] == "file":
                # CommandPipeline._close_prev_procs closes the stage's stderr file before it joins the alias thread:
                # what the alias writes after the downstream stages have finished is lost
                if not later_slow:
                    continue
                optional.append(line)       # another slow stage downstream: which of the two ends first is scheduling
            if fragile or (ordinal == -1 and line.split(":", 1)[1] in optional):
                optional.append(line)       # (the echo of a line that may be missing may be missing)
            if sink[0] == "file":
                name, mode = sink[1], sink[2]
                if name not in append_n:
                    init = files[name] or []
                    append_n[name] = len(init) if mode == "a" else 0
                    result_files[name] = list(init) if mode == "a" else []
                result_files[name] = result_files[name] + [line]
            else:
                sinks.setdefault(sink, []).append(line)
        # a redirect target is created / truncated even when nothing is written to it
        for sink in (out, err):
            if sink[0] == "file" and sink[1] not in append_n:
                init = files[sink[1]] or []
                append_n[sink[1]] = len(init) if sink[2] == "a" else 0
                result_files[sink[1]] = list(init) if sink[2] == "a" else []
    places = {"term1": sinks.get(("term", 1), []), "term2": sinks.get(("term", 2), []),
              "capout": sinks.get(("cap", "out"), []), "caperr": sinks.get(("cap", "err"), [])}
    res = {"error": False, "places": places, "files": result_files, "append": append_n}
    if optional:
        res["optional"] = optional
    if "C07-F3" in defects:
        places["caperr"] = []       # the stderr pipe of an unthreadable last stage is never read
    if "C07-F5" in defects:
        res["crash"] = "AttributeError"
        res["subset"] = True        # the exception races with the alias thread: output may or may not have arrived
    return res


def expectations(case, defects=frozenset()):
    """All accepted readings (deduplicated).  Raises Undefined."""
    outs = []
    multi = sum(len(st.get("redirs", [])) for st in case["stages"]) > 1
    races = [None]
    if "C07-F14" in defects:
        racy = _racy_stages(case)
        if racy:
            races = [dict(zip(racy, cut)) for cut in itertools.product(
                *[range(_n_emitters(case["stages"][j]), -1, -1) for j in racy])][:128]
    for po, ew, ne, ol in itertools.product((False, True), repeat=4):
        if ne and not (case["cap"] == "object" and len(case["stages"]) > 1):
            continue
        if (po or ol) and not multi:
            continue
        for race in races:
            m = model(case, posix_order=po, explicit_wins=ew, nonlast_err_captured=ne, o2e_literal=ol, defects=defects, race=race)
            if m not in outs:
                outs.append(m)
            if m.get("error"):
                break
    return outs


# ----------------------------------------------------------------------------------------
# recorded findings: shape predicates (which cases a defect can touch at all)

FINDINGS = ("C07-F1", "C07-F2", "C07-F3", "C07-F4", "C07-F5", "C07-F6", "C07-F7", "C07-F8", "C07-F9", "C07-F10", "C07-F11",
            "C07-F12", "C07-F13", "C07-F14", "C07-F15")


def _stage_sems(st):
    return [TABLE.get(r["op"], ("?",))[0] for r in st.get("redirs", []) if r.get("raw") is None]


def _body_classes(st):
    """emitter classes of the stage other than an external program's own fds and the alias stream arguments"""
    return {e[2] for e in stage_emits(st, 0, []) if e[2] not in ("proc", "w")}


def _mistokenized(case):
    """the case as the tokenizer reads it (C07-F11): a glued file redirect becomes the merge / pipe operator"""
    stages = []
    for st in case["stages"]:
        st2 = dict(st, redirs=[({"op": glued(r)[0]} if glued(r) else r) for r in st.get("redirs", [])])
        if any((glued(r) or (None, ""))[1] for r in st.get("redirs", [])):
            st2.pop("noread", None)     # the rest of the name arrives as one more argument: the helpers then read stdin
        stages.append(st2)
    return dict(case, stages=stages)


def applicable(case):
    """Finding ids whose *shape* the case has.  Attribution additionally needs the exact symptom."""
    out = _applicable(case)
    if "C07-F11" in out:
        # what the line is read as can have the shape of further findings (`$[atag 0 2>out.txt]` = `$[atag 0 e>o]`)
        out += [fid for fid in _applicable(_mistokenized(case)) if fid not in out]
    return out


def _applicable(case):
    out = []
    stages = case["stages"]
    n = len(stages)
    last = stages[-1]
    cap = case["cap"]
    ts = bool(case.get("ts", True))
    ls = _stage_sems(last)
    routed = {"out", "err", "all", "e2o", "o2e", "a2p", "e2p"}
    kinfo = [_kinfo(s, ts) for s in stages]
    unthr = [a and not t for a, t in kinfo]         # callable alias that does not run threaded
    l_alias, l_thr = kinfo[-1]
    if l_alias and l_thr and cap in ("uncap", "stdout") and not (set(ls) & routed - ({"o2e"} if cap == "stdout" else set())):
        out.append("C07-F1")
    if cap == "stdout" and "o2e" in ls and not (set(ls) & {"err", "all", "e2o", "a2p", "e2p"}):
        out.append("C07-F2")
    if cap == "object" and _unthreaded_last(last, ts):
        out.append("C07-F3")
    if any(u and "e2o" in _stage_sems(s) for u, s in zip(unthr, stages)) and cap in ("bare", "hidden", "uncap"):
        out.append("C07-F4")
    if cap in ("bare", "hidden", "uncap") and ((unthr[-1] and "o2e" in ls) or
                                               (l_alias and l_thr and cap == "uncap" and "e2o" in ls)):
        out.append("C07-F5")
    if any(u and "in" in _stage_sems(s) for u, s in zip(unthr, stages)):
        out.append("C07-F6")
    inj = [r for _i, _k, r in iter_redirs(case) if r.get("tgt") is not None and r["tgt"].get("form") in ("at", "atvar")]
    if inj:
        out.append("C07-F7")
    if any(r.get("prefix") for r in inj):
        out.append("C07-F8")
    # F9: last stage = threaded alias whose body runs commands, stdout neither redirected nor captured
    if (l_alias and l_thr and cap in ("bare", "hidden", "uncap") and not (set(ls) & {"out", "all", "o2e", "a2p"})
            and (_body_classes(last) - PY_CLASSES - {"cn"})):
        out.append("C07-F9")
    # F10: a slow threaded alias with stderr to a file, followed by a stage that does not wait for its input
    if any(s["kind"] == "sl" and any(not _drains(d) for d in stages[i + 1:]) and (set(_stage_sems(s)) & {"err", "all"})
           for i, s in enumerate(stages)):
        out.append("C07-F10")
    if any((glued(r) or (None, ""))[1] != "" for _i, _k, r in iter_redirs(case)):
        out.append("C07-F11")
    if any(u and _body_classes(s) for u, s in zip(unthr, stages)):
        out.append("C07-F12")
    if any(u and ("m" in _body_classes(s) or s["kind"] == "xnest") for u, s in zip(unthr, stages)):
        out.append("C07-F15")
    if any(a and "cn" in _body_classes(s) for (a, _t), s in zip(kinfo, stages)):
        out.append("C07-F13")
    if _racy_stages(case):
        out.append("C07-F14")
    return out


# ----------------------------------------------------------------------------------------
# system under test


def _mk_alias(threadable):
    def tag(args, stdin=None, stdout=None, stderr=None):
        t = args[0] if args else ""
        if len(args) > 1 and stdin is not None:
            for line in stdin:
                if not line.endswith("\n"):
                    line += "\n"
                stdout.write("I%s:%s" % (t, line))
        stdout.write("O%s\n" % t)
        stdout.flush()
        stderr.write("E%s\n" % t)
        stderr.flush()
        return 0

    if not threadable:
        from xonsh.tools import unthreadable

        tag = unthreadable(tag)
    return tag


def _mk_slow():
    import time

    def slow(args, stdin=None, stdout=None, stderr=None):
        t = args[0] if args else ""
        try:
            if len(args) > 1 and stdin is not None:
                for line in stdin:
                    if not line.endswith("\n"):
                        line += "\n"
                    stdout.write("I%s:%s" % (t, line))
        except (OSError, ValueError):
            pass                # the pipeline is already over and xonsh has closed the pipe under the alias
        try:
            stdout.write("O%s\n" % t)
            stdout.flush()
        except (OSError, ValueError):
            pass                # the reader has gone: keep going, stderr is still owed
        time.sleep(SLOW_S)
        stderr.write("E%s\n" % t)
        stderr.flush()
        return 0

    return slow


def _install_aliases(XSH):
    """Register the stage commands in the fresh session: the function objects are built once per process (the body
    aliases are compiled from xonsh source by the real execer), string aliases are re-assigned every time so that
    Aliases.__setitem__ turns them into ExecAliases itself."""
    st = _state
    if st["atag"] is None:
        st["atag"] = _mk_alias(True)
        st["utag"] = _mk_alias(False)
        st["sl"] = _mk_slow()
        g = {}
        st["session"].xexec(BODY_SRC, glbs=g)
        from xonsh.tools import unthreadable

        st["cb"] = g["_c07_body"]
        st["ub"] = unthreadable(g["_c07_ubody"])
    XSH.aliases["atag"] = st["atag"]
    XSH.aliases["utag"] = st["utag"]
    XSH.aliases["sl"] = st["sl"]
    XSH.aliases["cb"] = st["cb"]
    XSH.aliases["cbi"] = st["cb"]
    XSH.aliases["ub"] = st["ub"]
    for name, src in EXEC_ALIASES.items():
        XSH.aliases[name] = src
    if not st.get("xa_checked"):
        from xonsh.aliases import ExecAlias

        for name in EXEC_ALIASES:
            if not isinstance(XSH.aliases._raw.get(name), ExecAlias):
                raise common.HarnessError("alias %s did not become an ExecAlias: %r" % (name, XSH.aliases._raw.get(name)))
        st["xa_checked"] = True


_FS_IOC_GETFLAGS = 0x80086601
_FS_IOC_SETFLAGS = 0x40086602
_FS_IMMUTABLE_FL = 0x00000010


def _set_immutable(path, on):
    import array
    import fcntl

    fd = os.open(path, os.O_RDONLY)
    try:
        buf = array.array("l", [0])
        fcntl.ioctl(fd, _FS_IOC_GETFLAGS, buf, True)
        flags = buf[0]
        flags = (flags | _FS_IMMUTABLE_FL) if on else (flags & ~_FS_IMMUTABLE_FL)
        fcntl.ioctl(fd, _FS_IOC_SETFLAGS, array.array("l", [flags]), True)
    finally:
        os.close(fd)


def _make_readonly(path):
    """A file that cannot be opened for writing by this process (root ignores mode bits -> immutable flag)."""
    if os.geteuid() != 0:
        os.chmod(path, 0o444)
        return True
    try:
        _set_immutable(path, True)
    except OSError:
        return False
    _state["immutable"].append(path)
    return True


def _clear_immutable():
    for p in _state.get("immutable", []):
        try:
            _set_immutable(p, False)
        except OSError:
            pass
    _state["immutable"] = []


def clear_tree_flags(root):
    """Safety net: make sure nothing immutable is left below root (run.cleanup must be able to delete it)."""
    if os.geteuid() != 0:
        return
    for d, _dirs, fs in os.walk(root):
        if "c07cwd-" not in d:
            continue
        for f in fs:
            try:
                _set_immutable(os.path.join(d, f), False)
            except OSError:
                pass


def _setup(scratch):
    if _state:
        return _state
    from vlib import session

    helpers.ensure()
    cwd = os.path.join(scratch, "c07cwd-%d" % os.getpid())
    os.makedirs(cwd, exist_ok=True)
    tdir = os.path.join(scratch, "c07term-%d" % os.getpid())
    os.makedirs(tdir, exist_ok=True)
    tfd = [os.open(os.path.join(tdir, "fd%d" % n), os.O_RDWR | os.O_CREAT | os.O_TRUNC | os.O_APPEND, 0o600) for n in (1, 2)]
    try:
        import resource

        soft, hard = resource.getrlimit(resource.RLIMIT_NOFILE)
        resource.setrlimit(resource.RLIMIT_NOFILE, (hard if hard != resource.RLIM_INFINITY else max(soft, 65536), hard))
    except Exception:  # noqa: BLE001
        pass
    _state.update(session=session, cwd=cwd, scratch=scratch, tfd=tfd, immutable=[], ro_ok=None, flaky=[],
                  py_std=(sys.stdin, sys.stdout, sys.stderr),
                  atag=None, utag=None,
                  open={e["id"] for e in common.load_known(PROP) if e.get("status") == "open"})
    signal.signal(signal.SIGALRM, _alarm)
    # probe once whether a read-only target can be made here
    p = os.path.join(cwd, "ro-probe")
    with open(p, "w") as f:
        f.write("x\n")
    ok = _make_readonly(p)
    if ok:
        try:
            open(p, "a").close()
            ok = False
        except OSError:
            pass
    _clear_immutable()
    try:
        os.chmod(p, 0o644)
        os.unlink(p)
    except OSError:
        pass
    _state["ro_ok"] = ok
    return _state


def _quiesce(had_exc):
    """Let alias threads (and, after an exception, orphaned children) finish while the terminal capture is still in
    place, so that late output cannot leak into the next case."""
    import threading
    import time

    stuck = _state.setdefault("stuck", set())
    deadline = time.time() + 5.0        # for all leftover threads of this case together
    for t in threading.enumerate():
        if t is not threading.current_thread() and type(t).__name__ in ("ProcProxyThread", "PopenThread") and t.ident not in stuck:
            t.join(max(0.2, min(3.0, deadline - time.time())))
            if t.is_alive():
                # a thread that xonsh left behind for good (e.g. an alias blocked on a pipe nobody will ever close):
                # wait for it once, not again after every later case
                _state["stuck_new"] = _state.get("stuck_new", 0) + 1
                proc = getattr(t, "proc", None)
                if proc is not None and hasattr(proc, "kill"):
                    # a PopenThread polls its child 10 000 times a second for as long as the child lives (here: a
                    # helper waiting for EOF on a pipe whose write end was leaked); kill the child so that the thread
                    # can end and does not slow down every later case of this worker
                    try:
                        proc.kill()
                    except Exception:  # noqa: BLE001
                        pass
                    t.join(1.0)
                if t.is_alive():
                    stuck.add(t.ident)
    if had_exc:
        t0 = time.time()
        while time.time() - t0 < 2.0:
            try:
                pid, _ = os.waitpid(-1, os.WNOHANG)
            except ChildProcessError:
                break
            if pid == 0:
                time.sleep(0.005)


class _Terminal:
    """fd-level terminal capture (see module docstring)."""

    def __enter__(self):
        st = _state
        try:
            sys.stdout.flush()
            sys.stderr.flush()
        except Exception:  # noqa: BLE001
            pass
        self.saved_fd = (os.dup(0), os.dup(1), os.dup(2))
        self.saved_py = st["py_std"]
        for fd in st["tfd"]:
            os.ftruncate(fd, 0)
        nul = os.open(os.devnull, os.O_RDONLY)
        os.dup2(nul, 0)
        os.close(nul)
        os.dup2(st["tfd"][0], 1)
        os.dup2(st["tfd"][1], 2)
        t_out = io.TextIOWrapper(io.FileIO(1, "w", closefd=False), encoding="utf-8", errors="surrogateescape", write_through=True)
        t_err = io.TextIOWrapper(io.FileIO(2, "w", closefd=False), encoding="utf-8", errors="surrogateescape", write_through=True)
        self.t_std = (t_out, t_err)
        sys.stdout, sys.stderr = t_out, t_err
        # xonsh's per-thread dispatchers fall back to the sys.stdout/sys.stderr objects of import time, i.e. to the
        # terminal; point them at this case's terminal objects so that a stream object closed by one case (xonsh can
        # close the fallback object when two threaded aliases race on sys.stdout) cannot poison the next one
        try:
            from xonsh.procs import proxies

            proxies.STDOUT_DISPATCHER.default = t_out
            proxies.STDERR_DISPATCHER.default = t_err
            proxies.STDOUT_DISPATCHER.registry.clear()
            proxies.STDERR_DISPATCHER.registry.clear()
            self._shared_scope(proxies, (t_out, t_err), install=True)
        except Exception:  # noqa: BLE001
            pass
        return self

    @staticmethod
    def _shared_scope(proxies, streams, install):
        """Since the repair of C07-F14 the alias threads share one swap of sys.stdout / sys.stderr (first scope in installs
        the dispatchers, last one out restores).  An alias thread that an *earlier* case left behind inside its scope
        keeps that swap open: a shell would simply go on with the dispatchers as its std streams.  The harness replaces
        sys.stdout / sys.stderr for every case, so in that situation it has to do what the open swap stands for: keep
        the dispatchers installed (their default is this case's terminal) and make this case's streams the ones the
        last scope out will restore - otherwise no later alias scope installs the dispatchers (depth > 0) and every
        print() of an alias body lands on the terminal."""
        sr = getattr(proxies, "_SharedStdRedirect", None)
        if sr is None or not hasattr(sr, "_depth") or not hasattr(sr, "_lock"):
            return
        with sr._lock:
            if sr._depth > 0:
                sr._saved = streams
                if install:
                    sys.stdout, sys.stderr = proxies.STDOUT_DISPATCHER, proxies.STDERR_DISPATCHER
                _state["open_scope_seen"] = True

    def __exit__(self, *a):
        for s in self.t_std:
            try:
                s.flush()
            except Exception:  # noqa: BLE001
                pass
        sys.stdin, sys.stdout, sys.stderr = self.saved_py
        try:
            from xonsh.procs import proxies

            self._shared_scope(proxies, (self.saved_py[1], self.saved_py[2]), install=False)
        except Exception:  # noqa: BLE001
            pass
        for n, fd in enumerate(self.saved_fd):
            os.dup2(fd, n)
            os.close(fd)
        return False

    @staticmethod
    def read():
        out = []
        for fd in _state["tfd"]:
            os.lseek(fd, 0, os.SEEK_SET)
            chunks = []
            while True:
                b = os.read(fd, 1 << 16)
                if not b:
                    break
                chunks.append(b)
            out.append(b"".join(chunks).decode("utf-8", "replace"))
        return out


_TAGGED = re.compile(r"^(I\d+[a-z]*:)*(O\d+[a-z]*|E\d+[a-z]*|P\d+[ab])$")


_GLUED_TAGS = re.compile(r"^((?:I\d+[a-z]*:)*)((?:[OE]\d+[a-z]*){2,})$")
_EMPTY_ECHO = re.compile(r"^(I\d+[a-z]*:)+$")


def _lines(text):
    """Non-empty lines.  Two writers on one sink (stdout and stderr merged, print() next to a command's tee) can
    interleave between a text and its newline: `O1npE1nc` + an empty line.  The property is about where text ends up,
    not about line atomicity, so such a line is split into its tags again (and the echo of the empty line dropped)."""
    if not text:
        return []
    out = []
    for ln in text.replace("\r\n", "\n").split("\n"):
        ln = ln.rstrip("\r")
        if ln == "" or _EMPTY_ECHO.match(ln):
            continue
        m = _GLUED_TAGS.match(ln)
        if m:
            out.extend(m.group(1) + tag for tag in re.findall(r"[OE]\d+[a-z]*", m.group(2)))
        else:
            out.append(ln)
    return out


def _wipe(cwd):
    _clear_immutable()
    for f in os.listdir(cwd):
        p = os.path.join(cwd, f)
        try:
            if os.path.isdir(p) and not os.path.islink(p):
                shutil.rmtree(p)
            else:
                os.unlink(p)
        except OSError:
            try:
                _set_immutable(p, False)
                os.unlink(p)
            except OSError:
                pass


def execute(case):
    """Run the case for real.  -> observation dict, or None when the case cannot be set up here
    (read-only target not constructible)."""
    st = _state
    session = st["session"]
    cwd = st["cwd"]
    _wipe(cwd)
    env = {}
    ctxvars = {}
    targets = {}
    for i, k, r in iter_redirs(case):
        t = r.get("tgt")
        if t is None:
            continue
        name = t["name"]
        targets[name] = t
        env["TGT%d" % k] = name
        ctxvars["TV%d" % k] = name
        init = init_lines(k, t)
        path = os.path.join(cwd, name)
        if t["state"] != "nodir" and os.path.dirname(name):
            os.makedirs(os.path.dirname(path), exist_ok=True)
        if init is not None:
            with open(path, "w") as f:
                f.write("".join(ln + "\n" for ln in init))
            if t["state"] == "readonly":
                if not st["ro_ok"] or not _make_readonly(path):
                    return None
    XSH = session.load_session(st["scratch"], THREAD_SUBPROCS=bool(case.get("ts", True)), **env)
    os.chdir(cwd)
    XSH.env["PWD"] = cwd
    _install_aliases(XSH)
    XSH.ctx.clear()
    XSH.ctx.update(ctxvars)
    src = render(case)
    exc = None
    capout = caperr = None
    term = _Terminal()
    term.__enter__()
    signal.setitimer(signal.ITIMER_REAL, HANG_S, 2.0)
    try:
        try:
            session.xexec(src)
            r = XSH.ctx.get("r")
            if case["cap"] == "stdout":
                capout = r if isinstance(r, str) else repr(r)
            elif case["cap"] == "object" and r is not None:
                r.end()
                capout, caperr = r.out, r.err
        except _Timeout:
            exc = "HANG"
        except SyntaxError:
            exc = "SyntaxError"
        except BaseException as e:  # noqa: BLE001
            exc = type(e).__name__
            st["last_exc"] = "%s: %s" % (type(e).__name__, str(e)[:300])
        try:
            if exc != "HANG":
                # the command has returned: the hang bound is met.  Waiting for the threads it left behind has its own
                # budget (_quiesce); the timer stays armed only as a safety net, and running into it is noted as a thread
                # left behind, not as a hang (three leftover threads at 3 s each used to add up to a "hang")
                signal.setitimer(signal.ITIMER_REAL, 3 * HANG_S, 2.0)
                _quiesce(exc is not None)
        except _Timeout:
            st["stuck_new"] = st.get("stuck_new", 0) + 1
    finally:
        signal.setitimer(signal.ITIMER_REAL, 0)
        term.__exit__()
    t1, t2 = term.read()
    try:
        from xonsh.procs.jobs import get_tasks

        XSH.all_jobs.clear()
        get_tasks().clear()
    except Exception:  # noqa: BLE001
        pass
    obs_files = {}
    for name in targets:
        path = os.path.join(cwd, name)
        try:
            with open(path, "rb") as fh:
                obs_files[name] = _lines(fh.read().decode("utf-8", "replace"))
        except (FileNotFoundError, NotADirectoryError):
            obs_files[name] = None
        except OSError as e:
            obs_files[name] = ["<unreadable %s>" % type(e).__name__]
    stray = sorted(f for f in os.listdir(cwd) if f not in targets and f.split("/")[0] not in {n.split("/")[0] for n in targets})
    places = {}
    noise = 0
    for key, text in (("term1", t1), ("term2", t2)):
        tagged = []
        for ln in _lines(text):
            if _TAGGED.match(ln):
                tagged.append(ln)
            else:
                noise += 1
        places[key] = tagged
    places["capout"] = _lines(capout if isinstance(capout, str) else "")
    places["caperr"] = _lines(caperr if isinstance(caperr, str) else "")
    _clear_immutable()
    return {"exc": exc, "places": places, "files": obs_files, "stray": stray, "noise": noise,
            "msg": st.pop("last_exc", None) if exc not in (None, "HANG", "SyntaxError") else None,
            "raw_term2": t2[-400:] if exc else ""}


# ----------------------------------------------------------------------------------------
# comparison


def _initial_files(case):
    return {r["tgt"]["name"]: init_lines(k, r["tgt"]) for _i, k, r in iter_redirs(case) if r.get("tgt") is not None}


def compare(case, exp, obs):
    """-> list of problem strings (empty = the observation is the expected one)."""
    probs = []
    if exp["error"]:
        ok = obs["exc"] in ("XonshError", "SyntaxError")
        if exp.get("exc_ok"):
            ok = obs["exc"] == exp["exc_ok"][0] and re.search(exp["exc_ok"][1], obs["msg"] or "") is not None
        if not ok:
            probs.append("error-not-raised: expected XonshError/SyntaxError (%s), got %s" % (exp.get("why"), obs["exc"] or "no exception"))
        for place, lines in sorted(obs["places"].items()):
            if lines:
                probs.append("delivered-despite-error: %s has %r" % (place, lines))
        init = _initial_files(case)
        wmode = {r["tgt"]["name"]: TABLE[r["op"]][1] for _i, _k, r in iter_redirs(case)
                 if r.get("tgt") is not None and r.get("raw") is None and TABLE.get(r["op"], ("?",))[0] in ("out", "err", "all")}
        for name, lines in sorted(obs["files"].items()):
            if lines != init.get(name):
                tagged = [ln for ln in (lines or []) if ln not in (init.get(name) or [])]
                if tagged:
                    probs.append("delivered-despite-error: file %s has %r" % (name, tagged))
                elif not STRICT_UNTOUCHED and lines == [] and name in wmode and (init.get(name) is None or wmode[name] == "w"):
                    obs["touched"] = obs.get("touched", 0) + 1     # created empty / truncated a `>` target
                else:
                    probs.append("target-touched: file %s was %r, now %r" % (name, init.get(name), lines))
        if obs["stray"]:
            probs.append("stray files created: %r" % (obs["stray"],))
        return probs
    if obs["exc"] != exp.get("crash"):
        if obs["exc"] is not None:
            probs.append("unexpected-exception: %s" % (obs["msg"] or obs["exc"]))
        else:
            probs.append("exception-expected: %s" % exp.get("crash"))
    if exp.get("crash") == "AttributeError" and "'int' object has no attribute 'readable'" not in (obs["msg"] or ""):
        probs.append("unexpected-exception: %s" % (obs["msg"] or obs["exc"]))
    opt = Counter(exp.get("optional", ()))
    for place in ("term1", "term2", "capout", "caperr"):
        want, got = Counter(exp["places"][place]), Counter(obs["places"][place])
        if exp.get("subset"):
            if got - want:
                probs.append("extra@%s: %r" % (place, sorted((got - want).elements())))
            continue
        if want != got:
            miss = sorted(((want - got) - opt).elements())
            extra = sorted((got - want).elements())
            if miss:
                probs.append("missing@%s: %r" % (place, miss))
            if extra:
                probs.append("extra@%s: %r" % (place, extra))
    for name in sorted(exp["files"]):
        want, got = exp["files"][name], obs["files"].get(name)
        if want is None or got is None:
            if want != got and not (exp.get("subset") and got is None):
                probs.append("file %s: expected %r, found %r" % (name, want, got))
            continue
        ninit = exp["append"].get(name)
        if ninit is None:
            if want != got:
                probs.append("untargeted-file-changed %s: expected %r, found %r" % (name, want, got))
            continue
        if got[:ninit] != want[:ninit]:
            probs.append("file %s: previous content %r not kept in front, found %r" % (name, want[:ninit], got))
        elif exp.get("subset"):
            if Counter(got[ninit:]) - Counter(want[ninit:]):
                probs.append("extra@file:%s: %r" % (name, sorted((Counter(got[ninit:]) - Counter(want[ninit:])).elements())))
        elif Counter(want[ninit:]) != Counter(got[ninit:]):
            miss = sorted(((Counter(want[ninit:]) - Counter(got[ninit:])) - opt).elements())
            extra = sorted((Counter(got[ninit:]) - Counter(want[ninit:])).elements())
            if miss:
                probs.append("missing@file:%s: %r" % (name, miss))
            if extra:
                probs.append("extra@file:%s: %r" % (name, extra))
    if obs["stray"]:
        probs.append("stray files created: %r" % (obs["stray"],))
    return probs


def _signature(case, probs):
    """Root-cause key: the symptom classes (which place class lost / gained lines, which exception class).
    Deliberately coarse: one VIOLATION line per symptom, not per spelling."""
    heads = set()
    for p in probs:
        h = p.split(":")[0].split(" ")[0]
        if h == "unexpected-exception":
            h += ":" + p.split(":")[1].strip().split(" ")[0]
        heads.add(re.sub(r"[0-9]+", "", h))
    return ",".join(sorted(heads))


def check_case(case):
    """-> (Failure | None, labels, obs).  None failure = property held on this case.

    A failure that is not the exact symptom of a recorded finding is re-executed (twice; a hang once): only a failure
    that reproduces every time is reported.  A case that fails once and passes on re-execution is a scheduling race in
    the threaded pipeline machinery (seen under CPU contention on the unchanged tree: lost last stderr line of !( ),
    deadlock of `$[alias | alias]`) - that is the subject of C06/C09; here it is counted as inconclusive and noted."""
    f, labels, obs = _check_once(case)
    if f is None or f.finding is not None:
        return f, labels, obs
    if os.environ.get("C07_CHILD") == "once":
        return f, labels, obs       # a fresh interpreter started only to see whether this line fails in it at all
    confirmed = _state.setdefault("confirmed", set())
    if f.kind != "hang" and f.bucket in confirmed:
        # this symptom has already reproduced three times in a row in this worker: further cases with the same
        # symptom are recorded without paying for two more executions each (and never become the representative)
        f.detail = _UNCONFIRMED + f.detail
        return f, labels, obs
    for _ in range(1 if f.kind == "hang" else 2):
        f2, l2, o2 = _check_once(case)
        if f2 is None or f2.finding is not None:
            _state["flaky"].append("%s: %s" % (f.kind, f.detail[:300]))
            return f2, l2 + ["flaky:" + f.kind], o2
    if not os.environ.get("C07_CHILD"):
        if f.kind == "hang":
            # after a hang this process is full of stuck threads and leaked pipes, so the second hang proves little: a
            # hang is reported only when the same line also hangs in a fresh interpreter
            if not _fails_in_fresh_process(case, hang=True):
                _state["flaky"].append("hang (not in a fresh process): %s" % f.detail[:300])
                return None, labels + ["flaky:hang"], obs
        elif _tainted() or os.environ.get("C07_ALWAYS_FRESH") or _state.get("fresh_confirmed", 0) < FRESH_CONFIRMATIONS:
            # A worker executes thousands of lines in one interpreter; a thread that an earlier case left behind may
            # still sit inside xonsh's shared stream swap, hold pipes or close descriptor numbers that are in use again.
            # What fails three times here but not in a fresh interpreter is the after-effect of that earlier case (C09's
            # subject), not a property of this line.  The first FRESH_CONFIRMATIONS distinct symptoms of every worker
            # part, and every symptom of a worker that is known to carry such a thread, must therefore also show in a
            # fresh interpreter; after that many confirmed symptoms the tree evidently misroutes and re-execution here
            # is enough (keeps a run against a broken tree inside the time budget).
            if not _fails_in_fresh_process(case, hang=False):
                _state["flaky"].append("failed three times in this worker but not in a fresh interpreter: %s" % f.detail[:300])
                return None, labels + ["flaky:not-in-fresh-interpreter"], obs
            _state["fresh_confirmed"] = _state.get("fresh_confirmed", 0) + 1
    confirmed.add(f.bucket)
    return f, labels, obs


def _tainted():
    return bool(_state.get("stuck")) or bool(_state.get("open_scope_seen"))


def _fails_in_fresh_process(case, hang):
    """Replays the case in a fresh interpreter: does it fail there, too (unattributed; for a hang: as a hang)?"""
    import subprocess

    path = os.path.join(_state["scratch"], "confirm-%d-%s.json" % (os.getpid(), common.h64(case_key(case))))
    with open(path, "w") as fh:
        json.dump({"kind": "hang" if hang else "confirm", "case": common.jsonable(case, full=True)}, fh)
    # a hang: two independent interpreters, one execution each, both must hang (an intermittent stall - seen in 20-30 % of
    # the runs of `alias | slow alias | program that ignores its stdin` - is scheduling, not reported by this check);
    # anything else: one interpreter with the usual three executions
    env = dict(os.environ, C07_CHILD="once" if hang else "1")
    try:
        for _ in range(2 if hang else 1):
            try:
                r = subprocess.run([sys.executable, os.path.join(common.VERIF, "run.py"), PROP, "--replay", path], env=env,
                                   cwd=common.VERIF, stdin=subprocess.DEVNULL, stdout=subprocess.PIPE, stderr=subprocess.STDOUT,
                                   timeout=8 * HANG_S)
                out = r.stdout.decode("utf-8", "replace")
            except subprocess.TimeoutExpired:
                continue            # the fresh interpreter itself did not come back: a hang
            lines = [ln for ln in out.splitlines() if ln.startswith("VIOLATION")]
            if hang:
                if not any("kind=hang" in ln for ln in lines):
                    return False
            else:
                return any(re.match(r"VIOLATION property=\S+ replay=\S+ kind=\S+ attributed=", ln) is None for ln in lines)
        return True
    finally:
        try:
            os.unlink(path)
        except OSError:
            pass


def _check_once(case):
    try:
        exps = expectations(case)
    except Undefined:
        return None, ["undefined"], None
    obs = execute(case)
    if obs is None:
        return None, ["skipped:readonly-unavailable"], None
    labels = ["expect:error" if all(e["error"] for e in exps) else "expect:placement" if not any(e["error"] for e in exps)
              else "expect:error-or-placement"]
    if obs["noise"]:
        labels.append("terminal-noise")
    if _state.pop("stuck_new", 0):
        labels.append("thread-left-behind")
        _state.setdefault("stuck_cases", []).append(render(case))
    obs["touched"] = 0
    if obs["exc"] == "HANG":
        _state["hangs"] = _state.get("hangs", 0) + 1
        f = Failure("hang", case, "%r did not return within %d s" % (render(case), HANG_S),
                    finding=classify(case, None, obs, ["hang"]), bucket="hang|" + _signature(case, ["hang"]))
        return f, labels, obs
    best = None
    for e in exps:
        probs = compare(case, e, obs)
        if not probs:
            if e["error"] and obs.get("touched"):
                labels.append("rejected:target-created-or-truncated")
            return None, labels, obs
        if best is None or len(probs) < len(best[1]):
            best = (e, probs)
    exp, probs = best
    kind = probs[0].split(":")[0].split("@")[0].split(" ")[0]
    kind = {"missing": "misrouted", "extra": "misrouted", "file": "misrouted"}.get(kind, kind)
    detail = "%r (THREAD_SUBPROCS=%s): %s; observed %s" % (
        render(case), case.get("ts", True), "; ".join(probs),
        {k: v for k, v in (("exc", obs["msg"] or obs["exc"]), ("places", {p: v for p, v in obs["places"].items() if v}),
                           ("files", obs["files"])) if v})
    fid = classify(case, exp, obs, probs)
    return Failure(kind, case, detail, finding=fid, bucket=fid or (kind + "|" + _signature(case, probs))), labels, obs


def classify(case, exp, obs, probs):
    """Narrow predicates of the recorded findings, evaluated on the failing case and its symptom: the case must have
    the finding's shape (applicable) AND the observation must be exactly what the model predicts with that defect
    (and, when several defects meet in one case, the smallest set of them) switched on."""
    if obs is None:
        return None
    is_open = _state.get("open", ())
    if obs["exc"] == "HANG":
        if "C07-F11" in is_open and "C07-F11" in applicable(case):
            # `err>1.txt 1>e` is read as `err>1` + `1>e`, a circular merge (no documented meaning, never generated on
            # purpose); that xonsh does not return from it is a consequence of the mis-tokenization
            try:
                expectations(case, defects=frozenset(["C07-F11"]))
            except Undefined:
                return "C07-F11"
        return None
    app = applicable(case)
    # open findings first: a symptom that an open finding explains is not blamed on a repaired one
    app.sort(key=lambda fid: fid not in is_open)
    undefined_as_tokenized = False
    for size in range(1, len(app) + 1):
        for sub in itertools.combinations(app, size):
            try:
                exps = expectations(case, defects=frozenset(sub))
            except Undefined:
                # this set of defects turns the line into something the documentation gives no meaning: it predicts
                # nothing, so it explains nothing; the other sets are still tried
                undefined_as_tokenized = undefined_as_tokenized or "C07-F11" in sub
                continue
            for e in exps:
                if not compare(case, e, obs):
                    return sub[0]
    if undefined_as_tokenized and "C07-F11" in is_open:
        # last resort, only while the tokenizer defect is open and nothing else explains the observation: read the way
        # the tokenizer reads it, the line combines operators without a documented meaning (`1>err.log e>p` = o>e + e>p);
        # whatever happened, it happened to a mis-tokenized line
        return "C07-F11"
    return None


def case_key(case):
    return (render(case), bool(case.get("ts", True)),
            tuple((r["tgt"]["name"], r["tgt"]["state"], r["tgt"].get("form", "plain")) for _i, _k, r in iter_redirs(case)
                  if r.get("tgt") is not None),
            tuple(s["kind"] for s in case["stages"]))


def _pos(i, n):
    return "only" if n == 1 else "first" if i == 0 else "last" if i == n - 1 else "middle"


def case_labels(case):
    labs = ["cap:" + case["cap"], "stages:%d" % len(case["stages"])]
    n = len(case["stages"])
    for i, st in enumerate(case["stages"]):
        if st.get("redirs"):
            labs.append("kind:%s@%s" % (st["kind"], _pos(i, n)))
        if st["kind"] in BODY_KINDS:
            # the new stage kinds are counted wherever they stand, with the way the stage's output is routed
            labs.append("body:%s@%s" % (st["kind"], _pos(i, n)))
            sems = set(_stage_sems(st))
            route = ("file" if sems & {"out", "err", "all"} else "") + ("+merge" if sems & {"e2o", "o2e"} else "") + (
                "+topipe" if sems & {"a2p", "e2p"} else "")
            if i < n - 1:
                route += "+piped"
            elif case["cap"] in ("stdout", "object"):
                route += "+captured"
            labs.append("bodyroute:" + (route.lstrip("+") or "terminal"))
            for cls in sorted(_body_classes(st)):
                labs.append("emitter:" + cls)
        if st.get("envs"):
            labs.append("deco:env%d@%s" % (min(len(st["envs"]), 2), "alias-body" if _body_classes(st) else st["kind"]))
            labs.append("deco:env@%s" % _pos(i, n))
        if st.get("deco"):
            labs.append("deco:%s@%s" % (st["deco"], "alias-body" if _body_classes(st) else st["kind"]))
        if st.get("noread"):
            labs.append("stage:ignores-stdin")
    for _i, _k, r in iter_redirs(case):
        sem = TABLE.get(r["op"])
        labs.append("op:" + ("malformed" if sem is None or r.get("raw") is not None else "/".join(sem)))
        if r.get("tgt") is not None:
            labs.append("state:" + r["tgt"]["state"])
            labs.append("form:" + r["tgt"].get("form", "plain"))
    if not case.get("ts", True):
        labs.append("THREAD_SUBPROCS:off")
    return sorted(set(labs))


# ----------------------------------------------------------------------------------------
# part 1: the product


def kindpos():
    """(kind, position, neighbour kind, THREAD_SUBPROCS)"""
    out = []
    for ts in (True, False):
        out.append(("ext", "only", None, ts))
        out.append(("unt", "only", None, ts))
    out.append(("thr", "only", None, True))
    for pos in ("first", "middle", "last"):
        out.append(("ext", pos, "ext", True))
        out.append(("ext", pos, "ext", False))
        out.append(("ext", pos, "thr", True))
        out.append(("thr", pos, "ext", True))
        out.append(("thr", pos, "thr", True))
    return out


def product_groups():
    """One group = all spellings of one operator in one (state, kind, position, neighbour, ts, capture) cell."""
    sems = sorted(SEMGROUPS, key=repr)
    for sem in sems:
        states = [None] if sem in NO_TARGET else STATES
        for state in states:
            for kind, pos, nb, ts in kindpos():
                for cap in CAPS:
                    yield (sem, state, kind, pos, nb, ts, cap)


def group_cases(g):
    sem, state, kind, pos, nb, ts, cap = g
    spellings = list(SEMGROUPS[sem])
    variants = [(sp, False) for sp in spellings]
    if sem == ("in",):
        variants.append(("<", True))
    for sp, prefix in variants:
        red = {"op": sp}
        if state is not None:
            name = "nd0/t0.txt" if state == "nodir" else "t0.txt"
            red["tgt"] = {"name": name, "state": state, "form": "plain"}
            red["sp"] = " "
        if prefix:
            red["prefix"] = True
        x = {"kind": kind, "redirs": [red]}
        nbs = {"kind": nb, "redirs": []}
        stages = {"only": [x], "first": [x, nbs], "middle": [nbs, x, dict(nbs)], "last": [nbs, x]}[pos]
        yield {"cap": cap, "ts": ts, "stages": stages}


PAIR_CLASSES = [("out", "w"), ("out", "a"), ("err", "w"), ("err", "a"), ("all", "w"), ("all", "a"), ("e2o",), ("o2e",), ("a2p",),
                ("e2p",), ("in",)]


def pair_cases():
    """Every ordered pair of operator classes on one stage (compatible and conflicting) x stage kind x position x
    capture form; the spelling of each operator is picked by a fixed hash so that all spellings take part."""
    for a in PAIR_CLASSES:
        for b in PAIR_CLASSES:
            for kind, pos in [("ext", "only"), ("ext", "first"), ("ext", "middle"), ("ext", "last"), ("thr", "only"), ("thr", "first"),
                              ("thr", "middle"), ("thr", "last"), ("unt", "only")]:
                for cap in CAPS:
                    redirs = []
                    for k, sem in enumerate((a, b)):
                        sps = sorted(SEMGROUPS[sem])
                        red = {"op": sps[int(common.h64((a, b, kind, pos, cap, k)), 16) % len(sps)]}
                        if sem not in NO_TARGET:
                            red["tgt"] = {"name": "t%d.txt" % k, "state": "existing", "form": "plain"}
                            red["sp"] = " "
                        redirs.append(red)
                    x = {"kind": kind, "redirs": redirs}
                    nb = {"kind": "ext", "redirs": []}
                    stages = {"only": [x], "first": [x, nb], "middle": [nb, x, dict(nb)], "last": [nb, x]}[pos]
                    yield {"cap": cap, "ts": True, "stages": stages}


def worker_pairs(arg):
    shard, nshards, seed, permille, scratch = arg
    _setup(scratch)
    _state["confirmed"] = set()
    _state["fresh_confirmed"] = 0
    st = Stats()
    try:
        for ci, case in enumerate(pair_cases()):
            if ci % nshards != shard:
                continue
            if permille < 1000 and int(common.h64(("c07p", seed, ci)), 16) % 1000 >= permille:
                continue
            if _state.get("hangs", 0) >= MAX_HANGS:
                st.inconclusive += 1
                continue
            f, labels, obs = check_case(case)
            if "undefined" in labels:
                st.hist["pairs:undefined-by-docs"] += 1
                continue
            st.case(case_key(case), True, ["pairs"] + labels + case_labels(case), sample=case, max_per_label=1)
            if f is not None:
                st.fail(f)
                if f.finding:
                    st.excluded_known[f.finding] += 1
    finally:
        _clear_immutable()
    st.failures = _dedupe(st.failures)
    _flush_flaky(st)
    return st


# ----------------------------------------------------------------------------------------
# part 3: alias bodies and stage decorations (product)

BODY_VARIANTS = [("xand", None), ("xseq", None), ("xpipe", None), ("xali", None), ("xnest", None), ("cb", "c"), ("cb", "p"),
                 ("cb", "wpc"), ("cb", "hx"), ("cb", "nm"), ("ub", "w"), ("ub", "pc"), ("sl", None)]
BODY_ROUTES = [(), ("out/w",), ("out/a",), ("err/w",), ("err/a",), ("all/w",), ("all/a",), ("e2o",), ("o2e",), ("a2p",), ("e2p",),
               ("out/w", "err/w"), ("out/a", "e2p"), ("out/w", "e2o"), ("err/a", "o2e"), ("in",), ("in", "out/w")]
BODY_DECOS = [{}, {"envs": 1}, {"envs": 2}, {"deco": "@thread"}, {"deco": "@unthread"}, {"envs": 1, "deco": "@thread"},
              {"envs": 1, "deco": "@error_ignore"}]
# (position, kind of the neighbouring stages); "noread" = an external program that ignores its stdin (`... | true`)
BODY_POS = [("only", None), ("first", "ext"), ("first", "thr"), ("first", "noread"), ("middle", "ext"), ("last", "ext"), ("last", "thr")]
ENV_VALUES = ["'1'", '"b"', "'x y'"]


def _cls_sem(cls):
    return tuple(cls.split("/"))


def body_cells():
    for variant in BODY_VARIANTS:
        for route in BODY_ROUTES:
            for deco in range(len(BODY_DECOS)):
                for pos in BODY_POS:
                    for cap in CAPS:
                        yield (variant, route, deco, pos, cap)


def body_case(cell):
    (kind, em), route, deco, (pos, nbk), cap = cell
    hv = int(common.h64(("c07b", cell)), 16)
    redirs = []
    for k, cls in enumerate(route):
        sem = _cls_sem(cls)
        sps = sorted(SEMGROUPS[sem])
        red = {"op": sps[(hv >> (8 * k)) % len(sps)]}
        if sem not in NO_TARGET:
            state = "existing" if sem == ("in",) or sem[1] == "a" or (hv >> (4 + k)) & 1 else "missing"
            red["tgt"] = {"name": "t%d.txt" % k, "state": state, "form": "plain"}
            red["sp"] = " "
        redirs.append(red)
    x = {"kind": kind, "redirs": redirs}
    if em:
        x["em"] = em
    d = BODY_DECOS[deco]
    if d.get("envs"):
        x["envs"] = [["CV%d" % j, ENV_VALUES[(hv >> (16 + 2 * j)) % len(ENV_VALUES)]] for j in range(d["envs"])]
    if d.get("deco"):
        x["deco"] = d["deco"]

    def nb(j):
        st = {"kind": "ext" if nbk == "noread" else nbk, "redirs": []}
        if nbk == "noread":
            st["noread"] = True
        if (hv >> (24 + j)) & 3 == 0:
            st["envs"] = [["NV%d" % j, "'1'"]]      # the neighbour carries an env prefix, too
        return st

    stages = {"only": lambda: [x], "first": lambda: [x, nb(1)], "middle": lambda: [nb(0), x, nb(2)], "last": lambda: [nb(0), x]}[pos]()
    return {"cap": cap, "ts": True, "stages": stages}


def worker_bodies(arg):
    shard, nshards, seed, permille, scratch = arg
    _setup(scratch)
    _state["confirmed"] = set()
    _state["fresh_confirmed"] = 0
    st = Stats()
    try:
        for ci, cell in enumerate(body_cells()):
            if ci % nshards != shard:
                continue
            if permille < 1000 and int(common.h64(("c07b", seed, ci)), 16) % 1000 >= permille:
                continue
            if _state.get("hangs", 0) >= MAX_HANGS:
                st.inconclusive += 1
                continue
            case = body_case(cell)
            f, labels, obs = check_case(case)
            if "undefined" in labels:
                st.hist["bodies:undefined-by-docs"] += 1
                continue
            st.case(case_key(case), True, ["bodies"] + labels + case_labels(case), sample=case, max_per_label=1)
            if f is not None:
                st.fail(f)
                if f.finding:
                    st.excluded_known[f.finding] += 1
    finally:
        _clear_immutable()
    st.failures = _dedupe(st.failures)
    _flush_flaky(st)
    return st


def _norm_obs(obs):
    return {"exc": obs["exc"], "places": {k: sorted(v) for k, v in obs["places"].items()},
            "files": {k: (None if v is None else sorted(v)) for k, v in obs["files"].items()}}


def run_group(g, st):
    seen = []
    for case in group_cases(g):
        f, labels, obs = check_case(case)
        st.case(case_key(case), True, ["product"] + labels + case_labels(case), sample=case, max_per_label=1)
        if f is not None:
            st.fail(f)
            if f.finding:
                st.excluded_known[f.finding] += 1
        if obs is not None:
            seen.append((case, _norm_obs(obs), f))
    # metamorphic: every spelling of the operator gives the same observation
    if len(seen) > 1:
        ref_case, ref, ref_f = seen[0]
        for case, o, f in seen[1:]:
            if o != ref:
                fid = None
                if (f is not None and f.finding) or (ref_f is not None and ref_f.finding):
                    fid = (f.finding if f is not None and f.finding else ref_f.finding)
                st.fail(Failure("spelling-differs", {"pair": [ref_case, case]},
                                "%r and %r are spellings of the same operator but were routed differently: %r vs %r" % (
                                    render(ref_case), render(case), ref, o),
                                finding=fid, bucket=fid or ("spelling-differs|" + _signature(case, ["spelling"]))))
                break


def worker_product(arg):
    shard, nshards, seed, permille, scratch = arg
    _setup(scratch)
    _state["confirmed"] = set()
    _state["fresh_confirmed"] = 0
    st = Stats()
    try:
        for gi, g in enumerate(product_groups()):
            if gi % nshards != shard:
                continue
            if permille < 1000 and int(common.h64(("c07", seed, g)), 16) % 1000 >= permille:
                continue
            if _state.get("hangs", 0) >= MAX_HANGS:
                st.inconclusive += 1
                continue
            run_group(g, st)
    finally:
        _clear_immutable()
    st.failures = _dedupe(st.failures)
    _flush_flaky(st)
    return st


def _flush_flaky(st):
    for x in _state.pop("stuck_cases", [])[:3]:
        st.notes.append("a ProcProxyThread / PopenThread was still alive 3 s after the command returned (not judged here): %r" % x)
    fl = _state.get("flaky", [])
    st.inconclusive += len(fl)
    for x in fl[:3]:
        st.notes.append("flaky (failed once, passed when re-executed; not judged): " + x)
    _state["flaky"] = []


_UNCONFIRMED = "(same symptom as a case confirmed by re-execution; this one was executed once) "


def _case_size(f):
    c = f.case
    if "pair" in c:
        return 1000
    return len(render(c)) + 10 * len(c["stages"]) + (100000 if f.detail.startswith(_UNCONFIRMED) else 0)


def _dedupe(failures):
    best = {}
    for f in failures:
        b = best.get(f.bucket)
        if b is None or _case_size(f) < _case_size(b):
            best[f.bucket] = f
    # keep the count of attributed failures visible: one representative per bucket is enough for the report
    return list(best.values())


# ----------------------------------------------------------------------------------------
# part 2: generated combinations


TRICKY_NAMES = ["p", "out", "e", "2", "o", "err", "1", "all", "a"]      # target names that are also operator parts
# target names that *begin* with an operator part; written without a blank after a named operator they meet the
# tokenizer's merge / pipe alternatives (`2>out.txt`, `a>path`, `1>err.log`, `e>pfile`)
GLUE_NAMES = ["out.txt", "path", "err.log", "pfile", "1.txt", "e.txt", "o.txt", "2x", "outfile"]


def case_strategy(avoid=frozenset()):
    """avoid: ids of open findings whose shape is drawn only 1 time in 8 (so that the campaign explores the rest; the
    avoided draws are listed in case["avoided"] and counted in excluded_known)."""
    from hypothesis import strategies as hs

    spell_by_class = {}
    for sp, sem in TABLE.items():
        spell_by_class.setdefault(sem[0] + ("/" + sem[1] if len(sem) > 1 else ""), []).append(sp)
    for k in list(spell_by_class):
        spell_by_class[k].sort()
    free_classes = ["out/w", "out/a", "err/w", "err/a", "all/w", "all/a", "e2o", "o2e", "a2p", "e2p", "in"]

    @hs.composite
    def cases(draw):
        n = draw(hs.sampled_from([1, 1, 2, 2, 3]))
        ts = draw(hs.sampled_from([True, True, True, False]))

        def draw_stage(i):
            """kind (+ emitters) and decorations of stage i"""
            pool = ["ext"] * 4 + ["thr"] * 3 + ["body"] * 4 + (["unt", "ub"] if n == 1 else [])
            kind = draw(hs.sampled_from(pool))
            if kind == "body":
                kind = draw(hs.sampled_from(["cb", "cb", "cb", "cb", "xand", "xand", "xseq", "xpipe", "xali", "xnest", "ub", "sl"]))
            st = {"kind": kind}
            if kind in ("cb", "ub"):
                st["em"] = "".join(draw(hs.lists(hs.sampled_from(list(EMITTERS)), min_size=1, max_size=3, unique=True)))
            ne = draw(hs.sampled_from([0, 0, 0, 1, 1, 2]))
            if ne:
                st["envs"] = [["CV%d" % j, draw(hs.sampled_from(ENV_VALUES))] for j in range(ne)]
            deco = draw(hs.sampled_from([None] * 6 + list(DECOS)))
            if kind != "ext" and n > 1:
                # an alias that does not run threaded is an error in a pipeline: keep that to a quarter of the draws
                alias, threaded = _kinfo(dict(st, deco=deco), ts)
                if not threaded and draw(hs.integers(0, 3)) != 0:
                    deco = "@thread" if (not ts or kind in UNTHREADABLE_KINDS) else None
            if deco:
                st["deco"] = deco
            if i > 0 and kind == "ext" and draw(hs.integers(0, 19)) == 0:
                st["noread"] = True         # `... | true`: a stage that ignores its stdin
            return st

        protos = [draw_stage(i) for i in range(n)]
        for i in range(1, n):
            if protos[i - 1]["kind"] == "sl" and protos[i]["kind"] == "ext" and draw(hs.booleans()):
                protos[i]["noread"] = True
        kinds = [p_["kind"] for p_ in protos]
        if any(_body_classes(p_) for p_ in protos):
            # documented trade-off ($THREAD_SUBPROCS, $XONSH_CAPTURE_ALWAYS): with threading off xonsh cannot capture
            # the commands an alias body runs, so alias bodies are only generated with the default setting
            ts = True
        compatible = draw(hs.sampled_from([True, True, False]))
        stages = []
        counter = [0]
        avoided = []

        def rarely(fid):
            """True = keep the shape of open finding fid this time."""
            if fid not in avoid:
                return True
            if draw(hs.integers(0, 7)) == 0:
                return True
            avoided.append(fid)
            return False

        def mk(cls, good_state, kind="ext"):
            k = counter[0]
            counter[0] += 1
            op = draw(hs.sampled_from(spell_by_class[cls]))
            red = {"op": op}
            if cls.split("/")[0] in ("out", "err", "all", "in"):
                if good_state:
                    state = draw(hs.sampled_from(["missing", "existing", "existing"] if cls != "in" else ["existing", "readonly"]))
                else:
                    state = draw(hs.sampled_from(["missing", "existing", "existing", "missing", "nodir", "readonly"]))
                form = draw(hs.sampled_from(["plain", "plain", "squote", "dquote", "at", "atvar", "var", "dvar"]))
                sp = draw(hs.sampled_from([" ", " ", " ", "  ", "\t", ""]))
                base = "t%d.txt" % k
                style = draw(hs.sampled_from(["std", "std", "std", "blank", "tricky", "glued"]))
                if style == "blank" and form in ("squote", "dquote", "at", "atvar", "dvar"):
                    base = "t %d.txt" % k       # a blank is only legal in a quoted / injected target
                elif style == "tricky" and sp != "" and k < len(TRICKY_NAMES):
                    base = TRICKY_NAMES[k]
                elif style == "glued" and k < len(GLUE_NAMES) and cls != "in":
                    base, form = GLUE_NAMES[k], "plain"
                    sp = draw(hs.sampled_from(["", "", " "]))
                if state == "nodir":
                    base = "nd%d/%s" % (k, base)
                if op == "<" and draw(hs.sampled_from([False, False, True])):
                    red["prefix"] = True
                if form in ("at", "atvar"):
                    if red.get("prefix") and not rarely("C07-F8"):
                        form = "plain" if " " not in base else "squote"
                    elif not compatible and not rarely("C07-F7"):
                        form = "plain" if " " not in base else "squote"
                red["tgt"] = {"name": base, "state": state, "form": form}
                red["sp"] = sp
            return red

        for i in range(n):
            last = i == n - 1
            redirs = []
            if compatible:
                good = draw(hs.sampled_from([True, True, True, True, False]))
                if i == 0 and draw(hs.sampled_from([False, False, True])) and (kinds[i] != "unt" or rarely("C07-F6")):
                    redirs.append(mk("in", good))
                if last:
                    oc = draw(hs.sampled_from(["none", "none", "out/w", "out/a", "o2e", "all/w", "all/a"]))
                else:
                    oc = draw(hs.sampled_from(["none", "none", "none", "a2p", "file+e2p"]))
                if oc == "file+e2p":
                    redirs.append(mk(draw(hs.sampled_from(["out/w", "out/a"])), good))
                    redirs.append(mk("e2p", good))
                elif oc != "none":
                    redirs.append(mk(oc, good))
                if oc in ("none", "out/w", "out/a", "o2e"):
                    ecs = ["none", "none", "err/w", "err/a"]
                    if oc != "o2e":
                        ecs.append("e2o")
                        if not last:
                            ecs.append("e2p")
                    ec = draw(hs.sampled_from(ecs))
                    if ec != "none":
                        redirs.append(mk(ec, good))
                redirs = list(draw(hs.permutations(redirs)))
            else:
                nr = draw(hs.sampled_from([1, 1, 2, 2, 3]))
                for _ in range(nr):
                    redirs.append(mk(draw(hs.sampled_from(free_classes)), False))
            stages.append(dict(protos[i], redirs=redirs))
        if n == 1 and not stages[0]["redirs"]:
            stages[0]["redirs"].append(mk(draw(hs.sampled_from(["e2o", "o2e", "out/w", "err/a"])), True))
        # redirect indices follow the order of appearance in the rendered line
        k = 0
        for st in stages:
            for r in st["redirs"]:
                if r.get("tgt") is not None:
                    t = r["tgt"]
                    nd = t["name"].startswith("nd")
                    base = t["name"].split("/", 1)[1] if nd else t["name"]
                    if base not in TRICKY_NAMES and base not in GLUE_NAMES:
                        base = ("t %d.txt" if " " in base else "t%d.txt") % k
                    t["name"] = ("nd%d/" % k if nd else "") + base
                k += 1
        cap = draw(hs.sampled_from(CAPS))
        case = {"cap": cap, "ts": ts, "stages": stages}
        if avoided:
            case["avoided"] = sorted(avoided)
        return case

    return cases()


def nospace_ok(case):
    """`>f` (no blank before the target): the tutorial says SyntaxError, the grammar in fact accepts several of
    these; either is fine as long as nothing is misrouted."""
    return any(r.get("tgt") is not None and r.get("sp") == "" for _i, _k, r in iter_redirs(case))


def check_generated(case):
    f, labels, obs = check_case(case)
    if f is not None and obs is not None and obs["exc"] == "SyntaxError" and nospace_ok(case):
        # rejected as the tutorial's note says; must not have delivered anything
        probs = compare(case, {"error": True, "why": "no blank before the target"}, obs)
        if not probs:
            return None, labels + ["nospace:SyntaxError"], obs
    return f, labels, obs


def worker_generated(arg):
    seed, n, scratch = arg
    _setup(scratch)
    _state["confirmed"] = set()
    _state["fresh_confirmed"] = 0
    st = Stats()

    avoid = frozenset(_state["open"])

    def body(case):
        if _state.get("hangs", 0) >= MAX_HANGS:
            st.inconclusive += 1
            return
        for fid in case.get("avoided", []):
            st.excluded_known[fid] += 1
        f, labels, obs = check_generated(case)
        if "undefined" in labels:
            st.discards += 1
            return
        nred = sum(len(s["redirs"]) for s in case["stages"])
        st.case(case_key(case), True, ["generated", "redirects:%d" % min(nred, 4)] + labels + case_labels(case),
                sample=case, max_per_label=1)
        if f is not None:
            st.fail(f)
            if f.finding:
                st.excluded_known[f.finding] += 1

    try:
        common.run_given(case_strategy(avoid), body, seed, n)
        firsts = {}
        for f in st.failures:
            firsts.setdefault(f.bucket, f)
        out = []
        nmin = 0
        for b, f in firsts.items():
            smaller = [g for g in st.failures if g.bucket == b and _case_size(g) < _case_size(f)]
            if smaller:
                f = min(smaller, key=_case_size)
            if f.finding or f.kind == "hang" or nmin >= 2 or _state.get("hangs", 0) >= MAX_HANGS or "pair" in f.case or any(r.get("raw") for _i, _k, r in iter_redirs(f.case)):
                out.append(f)
                continue
            nmin += 1

            def still(c, _b=b):
                g, _l, _o = check_generated(c)
                return g is not None and g.bucket == _b

            m = common.minimize(case_strategy(avoid), still, seed, min(n, 300), seconds=6)
            if m is not None:
                g, _l, _o = check_generated(m)
                if g is not None and _case_size(g) <= _case_size(f):
                    f = g
            out.append(f)
        st.failures = out
    finally:
        _clear_immutable()
    _flush_flaky(st)
    return st


def worker_malformed(arg):
    """Malformed operators (fixed list) x stage kind x capture form."""
    scratch = arg
    _setup(scratch)
    _state["confirmed"] = set()
    _state["fresh_confirmed"] = 0
    st = Stats()
    try:
        for raw in MALFORMED:
            for kind in ("ext", "thr", "unt"):
                for cap in CAPS:
                    case = {"cap": cap, "ts": True, "stages": [{"kind": kind, "redirs": [{"op": "?", "raw": raw}]}]}
                    f, labels, obs = check_case(case)
                    st.case(case_key(case), True, ["malformed"] + labels + case_labels(case), sample=case, max_per_label=1)
                    if f is not None:
                        st.fail(f)
    finally:
        _clear_immutable()
    st.failures = _dedupe(st.failures)
    _flush_flaky(st)
    return st


def _abandon_stuck_threads():
    """xonsh can leave a ProcProxyThread / PopenThread behind that never ends (blocked on a pipe whose other end was
    leaked - the business of C09, noted here as 'thread-left-behind').  They are non-daemon threads, so the interpreter
    would wait for them at exit for ever and the worker pool with it: take them off the list threading._shutdown()
    waits for.  Harmless when the private attribute is missing (then only the old behaviour remains)."""
    import threading

    locks = getattr(threading, "_shutdown_locks", None)
    for t in threading.enumerate():
        if t is threading.current_thread() or type(t).__name__ not in ("ProcProxyThread", "PopenThread") or not t.is_alive():
            continue
        try:
            lock = getattr(t, "_tstate_lock", None)
            if locks is not None and lock is not None:
                with threading._shutdown_locks_lock:
                    locks.discard(lock)
        except Exception:  # noqa: BLE001
            pass


def worker_all(arg):
    import time

    shard, nshards, seed, bpm, permille, ppm, gen_seed, per, scratch = arg
    st = Stats()
    parts = [("bodies", worker_bodies, (shard, nshards, seed, bpm, scratch)),
             ("product", worker_product, (shard, nshards, seed, permille, scratch)),
             ("pairs", worker_pairs, (shard, nshards, seed, ppm, scratch))]
    if shard == 0:
        parts.append(("malformed", worker_malformed, scratch))
    parts.append(("generated", worker_generated, (gen_seed, per, scratch)))
    for name, fn, a in parts:
        t0 = time.time()
        st.merge(fn(a).dump())
        st.hist["worker-seconds:" + name] += int(round(time.time() - t0))
    _abandon_stuck_threads()
    return st


# ----------------------------------------------------------------------------------------


def _replay_case(case):
    if "pair" in case:
        a, b = case["pair"]
        fa, _la, oa = check_case(a)
        fb, _lb, ob = check_case(b)
        if oa is None or ob is None:
            return None
        if _norm_obs(oa) != _norm_obs(ob):
            fid = (fa.finding if fa is not None else None) or (fb.finding if fb is not None else None)
            return Failure("spelling-differs", case, "%r vs %r: %r / %r" % (render(a), render(b), _norm_obs(oa), _norm_obs(ob)),
                           finding=fid)
        return None
    f, _labels, _obs = check_generated(case)
    if f is None and not os.environ.get("C07_CHILD"):
        # a recorded case whose symptom needs two threads to overlap: on a heavily loaded machine the overlap can be
        # missed once, so such a replay gets two more attempts before it counts as "no longer reproduces"; the recorded
        # race C07-F15 shows in 10-40 % of the executions and gets eight
        more = 8 if "C07-F15" in applicable(case) else 2 if any(st["kind"] == "sl" for st in case["stages"]) else 0
        for _ in range(more):
            f, _labels, _obs = check_generated(case)
            if f is not None:
                break
    return f


def self_check():
    """The model must reproduce the tutorial's own worked examples (guards against a broken oracle)."""
    def one(stages, cap="bare"):
        return model({"cap": cap, "ts": True, "stages": stages})

    def red(op, name=None, state="missing"):
        d = {"op": op}
        if name:
            d["tgt"] = {"name": name, "state": state, "form": "plain"}
        return d

    # cmd1 e>o < input.txt | cmd2 > output.txt e>> errors.txt
    m = one([{"kind": "ext", "redirs": [red("e>o"), red("<", "input.txt", "existing")]},
             {"kind": "ext", "redirs": [red(">", "output.txt"), red("e>>", "errors.txt", "existing")]}])
    want_out = ["I1:I0:P1a", "I1:I0:P1b", "I1:O0", "I1:E0", "O1"]
    if m["error"] or sorted(m["files"]["output.txt"]) != sorted(want_out) or m["files"]["errors.txt"] != ["P3a", "P3b", "E1"] \
            or any(m["places"].values()):
        raise common.HarnessError("model self-check 1 failed: %r" % (m,))
    # cmd o> out.txt e>p | grep warning
    m = one([{"kind": "ext", "redirs": [red("o>", "out.txt"), red("e>p")]}, {"kind": "ext", "redirs": []}])
    if m["error"] or m["files"]["out.txt"] != ["O0"] or m["places"]["term1"] != ["I1:E0", "O1"] or m["places"]["term2"] != ["E1"]:
        raise common.HarnessError("model self-check 2 failed: %r" % (m,))
    # a>p requires a following pipe; > a > b is a conflict
    if not one([{"kind": "ext", "redirs": [red("a>p")]}])["error"]:
        raise common.HarnessError("model self-check 3 failed")
    if not one([{"kind": "ext", "redirs": [red(">", "a"), red(">", "b")]}])["error"]:
        raise common.HarnessError("model self-check 4 failed")
    # round 2: an alias body's output follows the stage's routing, whatever emits it and whatever decorates the stage
    m = one([{"kind": "xand", "envs": [["CV0", "'1'"]], "redirs": [red(">", "t0.txt")]}])
    if m["error"] or m["files"]["t0.txt"] != ["O0a", "O0b"] or m["places"]["term2"] != ["E0a", "E0b"] or m["places"]["term1"]:
        raise common.HarnessError("model self-check 5 failed: %r" % (m,))
    m = one([{"kind": "ext", "redirs": []}, {"kind": "cb", "em": "cp", "deco": "@thread", "redirs": [red("e>", "t0.txt")]}], cap="object")
    if m["error"] or m["files"]["t0.txt"] != ["E1c", "E1p"] or m["places"]["capout"] != ["I1:O0", "O1c", "O1p"] or m["places"]["term2"] != ["E0"]:
        raise common.HarnessError("model self-check 6 failed: %r" % (m,))
    if not one([{"kind": "ext", "redirs": []}, {"kind": "cb", "em": "w", "deco": "@unthread", "redirs": []}])["error"]:
        raise common.HarnessError("model self-check 7 failed")
    if render({"cap": "hidden", "ts": True, "stages": [{"kind": "ext", "redirs": []}, {"kind": "cb", "em": "cp", "envs": [["A", "'1'"], ["B", '"b"']],
                                                          "deco": "@thread", "redirs": [red("e>", "t0.txt")]}]}) != \
            "![vtag 0 | $A='1' $B=\"b\" @thread cb 1 cp in e> t0.txt]\n":
        raise common.HarnessError("render self-check failed")
    if len(TABLE) != 8 + 6 + 6 + 12 + 12 + 2 + 3 + 1:
        raise common.HarnessError("spelling table has %d entries" % len(TABLE))


def main(run):
    if run.tier == "thorough":
        # half an hour of pipelines on a loaded machine: every unattributed symptom must also fail in a fresh interpreter
        os.environ["C07_ALWAYS_FRESH"] = "1"
    self_check()
    _setup(run.scratch)
    try:
        from xonsh.parsers.tokenize import _redir_map

        mine = {sp for sp, sem in TABLE.items() if sem in NO_TARGET}
        if set(_redir_map) != mine:
            run.stats.notes.append("tokenizer _redir_map differs from the documented table: only-xonsh %r, only-docs %r" % (
                sorted(set(_redir_map) - mine), sorted(mine - set(_redir_map))))
    except ImportError:
        run.stats.notes.append("xonsh.parsers.tokenize._redir_map not importable")
    if not _state["ro_ok"]:
        run.stats.notes.append("read-only targets cannot be constructed here (immutable flag / chmod ineffective); state skipped")
    try:
        common.replay_tier(run, _replay_case)
        os.chdir(common.VERIF)
        ngroups = sum(1 for _ in product_groups())
        ncases = sum(1 for g in product_groups() for _ in group_cases(g))
        thorough = run.tier == "thorough"
        nw = 16 if thorough else 12
        permille = 1000 if thorough else 500
        procs = max(1, min(nw, int(os.environ.get("VERIF_PROCS") or nw)))      # shards stay the same, only the parallelism changes
        bpm = 1000 if thorough else 55
        ppm = 1000 if thorough else 250
        per = run.n(450, 14000)
        camp = os.environ.get("C07_CAMPAIGN")
        if camp:
            # exploration campaign between the tiers: C07_CAMPAIGN="<permille of the alias-body product>,<generated examples per
            # worker>" runs only part (3) and part (2) at the given sizes (the spelling and pair products are skipped)
            bpm, per = (int(x) for x in camp.split(","))
            permille = ppm = 0
            run.stats.notes.append("campaign run C07_CAMPAIGN=%s: alias-body product and generated pipelines only" % camp)
        # one pool: worker w runs shard w of the three products (alias bodies x decorations, spellings, operator pairs),
        # worker 0 also the malformed list, then its share of the generated pipelines
        common.pool_map(run, __name__, "worker_all",
                        [(w, nw, run.seed, bpm, permille, ppm, common.worker_seed(run.seed, 50 + w), per, run.scratch) for w in range(nw)],
                        procs=procs)
        run.extra["bodies_product"] = {"cases": sum(1 for _ in body_cells()), "sampled_permille": bpm,
                                       "variants": ["%s%s" % (k, ":" + e if e else "") for k, e in BODY_VARIANTS]}
        run.extra["product"] = {"groups": ngroups, "cases": ncases, "sampled_permille_of_groups": permille}
        if thorough:
            run.exhaustive = True
            run.extra["exhaustive_subspace"] = ("%d single-redirect cases: %d spellings (+ prefix `< f cmd`) x 20 (kind, position, neighbour, "
                                                "THREAD_SUBPROCS) cells x 5 capture forms x 4 target states (file operators); plus every "
                                                "ordered pair of the 11 operator classes on one stage x 9 (kind, position) x 5 capture "
                                                "forms with hash-picked spellings; plus %d alias-body cases: %d body variants x %d routings "
                                                "x %d decorations x %d (position, neighbour) x 5 capture forms" % (
                                                    ncases, len(TABLE), sum(1 for _ in body_cells()), len(BODY_VARIANTS),
                                                    len(BODY_ROUTES), len(BODY_DECOS), len(BODY_POS)))
        run.extra["pairs_product"] = {"cases": sum(1 for _ in pair_cases()), "sampled_permille": ppm}
    finally:
        _clear_immutable()
        clear_tree_flags(run.scratch)
        _abandon_stuck_threads()
    run.assumptions += [
        "the terminal = fds 1 and 2 of the xonsh process with sys.stdout/sys.stderr as text wrappers over those fds; fd 0 = /dev/null",
        "line placement is compared as a multiset per place (order between different stages' lines on one sink is scheduling)"
        "; for `>>` the previous content must come first; CRLF from xonsh's pty capture is normalised to LF",
        "readings the tutorial leaves open are all accepted: `cmd > f | next` is an error or POSIX explicit-redirect-wins; a merge "
        "written before the other stream's file redirect may follow the file or bind left-to-right; in !( ) stderr of non-last "
        "stages may be on the terminal or in .err; `>f` without a blank may be a SyntaxError or a working redirect",
        "circular merges (e>o together with o>e on one stage) and list-valued @() targets are not generated",
        "read-only targets are made with the immutable inode flag when running as root (mode bits do not bind root)",
        "lines on the terminal that are not tagged lines (xonsh's own messages) are counted as 'terminal-noise', not judged",
        "alias bodies: every line an alias body emits (stream arguments, print(), commands, nested aliases) belongs to the stage's "
        "stdout/stderr; `$[...]` inside a body (documented to stay on the terminal) and the stderr of `$()`/`!()` inside a body are not "
        "generated; alias bodies are only generated with $THREAD_SUBPROCS=True (documented trade-off: without threads xonsh cannot "
        "capture the commands a body runs); ExecAliases do not read the stage's stdin (no automatic redirection of stdin, documented)",
        "lines of a stage that stands upstream of a stage ignoring its stdin are optional (SIGPIPE / EPIPE may cut the writer short), "
        "they may never turn up in a wrong place; a replay whose symptom needs two threads to overlap gets three attempts",
        "a rejected command must have delivered nothing and must leave `>>`/`<` targets and unrelated files unchanged; that it may "
        "already have created an empty write target or truncated a `>` target is tolerated and counted (STRICT_UNTOUCHED=%s)" % STRICT_UNTOUCHED,
    ]


def replay(run, path):
    with open(path) as f:
        d = json.load(f)
    case = d.get("case", d)
    _setup(run.scratch)
    try:
        fail = _replay_case(case)
    finally:
        _clear_immutable()
        os.chdir(common.VERIF)
        _abandon_stuck_threads()
    if fail is None:
        print("replay: property holds on this case")
        return 0
    print("VIOLATION property=%s replay=%s kind=%s%s %s" % (PROP, path, fail.kind,
                                                            " attributed=%s" % fail.finding if fail.finding else "", fail.detail))
    return 1

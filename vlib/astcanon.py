"""Location-free canonical form of Python ASTs, for comparing xonsh's parser with CPython's.

Deliberately strict.  Ignored (carry no meaning, or are xonsh-private markers):
  lineno / col_offset / end_*           positions
  Constant.kind                         xonsh stores 'num'/'str'/..., CPython 'u'/None
  type_comment, Module.type_ignores     only produced with type_comments=True
  absent field == None == []            xonsh omits e.g. type_params=[]
  inside JoinedStr: adjacent string constants merged, empty string parts dropped (both sides;
  CPython 3.12 itself emits a trailing Constant('') in some nested format specs)
Nothing else is normalised: identifiers, operator classes, ctx classes, constants by type+repr
(1 != 1.0 != True, 0.0 != -0.0, b'a' != 'a'), ImportFrom.level, AnnAssign.simple,
FormattedValue.conversion are all compared."""

from __future__ import annotations

import ast

_SKIP_ALWAYS = {"type_comment"}


def _const(v):
    if isinstance(v, (tuple, frozenset)):
        return (type(v).__name__, tuple(_const(x) for x in v))
    return (type(v).__name__, repr(v))


def _joined_values(values):
    out = []
    for v in values or []:
        if isinstance(v, ast.Constant) and isinstance(v.value, str):
            if v.value == "":
                continue
            if out and isinstance(out[-1], str):
                out[-1] = out[-1] + v.value
            else:
                out.append(v.value)
        else:
            out.append(v)
    res = []
    for v in out:
        if isinstance(v, str):
            res.append(("Constant", (("value", ("str", repr(v))),)))
        else:
            res.append(canon(v))
    return tuple(res)


def canon(node):
    if isinstance(node, ast.AST):
        name = type(node).__name__
        if name == "JoinedStr":
            vals = _joined_values(getattr(node, "values", None))
            return ("JoinedStr", (("values", vals or None),))
        fields = []
        for f in node._fields:
            if f in _SKIP_ALWAYS:
                continue
            if name == "Constant" and f == "kind":
                continue
            if name == "Module" and f == "type_ignores":
                continue
            v = getattr(node, f, None)
            if name == "Constant" and f == "value":
                fields.append((f, _const(v)))
            else:
                fields.append((f, canon(v)))
        return (name, tuple(fields))
    if isinstance(node, list):
        if not node:
            return None
        return tuple(canon(x) for x in node)
    if node is None:
        return None
    if isinstance(node, (str, int, float, complex, bytes, bool)):
        return (type(node).__name__, repr(node))
    return ("?", repr(node))


def root_canon(tree):
    """Canonical form of a whole parse result; xonsh returns None for empty / comment-only input."""
    if tree is None:
        return ("<empty>",)
    c = canon(tree)
    if isinstance(tree, (ast.Module, ast.Interactive)) and not tree.body:
        return ("<empty>",)
    return c


def first_diff(a, b, path="root"):
    """Human-readable location of the first difference between two canonical forms."""
    if a == b:
        return None
    if isinstance(a, tuple) and isinstance(b, tuple) and len(a) == 2 and len(b) == 2 \
            and isinstance(a[0], str) and isinstance(b[0], str) and isinstance(a[1], tuple) and isinstance(b[1], tuple) \
            and a[0] == b[0] and a[1] and isinstance(a[1][0], tuple) and len(a[1][0]) == 2 and isinstance(a[1][0][0], str):
        # same node class: descend into fields
        fa, fb = dict(a[1]), dict(b[1])
        for k in fa:
            if fa.get(k) != fb.get(k):
                return first_diff(fa.get(k), fb.get(k), path + "." + a[0] + "." + k)
        for k in fb:
            if k not in fa:
                return "%s.%s.%s: missing vs %s" % (path, a[0], k, _short(fb[k]))
    if isinstance(a, tuple) and isinstance(b, tuple) and a and b and isinstance(a[0], tuple) and isinstance(b[0], tuple):
        if len(a) != len(b):
            return "%s: list length %d vs %d" % (path, len(a), len(b))
        for i, (x, y) in enumerate(zip(a, b)):
            if x != y:
                return first_diff(x, y, "%s[%d]" % (path, i))
    return "%s: %s  vs  %s" % (path, _short(a), _short(b))


def _short(x, n=160):
    s = repr(x)
    return s if len(s) <= n else s[:n] + "..."


def node_classes(tree):
    return {type(n).__name__ for n in ast.walk(tree)}


def self_test():
    """The normaliser must (a) identify two CPython parses of differently spaced text and
    (b) distinguish single-field perturbations."""
    same = [
        ("x = 1+2", "x=1 + 2"), ("f(a, b=1)", "f( a ,b = 1 )"), ("if a:\n    pass\n", "if a :\n\tpass\n"),
        ('f"a{b!r:>{w}}c"', 'f"a{ b !r:>{w}}c"'), ("x = 'a' 'b'", "x = 'ab'"), ("[i for i in x if i]", "[ i for i in x if i ]"),
    ]
    for s1, s2 in same:
        if root_canon(ast.parse(s1)) != root_canon(ast.parse(s2)):
            raise AssertionError("canon distinguishes %r and %r" % (s1, s2))
    differ = [
        ("x = 1", "x = 1.0"), ("x = 1", "x = True"), ("x = 0.0", "x = -0.0 "), ("x = 'a'", "x = b'a'"), ("a + b", "a - b"),
        ("a < b", "a <= b"), ("a and b", "a or b"), ("x = 1", "y = 1"), ("x.a", "x.b"), ("del x", "x"), ("x = y", "x: int = y"),
        ("from . import a", "from .. import a"), ("from a import b", "from a import b as c"), ("f(a)", "f(*a)"),
        ("f(a=1)", "f(b=1)"), ("f(**a)", "f(*a)"), ("lambda a: 1", "lambda a=1: 1"), ("lambda a, /: 1", "lambda a: 1"),
        ("lambda *, a: 1", "lambda a: 1"), ("[a, b]", "(a, b)"), ("{a}", "[a]"), ("{a: b}", "{a: c}"), ("a[1:2]", "a[1:2:3]"),
        ("a[1]", "a[1,]"), ("f'{a}'", "f'{a!r}'"), ("f'{a}'", "f'{a:x}'"), ("f'{a}b'", "f'{a}c'"), ("x: int", "(x): int"),
        ("for i in x: pass", "for i, in x: pass"), ("async def f(): pass", "def f(): pass"), ("a if b else c", "c if b else a"),
        ("not a", "~a"), ("a ** b", "a * b"), ("x = yield", "x = yield a"), ("[i for i in x]", "[i async for i in x]"),
        ("try:\n pass\nexcept E:\n pass", "try:\n pass\nexcept* E:\n pass"), ("with a: pass", "with a as b: pass"),
        ("with a, b: pass", "with (a, b) as c: pass"), ("a @ b", "a * b"), ("x = 1", "x = 2"),
        ("match a:\n case 1: pass", "match a:\n case 2: pass"), ("match a:\n case [x]: pass", "match a:\n case [*x]: pass"),
        ("def f(a=1, /, b=2): pass", "def f(a, /, b=2): pass"), ("class A(B): pass", "class A(m=B): pass"),
        ("x = 1; y = 2", "x = 1"), ("a = b = c", "a = b"), ("x += 1", "x -= 1"), ("import a.b", "import a"),
    ]
    for s1, s2 in differ:
        if root_canon(ast.parse(s1)) == root_canon(ast.parse(s2)):
            raise AssertionError("canon identifies %r and %r" % (s1, s2))
    return len(same), len(differ)

#!/usr/bin/env python3
"""Work with independently seeded breaking changes (seeded/<id>/patch.diff + demo + meta.json).

  seeded.py confirm <seeded-dir> [--suite]   apply the patch in a scratch worktree of /repo HEAD, run the demonstration
                                             (must fail), revert (must pass); with --suite also run the repository's
                                             test-suite with the patch and compare with BASELINE stable_pass
  seeded.py check <seeded-dir> [Cxx ...]     run the quick tier of the property's check (default: meta.json 'property')
                                             against the patched worktree through VERIF_REPO; prints exit code and time

  seeded.py stage <agent-out-dir> Cxx k       copy the agent's patch<k>.diff / demo<k>.py / notes<k>.md to seeded/Cxx-m<k>/

The worktree lives under /var/tmp and is removed afterwards.  /repo itself is never modified."""

import json
import os
import shutil
import subprocess
import sys
import time

VERIF = os.path.dirname(os.path.dirname(os.path.abspath(__file__)))
REPO = "/repo"
PY = "/venv/bin/python"


def sh(cmd, cwd=None, env=None, timeout=None):
    r = subprocess.run(cmd, cwd=cwd, env=env, shell=isinstance(cmd, str), capture_output=True, text=True, timeout=timeout)
    return r.returncode, r.stdout + r.stderr


def worktree(tag):
    wt = "/var/tmp/seed-%s-%d" % (tag, os.getpid())
    sh(["git", "-C", REPO, "worktree", "remove", "--force", wt])
    rc, out = sh(["git", "-C", REPO, "worktree", "add", "--detach", wt, "HEAD"])
    if rc != 0:
        raise SystemExit("worktree add failed: " + out)
    return wt


def remove(wt):
    sh(["git", "-C", REPO, "worktree", "remove", "--force", wt])
    shutil.rmtree(wt, ignore_errors=True)


def find_demo(d):
    for n in sorted(os.listdir(d)):
        if n.startswith(("demo", "test_demo")) and n.endswith(".py"):
            return n
    raise SystemExit("no demo in " + d)


def run_demo(d, wt):
    demo = find_demo(d)
    shutil.copy(os.path.join(d, demo), os.path.join(wt, demo))
    env = dict(os.environ, PYTHONPATH=wt, PYTHONDONTWRITEBYTECODE="1", HOME="/var/tmp", XONSH_DATA_DIR="/var/tmp/seed-xdg",
               XONSH_CACHE_DIR="/var/tmp/seed-xdg")
    env.pop("XONSH_XONSH_VERIF", None)
    if demo.startswith("test_"):
        cmd = [PY, "-m", "pytest", "-q", "-p", "no:cacheprovider", demo]
    else:
        cmd = [PY, demo]
    try:
        rc, out = sh(cmd, cwd=wt, env=env, timeout=900)
    except subprocess.TimeoutExpired:
        rc, out = 124, "timeout"
    os.unlink(os.path.join(wt, demo))
    return rc, out


def confirm(d, suite):
    tag = os.path.basename(os.path.normpath(d))
    wt = worktree(tag)
    res = {}
    try:
        rc0, out0 = run_demo(d, wt)
        res["demo_unpatched_rc"] = rc0
        rc, out = sh(["git", "apply", os.path.join(os.path.abspath(d), "patch.diff")], cwd=wt)
        if rc != 0:
            raise SystemExit("patch does not apply: " + out)
        # a grammar change needs fresh tables in the worktree
        rc, changed = sh(["git", "diff", "--name-only"], cwd=wt)
        res["files"] = changed.split()
        rc1, out1 = run_demo(d, wt)
        res["demo_patched_rc"] = rc1
        res["demo_patched_tail"] = out1[-600:]
        if suite:
            junit = "/var/tmp/seed-%s-junit.xml" % tag
            env = dict(os.environ)
            env.pop("XONSH_XONSH_VERIF", None)
            sh([PY, "-m", "pytest", "-q", "-p", "no:cacheprovider", "--timeout=900", "--continue-on-collection-errors", "-n", "4",
                "--junitxml=" + junit], cwd=wt, env=env, timeout=3600)
            rc, out = sh([sys.executable, os.path.join(VERIF, "tools", "baseline_diff.py"), junit])
            res["suite"] = out.strip().splitlines()[:12]
            res["suite_ok"] = rc == 0
            try:
                os.unlink(junit)
            except OSError:
                pass
    finally:
        remove(wt)
    res["confirmed"] = res.get("demo_unpatched_rc") == 0 and res.get("demo_patched_rc", 0) != 0 and res.get("suite_ok", True)
    print(json.dumps(res, indent=1))
    return 0 if res["confirmed"] else 1


def check(d, props):
    tag = os.path.basename(os.path.normpath(d))
    meta = {}
    mp = os.path.join(d, "meta.json")
    if os.path.exists(mp):
        meta = json.load(open(mp))
    props = props or [meta.get("property")]
    wt = worktree(tag + "-chk")
    out_rows = []
    try:
        rc, out = sh(["git", "apply", os.path.join(os.path.abspath(d), "patch.diff")], cwd=wt)
        if rc != 0:
            raise SystemExit("patch does not apply: " + out)
        for p in props:
            env = dict(os.environ, VERIF_REPO=wt)
            # the evidence file must describe the unchanged tree: keep it and put it back afterwards
            ev = os.path.join(VERIF, "evidence", p + ".json")
            saved = open(ev).read() if os.path.exists(ev) else None
            t0 = time.time()
            try:
                rc, out = sh([PY, os.path.join(VERIF, "run.py"), p, "--tier", "quick"], cwd=VERIF, env=env, timeout=3600)
            except subprocess.TimeoutExpired:
                rc, out = 124, "timeout"
            viol = [ln for ln in out.splitlines() if ln.startswith("VIOLATION")]
            out_rows.append({"property": p, "exit": rc, "wall_s": round(time.time() - t0, 1), "violations": len(viol),
                             "first": viol[0][:300] if viol else out.strip().splitlines()[-1][:300] if out.strip() else ""})
            # violation replay files written by this run belong to the mutant, not to the tree
            sh("rm -f %s/replays/%s/violation-*.json" % (VERIF, p))
            if saved is not None:
                open(ev, "w").write(saved)
    finally:
        remove(wt)
    print(json.dumps(out_rows, indent=1))
    return 0


def stage(src, prop, k):
    """copy <src>/patch<k>.diff, demo<k>.py, notes<k>.md to seeded/<prop>-m<k>/"""
    d = os.path.join(VERIF, "seeded", "%s-m%s" % (prop, k))
    os.makedirs(d, exist_ok=True)
    shutil.copy(os.path.join(src, "patch%s.diff" % k), os.path.join(d, "patch.diff"))
    shutil.copy(os.path.join(src, "demo%s.py" % k), os.path.join(d, "demo.py"))
    if os.path.exists(os.path.join(src, "notes%s.md" % k)):
        shutil.copy(os.path.join(src, "notes%s.md" % k), os.path.join(d, "notes.md"))
    rc, head = sh(["git", "-C", REPO, "rev-parse", "--short", "HEAD"])
    meta = {"property": prop, "id": "%s-m%s" % (prop, k), "source": "independent agent (property text + scratch worktree only)",
            "applies_to_repo_commit": head.strip()}
    with open(os.path.join(d, "meta.json"), "w") as f:
        json.dump(meta, f, indent=1)
    print(d)
    return 0


if __name__ == "__main__":
    if len(sys.argv) < 3:
        raise SystemExit(__doc__)
    if sys.argv[1] == "stage":
        sys.exit(stage(sys.argv[2], sys.argv[3], sys.argv[4]))
    if sys.argv[1] == "confirm":
        sys.exit(confirm(sys.argv[2], "--suite" in sys.argv))
    if sys.argv[1] == "check":
        sys.exit(check(sys.argv[2], [a for a in sys.argv[3:] if not a.startswith("-")]))
    raise SystemExit(__doc__)

"""Corpus of real Python text: the running interpreter's own stdlib and test-suite, cut into
statements, plus program texts embedded as string constants (test_grammar / test_syntax style),
plus the inputs of xonsh's own parser tests."""

from __future__ import annotations

import ast
import os
import sysconfig
import textwrap
import warnings

from .common import REPO

STDLIB = sysconfig.get_paths()["stdlib"]

GRAMMAR_FILES = ["test/" + f for f in (
    "test_grammar.py test_patma.py test_fstring.py test_syntax.py test_unparse.py test_ast.py "
    "test_named_expressions.py test_positional_only_arg.py test_type_params.py test_type_aliases.py "
    "test_except_star.py test_with.py test_keywordonlyarg.py test_unpack_ex.py test_genexps.py "
    "test_string_literals.py test_tokenize.py test_compile.py test_extcall.py test_dictcomps.py "
    "test_listcomps.py test_setcomps.py test_scope.py test_coroutines.py test_asyncgen.py test_decorators.py "
    "test_global.py test_augassign.py test_unary.py test_binop.py test_int_literal.py test_float.py "
    "test_complex.py test_exceptions.py test_raise.py test_generators.py test_class.py test_typing.py "
    "test_dataclasses/__init__.py test_funcattrs.py test_opcodes.py test_peepholer.py test_dis.py "
    "test_inspect/test_inspect.py test_future_stmt/test_future.py test_slice.py test_index.py test_string.py "
    "test_format.py test_bytes.py test_unicode.py test_lambda.py test_subscript.py test_annotations.py "
    "test_unpack.py test_yield_from.py test_contextlib.py test_contextlib_async.py test_pep646_syntax.py "
    "test_exception_group.py test_walrus.py test_keyword.py test_eof.py test_flufl.py test_utf8source.py"
).split()]


def all_files():
    out = []
    for root, dirs, files in os.walk(STDLIB):
        dirs[:] = sorted(d for d in dirs if d not in ("site-packages", "__pycache__", "lib2to3"))
        for f in sorted(files):
            if f.endswith(".py"):
                out.append(os.path.join(root, f))
    return out


def grammar_files():
    return [os.path.join(STDLIB, f) for f in GRAMMAR_FILES if os.path.exists(os.path.join(STDLIB, f))]


def read_source(path):
    try:
        with open(path, "rb") as f:
            raw = f.read()
        if raw.startswith(b"\xef\xbb\xbf"):
            raw = raw[3:]
        src = raw.decode("utf-8")
    except (UnicodeDecodeError, OSError):
        return None
    if "\x0c" in src or "\r" in src:
        src = src.replace("\x0c", " ").replace("\r\n", "\n").replace("\r", "\n")
    head = src[:300]
    if "coding" in head and "utf-8" not in head.lower() and "utf8" not in head.lower():
        # non-UTF-8 coding declaration: bytes-level concern, outside str input
        first2 = "\n".join(src.split("\n")[:2])
        import re

        m = re.search(r"coding[:=]\s*([-\w.]+)", first2)
        if m and m.group(1).lower() not in ("utf-8", "utf8", "ascii", "us-ascii", "latin-1", "iso-8859-1"):
            return None
    return src


def cpy_parse(src, mode="exec"):
    with warnings.catch_warnings():
        warnings.simplefilter("ignore")
        return ast.parse(src, mode=mode)


def _stmt_span(node):
    start = node.lineno
    for d in getattr(node, "decorator_list", []) or []:
        start = min(start, d.lineno)
    return start, node.end_lineno


def split_statements(src, tree=None, max_chars=2500, depth=0):
    """Yield program texts: statements of `src` (whole lines, dedented); compound statements
    larger than max_chars are additionally opened up."""
    if tree is None:
        try:
            tree = cpy_parse(src)
        except (SyntaxError, ValueError, RecursionError, MemoryError):
            return
    lines = src.split("\n")
    body = tree.body if hasattr(tree, "body") else []
    yield from _split_body(lines, body, max_chars, depth)


def _split_body(lines, body, max_chars, depth):
    i = 0
    n = len(body)
    while i < n:
        s, e = _stmt_span(body[i])
        group = [body[i]]
        j = i + 1
        while j < n and _stmt_span(body[j])[0] <= e:      # `;`-joined statements share a line
            e = max(e, _stmt_span(body[j])[1])
            group.append(body[j])
            j += 1
        text = textwrap.dedent("\n".join(lines[s - 1:e])) + "\n"
        if len(text) <= max_chars:
            yield text
        if len(text) > max_chars or depth < 1:
            for st in group:
                for fld in ("body", "orelse", "finalbody", "handlers", "cases"):
                    sub = getattr(st, fld, None)
                    if not isinstance(sub, list):
                        continue
                    stmts = []
                    for x in sub:
                        if isinstance(x, ast.stmt):
                            stmts.append(x)
                        elif hasattr(x, "body") and isinstance(getattr(x, "body"), list):
                            stmts.extend(y for y in x.body if isinstance(y, ast.stmt))
                    if stmts and (len(text) > max_chars):
                        yield from _split_body(lines, stmts, max_chars, depth + 1)
        i = j


def embedded_programs(tree, min_len=4, max_len=1500):
    """String constants that are themselves Python programs (test_grammar/test_syntax style)."""
    seen = set()
    for node in ast.walk(tree):
        if isinstance(node, ast.Constant) and isinstance(node.value, str):
            s = node.value
            if not (min_len <= len(s) <= max_len) or s in seen:
                continue
            seen.add(s)
            if ">>> " in s:
                for prog in _doctest_programs(s):
                    yield prog
                continue
            t = textwrap.dedent(s).strip("\n")
            if not t or t.isidentifier() or " " not in t and "(" not in t and "=" not in t:
                continue
            try:
                sub = cpy_parse(t + "\n")
            except (SyntaxError, ValueError, RecursionError, MemoryError):
                continue
            # plain prose rarely parses; require some structure
            if any(not isinstance(x, ast.Expr) or not isinstance(x.value, (ast.Name, ast.Constant)) for x in sub.body):
                yield t + "\n"


def _doctest_programs(s):
    cur = []
    for line in s.split("\n"):
        st = line.strip()
        if st.startswith(">>> "):
            if cur:
                yield "\n".join(cur) + "\n"
            cur = [st[4:]]
        elif st.startswith("... ") and cur:
            cur.append(st[4:])
        elif st == "..." and cur:
            cur.append("")
        else:
            if cur:
                yield "\n".join(cur) + "\n"
            cur = []
    if cur:
        yield "\n".join(cur) + "\n"


def xonsh_test_inputs():
    """Python inputs used by xonsh's own parser tests (string constants of tests/parsers/*.py)."""
    d = os.path.join(REPO, "tests", "parsers")
    out = []
    if not os.path.isdir(d):
        return out
    for f in sorted(os.listdir(d)):
        if f.endswith(".py"):
            src = read_source(os.path.join(d, f))
            if not src:
                continue
            try:
                tree = cpy_parse(src)
            except SyntaxError:
                continue
            for node in ast.walk(tree):
                if isinstance(node, ast.Constant) and isinstance(node.value, str) and 1 <= len(node.value) <= 800:
                    out.append(node.value if node.value.endswith("\n") else node.value + "\n")
    return sorted(set(out))

#!/bin/sh
# usage: tools/thorough.sh "Cxx Cyy ..." [seed]  - run thorough tiers one after the other, print the summary lines and violation cases
cd "$(dirname "$0")/.."
sh setup.sh >/dev/null 2>&1
for P in $1; do
  /venv/bin/python run.py $P --tier thorough --seed ${2:-1} 2>&1 | grep -v '^KNOWN' | cut -c1-400
  /venv/bin/python - <<PY
import json,glob
for f in sorted(glob.glob('replays/$P/violation-*.json')):
    d=json.load(open(f)); print(f); print('   ', json.dumps(d['case'])[:900]); print('   ', d['kind'], '|', str(d['detail'])[:400])
PY
done

"""LALR tables built from /repo's *current* parser sources (DESIGN 1.6).

xonsh loads `xonsh/parser_table.py` (git-ignored build output) with optimize=True, which skips
PLY's grammar-signature check; after a grammar edit the stale table would silently be used.
We therefore build the tables into /verif/.work/tables/<hash-of-parser-sources>/ and install
them in sys.modules under the names xonsh imports, so every Parser()/CompletionContextParser()
created anywhere in the process (including inside xonsh itself) runs on tables that match the
working tree.  /repo is never written."""

from __future__ import annotations

import fcntl
import glob
import hashlib
import importlib.util
import os
import shutil
import sys
import time

from .common import REPO, WORK, HarnessError

TABLE_ROOT = os.path.join(WORK, "tables")


def source_hash() -> str:
    h = hashlib.sha256()
    files = sorted(glob.glob(os.path.join(REPO, "xonsh", "parsers", "*.py"))
                   + glob.glob(os.path.join(REPO, "xonsh", "parsers", "ply", "*.py")))
    for f in files:
        h.update(os.path.relpath(f, REPO).encode())
        with open(f, "rb") as fh:
            h.update(fh.read())
    h.update(sys.version.encode())
    return h.hexdigest()[:20]


def _build(d):
    if REPO not in sys.path:
        sys.path.insert(0, REPO)
    from xonsh.parsers.completion_context import CompletionContextParser
    from xonsh.parser import Parser

    p = Parser(yacc_optimize=False, yacc_table="vp_table", outputdir=d)
    # the table is built lazily on a loader thread
    t0 = time.time()
    while p.parser is None:
        if time.time() - t0 > 300:
            raise HarnessError("parser table build did not finish")
        time.sleep(0.05)
    CompletionContextParser(yacc_optimize=False, yacc_table="vc_table", outputdir=d)
    for name in ("vp_table.py", "vc_table.py"):
        if not os.path.exists(os.path.join(d, name)):
            raise HarnessError("table build did not write %s" % name)
    for m in ("xonsh.parsers.vp_table", "xonsh.parsers.vc_table"):
        sys.modules.pop(m, None)


def ensure_built() -> str:
    hs = source_hash()
    d = os.path.join(TABLE_ROOT, hs)
    marker = os.path.join(d, "COMPLETE")
    if os.path.exists(marker):
        try:
            os.utime(marker)          # mark as recently used
        except OSError:
            pass
        return d
    os.makedirs(TABLE_ROOT, exist_ok=True)
    with open(os.path.join(TABLE_ROOT, ".lock"), "w") as lk:
        fcntl.flock(lk, fcntl.LOCK_EX)
        if os.path.exists(marker):
            return d
        shutil.rmtree(d, ignore_errors=True)
        os.makedirs(d)
        # build in a child so that the half-initialised parser objects never live in a check
        import subprocess

        r = subprocess.run(
            [sys.executable, "-c",
             "import sys; sys.path[0:0]=[%r,%r]; from vlib import tables; tables._build(%r)"
             % (os.path.dirname(os.path.dirname(os.path.abspath(__file__))), REPO, d)],
            capture_output=True, text=True, env=dict(os.environ, VERIF_REPO=REPO))
        if r.returncode != 0:
            # A grammar that PLY cannot build is a property of the tree under test, but not a
            # property violation we can attribute; report as harness error with the output.
            raise HarnessError("parser table build failed:\n" + r.stdout[-2000:] + r.stderr[-4000:])
        with open(marker, "w") as f:
            f.write(hs)
        # prune table dirs that have not been used for a while (never a fresh one: a concurrent
        # run against another tree - VERIF_REPO - may be using it)
        now = time.time()
        for old in os.listdir(TABLE_ROOT):
            p = os.path.join(TABLE_ROOT, old)
            try:
                if os.path.isdir(p) and old != hs and now - os.path.getmtime(os.path.join(p, "COMPLETE")) > 6 * 3600:
                    shutil.rmtree(p, ignore_errors=True)
            except OSError:
                pass
    return d


def _load(path, modname):
    spec = importlib.util.spec_from_file_location(modname, path)
    mod = importlib.util.module_from_spec(spec)
    spec.loader.exec_module(mod)
    return mod


def install() -> str:
    """Build if needed and install the tables under the module names xonsh imports."""
    d = ensure_built()
    if REPO not in sys.path:
        sys.path.insert(0, REPO)
    import xonsh  # noqa: F401  (package must exist before we add submodules)

    sys.modules["xonsh.parser_table"] = _load(os.path.join(d, "vp_table.py"), "xonsh.parser_table")
    sys.modules["xonsh.completion_parser_table"] = _load(
        os.path.join(d, "vc_table.py"), "xonsh.completion_parser_table")
    return d

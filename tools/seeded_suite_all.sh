#!/bin/sh
# run `seeded.py confirm --suite` for every seeded/<id> that has no suite result yet; results in seeded/<id>/confirm.json
cd "$(dirname "$0")/.."
for d in seeded/*/; do
  d=${d%/}
  [ -f "$d/patch.diff" ] || continue
  [ -f "$d/confirm.json" ] && continue
  python3 tools/seeded.py confirm "$d" --suite > "$d/confirm.json" 2>&1
done

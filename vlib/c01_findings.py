"""Narrow predicates for the recorded C01 parser findings.

Each entry:  id -> (failure kinds, regex on the diff path / detail, feature predicate, example).
A failure is attributed to a finding only if (1) its kind is one the finding produces, (2) the
detail matches the finding's regex and (3) the *minimal* failing program has the syntactic feature.
Generators use the feature predicates alone to avoid the shapes (counted as excluded_known)."""

from __future__ import annotations

import ast
import io
import re
import tokenize
import unicodedata

REDIR_NAMES = {"a", "e", "o", "all", "err", "out", "1", "2"}


class Ctx:
    def __init__(self, src, tree, mode="exec"):
        self.src = src
        self.tree = tree
        self.mode = mode
        self._toks = None
        self._parents = None
        self._lines = None
        self._pm = None

    @property
    def toks(self):
        if self._toks is None:
            try:
                self._toks = list(tokenize.generate_tokens(io.StringIO(self.src).readline))
            except Exception:  # noqa: BLE001
                self._toks = []
        return self._toks

    @property
    def parents(self):
        if self._parents is None:
            p = {}
            for n in ast.walk(self.tree):
                for c in ast.iter_child_nodes(n):
                    p[c] = n
            self._parents = p
        return self._parents

    def nodes(self, *types):
        return [n for n in ast.walk(self.tree) if isinstance(n, types)]

    def seg(self, node):
        try:
            return ast.get_source_segment(self.src, node) or ""
        except Exception:  # noqa: BLE001
            return ""

    def charpos(self, lineno, col):
        """AST (line, utf-8 byte col) -> tokenize (line, character col)."""
        if self._lines is None:
            self._lines = re.split(r"\r\n|\r|\n", self.src)
        try:
            line = self._lines[lineno - 1]
        except IndexError:
            return (lineno, col)
        return (lineno, len(line.encode("utf-8")[:col].decode("utf-8", "ignore")))

    @property
    def paren_match(self):
        if self._pm is None:
            pm, stack = {}, []
            for t in self.toks:
                if t.type == tokenize.OP and t.string in "([{":
                    stack.append(t)
                elif t.type == tokenize.OP and t.string in ")]}" and stack:
                    o = stack.pop()
                    pm[o.start] = t.end
            self._pm = pm
        return self._pm

    def bare_tuple(self, node):
        """Tuple written without its own parentheses (token-based: `(a), b` is bare)."""
        if not isinstance(node, ast.Tuple):
            return False
        if not hasattr(node, "lineno"):
            return True
        start = self.charpos(node.lineno, node.col_offset)
        end = self.charpos(node.end_lineno, node.end_col_offset)
        close = self.paren_match.get(start)
        if close is None:
            return True
        first = self.src_at(start)
        if first != "(":
            return True
        return close != end

    def src_at(self, pos):
        if self._lines is None:
            self._lines = re.split(r"\r\n|\r|\n", self.src)
        try:
            return self._lines[pos[0] - 1][pos[1]]
        except IndexError:
            return ""


def _f_annassign_simple(c):
    return any(n.simple == 0 for n in c.nodes(ast.AnnAssign))


def _f_for_target_1tuple(c):
    for n in c.nodes(ast.For, ast.AsyncFor, ast.comprehension):
        t = n.target
        if isinstance(t, ast.Tuple) and len(t.elts) == 1 and c.bare_tuple(t):
            return True
    return False


def _f_redirect_ge(c):
    tk = c.toks
    for i in range(len(tk) - 1):
        a, b = tk[i], tk[i + 1]
        if not (a.type in (tokenize.NAME, tokenize.NUMBER) and a.string in REDIR_NAMES and b.type == tokenize.OP
                and a.end == b.start):
            continue
        if b.string in (">=", ">>="):
            return True
        if b.string in (">", ">>") and i + 2 < len(tk):
            n = tk[i + 2]
            # a>print, e>other: the lexer takes a>p / e>o as a redirect token and leaves the rest
            if n.start == b.end and n.type == tokenize.NAME and len(n.string) >= 2 and n.string[0] in "poe":
                return True
            if n.start == b.end and n.type == tokenize.NUMBER and len(n.string) >= 2 and n.string[0] in "12":
                return True
    return False


def _is_starred_bare_tuple(c, node):
    return isinstance(node, ast.Tuple) and c.bare_tuple(node) and any(isinstance(e, ast.Starred) for e in node.elts)


def _f_starred_bare_tuple(c):
    # x = *a, b / x += *a, b / for x in *a, b / x: T = *a, b / expression statement `a, *b` (star not first)
    for n in c.nodes(ast.Assign, ast.AugAssign, ast.AnnAssign):
        if n.value is not None and _is_starred_bare_tuple(c, n.value):
            return True
    for n in c.nodes(ast.For, ast.AsyncFor):
        if _is_starred_bare_tuple(c, n.iter):
            return True
    for n in c.nodes(ast.Expr):
        v = n.value
        if _is_starred_bare_tuple(c, v) and not isinstance(v.elts[0], ast.Starred):
            return True
        if _is_starred_bare_tuple(c, v) and any(isinstance(e, ast.Starred) for e in v.elts[1:]):
            return True
    return False


def _f_star_in_set(c):
    for n in c.nodes(ast.Set):
        if any(isinstance(e, ast.Starred) for e in n.elts[1:]) and not isinstance(n.elts[0], ast.Starred):
            return True
    return False


def _slice_items(n):
    s = n.slice
    return list(s.elts) if isinstance(s, ast.Tuple) else [s]


def _f_star_in_subscript(c):
    return any(isinstance(e, ast.Starred) for n in c.nodes(ast.Subscript) for e in _slice_items(n))


def _f_walrus_in_subscript(c):
    for n in c.nodes(ast.Subscript):
        for e in _slice_items(n):
            if isinstance(e, ast.NamedExpr) and not c.seg(e).startswith("("):
                # ast segment of a parenthesised walrus excludes the parens; check the char before
                off = _offset(c.src, e.lineno, e.col_offset)
                if off == 0 or c.src[:off].rstrip()[-1:] != "(":
                    return True
    return False


def _offset(src, lineno, col):
    lines = src.split("\n")
    return sum(len(x) + 1 for x in lines[:lineno - 1]) + len(lines[lineno - 1].encode("utf-8")[:col].decode("utf-8", "ignore"))


def _f_vararg_annotation(c):
    # def f(a, *args, **kw: T)   and   def f(*args: *Ts)
    for n in c.nodes(ast.arguments):
        if n.vararg is not None and isinstance(n.vararg.annotation, ast.Starred):
            return True
        if n.vararg is not None and n.kwarg is not None and n.kwarg.annotation is not None and (n.args or n.posonlyargs):
            return True
        if n.vararg is not None and n.vararg.annotation is not None and n.kwarg is not None and n.kwarg.annotation is not None:
            return True
    return False


def _f_paren_with(c):
    """`with ( ... ):` where the parenthesis encloses the whole item list (token-based)."""
    tk = [t for t in c.toks if t.type not in (tokenize.NL, tokenize.COMMENT, tokenize.NEWLINE, tokenize.INDENT, tokenize.DEDENT)]
    for n in c.nodes(ast.With, ast.AsyncWith):
        start = c.charpos(n.lineno, n.col_offset)
        for i, t in enumerate(tk):
            if t.start < start:
                continue
            # t is `with` (or `async` then `with`)
            j = i
            if tk[j].string == "async" and j + 1 < len(tk):
                j += 1
            if tk[j].string != "with" or j + 1 >= len(tk):
                break
            op = tk[j + 1]
            if not (op.type == tokenize.OP and op.string == "("):
                break
            close_end = c.paren_match.get(op.start)
            if close_end is None:
                break
            # token after the matching close paren must be ':'
            after = None
            last_inner = None
            for k in range(j + 2, len(tk)):
                if tk[k].end == close_end:
                    after = tk[k + 1] if k + 1 < len(tk) else None
                    last_inner = tk[k - 1]
                    break
            if after is None or not (after.type == tokenize.OP and after.string == ":"):
                break
            if len(n.items) > 1 or any(it.optional_vars is not None for it in n.items) \
                    or (last_inner is not None and last_inner.type == tokenize.OP and last_inner.string == ","):
                return True
            break
    return False


def _f_posonly_default(c):
    for n in c.nodes(ast.arguments):
        if n.posonlyargs and len(n.defaults) > len(n.args):
            return True
    return False


def _f_typeparam_bound(c):
    return any(n.bound is not None for n in c.nodes(ast.TypeVar))


def _f_empty_target(c):
    for n in c.nodes(ast.Tuple, ast.List):
        if not n.elts and isinstance(n.ctx, (ast.Store, ast.Del)):
            p = c.parents.get(n)
            # `for () in x` is accepted; assignment and del targets are not
            while isinstance(p, (ast.Tuple, ast.List, ast.Starred)):
                p = c.parents.get(p)
            if isinstance(p, (ast.Assign, ast.Delete, ast.AugAssign, ast.AnnAssign)):
                return True
    return False


def _f_at_paren(c):
    tk = c.toks
    for a, b in zip(tk, tk[1:]):
        if a.type == tokenize.OP and a.string == "@" and b.type == tokenize.OP and b.string == "(" and a.end == b.start:
            return True
    return False


def _dotted(n):
    while isinstance(n, ast.Attribute):
        n = n.value
    return isinstance(n, ast.Name)


def _f_decorator_expr(c):
    for n in c.nodes(ast.FunctionDef, ast.AsyncFunctionDef, ast.ClassDef):
        for d in n.decorator_list:
            if _parenthesised(c, d):
                return True
            if _dotted(d):
                if "(" in c.seg(d):
                    return True          # @(a).b
                continue
            if isinstance(d, ast.Call) and _dotted(d.func):
                if "(" in c.seg(d.func) or _parenthesised(c, d.func):
                    return True          # @((a)).b()
                continue
            return True
    return False


def _f_type_stmt_in_block(c):
    sig = [t for t in c.toks if t.type not in (tokenize.NL, tokenize.COMMENT, tokenize.INDENT, tokenize.DEDENT)]
    for n in c.nodes(ast.TypeAlias):
        if not isinstance(c.parents.get(n), ast.Module):
            return True
        start = c.charpos(n.lineno, n.col_offset)
        end = c.charpos(n.end_lineno, n.end_col_offset)
        for i, t in enumerate(sig):
            if t.start == start and i > 0 and sig[i - 1].type != tokenize.NEWLINE:
                return True      # something (`;`) precedes it on the logical line
            if t.start >= end:
                if t.type not in (tokenize.NEWLINE, tokenize.ENDMARKER):
                    return True  # `;` follows it
                break
    return False


def _f_star_arg_lowprec(c):
    for n in c.nodes(ast.Call):
        for a in n.args:
            if isinstance(a, ast.Starred) and isinstance(a.value, (ast.BoolOp, ast.IfExp, ast.Lambda)) \
                    and not _parenthesised(c, a.value):
                return True
            if isinstance(a, ast.Starred) and isinstance(a.value, ast.UnaryOp) and isinstance(a.value.op, ast.Not) \
                    and not _parenthesised(c, a.value):
                return True
    return False


def _parenthesised(c, node):
    """The node is directly wrapped in its own parentheses (token-based, so comments, blanks and
    backslash continuations between the parenthesis and the node do not matter)."""
    start = c.charpos(node.lineno, node.col_offset)
    end = c.charpos(node.end_lineno, node.end_col_offset)
    tk = [t for t in c.toks if t.type not in (tokenize.NL, tokenize.COMMENT, tokenize.NEWLINE, tokenize.INDENT, tokenize.DEDENT)]
    prev = nxt = None
    for i, t in enumerate(tk):
        if t.start >= start and prev is None:
            prev = tk[i - 1] if i > 0 else False
        if t.start >= end:
            nxt = t
            break
    if not prev or nxt is None:
        return False
    return prev.type == tokenize.OP and prev.string == "(" and nxt.type == tokenize.OP and nxt.string == ")" \
        and c.paren_match.get(prev.start) == nxt.end


def _f_subscript_1tuple(c):
    for n in c.nodes(ast.Subscript):
        s = n.slice
        if isinstance(s, ast.Tuple) and len(s.elts) == 1 and c.bare_tuple(s):
            return True
    return False


def _f_annassign_value(c):
    for n in c.nodes(ast.AnnAssign):
        v = n.value
        if v is None:
            continue
        if isinstance(v, ast.Tuple) and c.bare_tuple(v):
            return True
        if isinstance(v, (ast.Yield, ast.YieldFrom)) and not _parenthesised(c, v):
            return True
    return False


def _first_stmt(c):
    body = getattr(c.tree, "body", None)
    if isinstance(body, list) and body:
        return body[0]
    if isinstance(c.tree, ast.Expression):
        return ast.Expr(value=c.tree.body)
    return None


def _f_first_stmt_bare_tuple(c):
    s = _first_stmt(c)
    return isinstance(s, ast.Expr) and isinstance(s.value, ast.Tuple) and c.bare_tuple(s.value)


def _f_brace_then_comma(c):
    # an unparenthesised tuple in expression-statement / assignment-value position with a non-empty
    # {...} display or comprehension that is not its last element
    for n in c.nodes(ast.Tuple):
        if len(n.elts) < 2 or not c.bare_tuple(n):
            continue
        p = c.parents.get(n)
        if not (isinstance(p, (ast.Expr, ast.Assign, ast.AugAssign, ast.Expression)) or p is None):
            continue
        for e in n.elts[:-1]:
            if isinstance(e, (ast.SetComp, ast.DictComp)) or (isinstance(e, ast.Set) and e.elts) \
                    or (isinstance(e, ast.Dict) and e.keys):
                return True
    return False


def _f_match_nested_seq(c):
    for n in c.nodes(ast.MatchSequence):
        if any(isinstance(p, ast.MatchSequence) for p in n.patterns):
            return True
    return False


def _f_nfkc(c):
    for t in c.toks:
        if t.type == tokenize.NAME:
            if unicodedata.normalize("NFKC", t.string) != t.string:
                return True
            # identifier characters outside what \\w matches (combining marks, variation selectors)
            if not all(ch == "_" or ch.isalnum() for ch in t.string):
                return True
    return False


def _fstring_middles(c):
    return [t.string for t in c.toks if t.type == getattr(tokenize, "FSTRING_MIDDLE", -1)]


def _fstring_starts(c):
    return [t for t in c.toks if t.type == getattr(tokenize, "FSTRING_START", -1)]


def _f_fs_named_escape(c):
    return any("\\N{" in m for m in _fstring_middles(c))


def _f_fs_backslash_brace(c):
    # a backslash directly before a replacement field or before a doubled brace
    tk = c.toks
    for a, b in zip(tk, tk[1:]):
        if a.type == getattr(tokenize, "FSTRING_MIDDLE", -1) and a.string.endswith("\\") and b.type == tokenize.OP \
                and b.string == "{":
            return True
    return any("\\{" in m or "\\}" in m for m in _fstring_middles(c))


def _f_fs_nested_spec(c):
    for n in c.nodes(ast.FormattedValue):
        if isinstance(n.format_spec, ast.JoinedStr):
            for v in n.format_spec.values:
                if isinstance(v, ast.FormattedValue) and (v.conversion != -1 or v.format_spec is not None):
                    return True
    return False


def _f_fs_spec_escape(c):
    # a backslash inside a format spec
    tk = c.toks
    depth_colon = False
    for i, t in enumerate(tk):
        if t.type == getattr(tokenize, "FSTRING_MIDDLE", -1) and "\\" in t.string:
            # is the previous significant token a ':' (format spec start) or a '}' within a spec?
            j = i - 1
            if j >= 0 and tk[j].type == tokenize.OP and tk[j].string == ":":
                return True
    return depth_colon


def _f_fs_spec_newline(c):
    # literal newline inside the format spec of a single-quoted (not triple-quoted) f-string:
    # after the ':' of a replacement field, a FSTRING_MIDDLE containing a newline or followed by NL
    stack = []
    tk = c.toks
    for i, t in enumerate(tk):
        if t.type == getattr(tokenize, "FSTRING_START", -1):
            stack.append(t.string)
        elif t.type == getattr(tokenize, "FSTRING_END", -1) and stack:
            stack.pop()
        elif t.type == getattr(tokenize, "FSTRING_MIDDLE", -1) and stack:
            q = stack[-1]
            if q.endswith('"""') or q.endswith("'''"):
                continue
            nxt = tk[i + 1] if i + 1 < len(tk) else None
            if "\n" in t.string or (nxt is not None and nxt.type == tokenize.NL):
                return True
    return False


def _f_fs_raw_quote(c):
    for t in _fstring_starts(c):
        s = t.string.lower()
        if "r" in s:
            q = s[-1]
            # raw f-string containing backslash + its own quote char
            for m in _fstring_middles(c):
                if "\\" + q in m:
                    return True
    return False


def _f_fs_yield(c):
    for n in c.nodes(ast.FormattedValue):
        if isinstance(n.value, (ast.Yield, ast.YieldFrom)):
            return True
    return False


def _f_backslash_blank(c):
    return re.search(r"\\\n[ \t]*\n", c.src) is not None


def _f_eval_leading_comment(c):
    if c.mode != "eval":
        return False
    for line in c.src.split("\n"):
        st = line.strip()
        if st == "" or st.startswith("#"):
            return True
    return False


def _f_match_walrus_subject(c):
    for n in c.nodes(ast.Match):
        if isinstance(n.subject, ast.NamedExpr) and not _parenthesised(c, n.subject):
            return True
    return False


def _f_number_keyword(c):
    # `and` / `or` touching a neighbouring token: 1or 2, (a)or b, a or(b), a or-b
    tk = [t for t in c.toks if t.type != tokenize.NL]
    for i, t in enumerate(tk):
        if t.type == tokenize.NAME and t.string in ("or", "and"):
            if i > 0 and tk[i - 1].end == t.start:
                return True
            if i + 1 < len(tk) and tk[i + 1].start == t.end and tk[i + 1].type not in (tokenize.NEWLINE, tokenize.ENDMARKER):
                return True
    return False


def _f_fs_multiline_single(c):
    # PEP 701: a single-quoted f-string whose replacement field spans lines
    stack = []
    for t in c.toks:
        if t.type == getattr(tokenize, "FSTRING_START", -1):
            stack.append(t)
        elif t.type == getattr(tokenize, "FSTRING_END", -1) and stack:
            s0 = stack.pop()
            q = s0.string
            if not (q.endswith('"""') or q.endswith("'''")) and s0.start[0] != t.end[0]:
                return True
    return False


def _f_match_call_stmt(c):
    # a statement that starts with the soft keyword `match` used as a name, followed by ( or [
    tk = [t for t in c.toks if t.type not in (tokenize.NL, tokenize.COMMENT, tokenize.INDENT, tokenize.DEDENT)]
    prev = None
    for a, b in zip(tk, tk[1:]):
        at_start = prev is None or prev.type == tokenize.NEWLINE or (prev.type == tokenize.OP and prev.string in (";", ":"))
        starts_expr = (b.type == tokenize.OP and b.string in ("(", "[", "{", "+", "-", "*", "@", "~", "...")) or \
            (b.type == tokenize.NAME and b.string in ("not", "lambda", "await")) or \
            b.type in (tokenize.NUMBER, tokenize.STRING, getattr(tokenize, "FSTRING_START", -1))
        if at_start and a.type == tokenize.NAME and a.string == "match" and starts_expr:
            # is it really a call/subscript statement, not a match statement?
            for n in c.nodes(ast.Match):
                if c.charpos(n.lineno, n.col_offset) == a.start:
                    break
            else:
                return True
        prev = a
    return False


def _f_walrus_in_set(c):
    for n in c.nodes(ast.NamedExpr):
        if _parenthesised(c, n):
            continue
        p = c.parents.get(n)
        if isinstance(p, ast.Set):
            return True
        if isinstance(p, ast.SetComp) and p.elt is n:
            return True
        if isinstance(p, ast.GeneratorExp) and p.elt is n and isinstance(c.parents.get(p), ast.Call):
            return True
    return False


def _f_chained_assign_star(c):
    for n in c.nodes(ast.Assign):
        if len(n.targets) < 2:
            continue
        for i, t in enumerate(n.targets):
            if isinstance(t, ast.Tuple) and c.bare_tuple(t) and any(isinstance(e, ast.Starred) for e in t.elts):
                if i > 0 or not isinstance(t.elts[0], ast.Starred):
                    return True
    return False


def _f_set_in_set(c):
    for n in c.nodes(ast.Set):
        for e in n.elts[:-1]:
            if isinstance(e, ast.Set) and e.elts:
                return True
    return False


def _f_list_of_genexp(c):
    for n in c.nodes(ast.List):
        if len(n.elts) == 1 and isinstance(n.elts[0], ast.GeneratorExp) and isinstance(n.ctx, ast.Load):
            return True
    return False


def _f_fs_spec_doubled_brace(c):
    # CPython 3.12 reads `{{...}}` inside a format spec as a nested replacement field holding a
    # {...} display; xonsh reads it differently
    for n in c.nodes(ast.FormattedValue):
        if isinstance(n.format_spec, ast.JoinedStr):
            for v in n.format_spec.values:
                if isinstance(v, ast.FormattedValue):
                    off = _offset(c.src, v.value.lineno, v.value.col_offset)
                    if off > 0 and c.src[off - 1] == "{" and c.src[off:off + 1] == "{":
                        return True
    return False


def _f_fs_triple_middle_quote(c):
    # triple-quoted f-string: a literal part that contains a backslash escape and ends with the
    # delimiter's own quote character
    stack = []
    for t in c.toks:
        if t.type == getattr(tokenize, "FSTRING_START", -1):
            stack.append(t.string)
        elif t.type == getattr(tokenize, "FSTRING_END", -1) and stack:
            stack.pop()
        elif t.type == getattr(tokenize, "FSTRING_MIDDLE", -1) and stack:
            q = stack[-1]
            if (q.endswith('"""') or q.endswith("'''")) and "r" not in q.lower()[:-3] and "\\" in t.string \
                    and t.string.endswith(q[-1]):
                return True
    return False


def _f_fs_single_continued(c):
    # a single-quoted f-string continued over a physical line with backslash-newline
    stack = []
    for t in c.toks:
        if t.type == getattr(tokenize, "FSTRING_START", -1):
            stack.append((t.string, t.start[0]))
        elif t.type == getattr(tokenize, "FSTRING_END", -1) and stack:
            q, line = stack.pop()
            if not (q.endswith('"""') or q.endswith("'''")) and t.end[0] != line:
                return True
    return False


FINDINGS = {
    # id: (kinds, detail regex, feature, example, what)
    "C01-F01": (("tree-differs",), r"AnnAssign\.simple", _f_annassign_simple, "self.x: int = 1\n",
                "annotated assignment to a non-name or parenthesised target gets AnnAssign.simple=1 (CPython: 0); the tree does not compile"),
    "C01-F02": (("tree-differs",), r"\.target", _f_for_target_1tuple, "for i, in xs: pass\n",
                "one-element unparenthesised tuple target of for / comprehension is parsed as the bare name (wrong unpacking semantics)"),
    "C01-F03": (("reject",), r"code: ", _f_redirect_ge, "if a>=b: pass\n",
                "a name/number that is also a redirect prefix (a e o all err out 1 2) directly followed by >= or >>= (or by > and a name starting with p/o/e, e.g. a>print) is lexed as a redirect; the text is rejected"),
    "C01-F04": (("reject",), r"code: \*|unexpected newline", _f_starred_bare_tuple, "x = *a, b\n",
                "starred element in an unparenthesised tuple on the right of = / augmented = / for-in, or after the first element of a tuple expression statement, is rejected"),
    "C01-F05": (("reject",), r"code: \*", _f_star_in_set, "{a, *b}\n",
                "starred element after a plain first element in a set display is rejected"),
    "C01-F06": (("reject",), r"code: \*", _f_star_in_subscript, "a[*b]\n",
                "starred expression inside a subscript (PEP 646) is rejected"),
    "C01-F07": (("reject",), r"code: :=", _f_walrus_in_subscript, "x = a[b:=1]\n",
                "unparenthesised walrus inside a subscript is rejected"),
    "C01-F08": (("reject",), r"code: [:*]", _f_vararg_annotation, "def f(a, *args: T, **kw: T): pass\n",
                "annotated **kwargs after *args when positional parameters precede (or *args is annotated too), and *args: *Ts, are rejected"),
    "C01-F09": (("reject", "tree-differs"), r"code: as|With\.items|withitem", _f_paren_with, "with (a as b, c as d): pass\n",
                "parenthesised with-items: rejected when an item has `as`; several items / trailing comma are parsed as one tuple-valued item"),
    "C01-F10": (("tree-differs",), r"arguments\.defaults", _f_posonly_default, "def f(a=1, /, b=2): pass\n",
                "defaults of positional-only parameters are dropped when other parameters follow the /"),
    "C01-F11": (("compile-differs",), r"line range", _f_typeparam_bound, "def o[F: int](m): pass\n",
                "a type parameter with a bound gets invalid position info: compile() raises ValueError"),
    "C01-F12": (("reject",), r"can't (assign to|delete) \(\)", _f_empty_target, "() = x\n",
                "empty tuple/list as assignment or del target is rejected"),
    "C01-F13": (("reject",), r"code: @\(", _f_at_paren, "a @(b)\n",
                "@ directly followed by ( is always lexed as xonsh's @( token: matrix multiplication `a @(b)` and decorator `@(a)` are rejected"),
    "C01-F14": (("reject", "tree-differs"), r"code: |Interactive\.body|Module\.body", _f_decorator_expr, "@a[0]\ndef f(): pass\n",
                "decorators that are not a dotted name with at most one call (PEP 614 general expressions) are rejected or misparsed"),
    "C01-F15": (("reject", "tree-differs"), r"unexpected newline|code: |^root:", _f_type_stmt_in_block, "def f():\n    type X = int\n",
                "a `type X = ...` statement that is not alone on a top-level line (inside a block, before or after `;`) is rejected or makes the parser return a single-input root"),
    "C01-F16": (("reject", "tree-differs"), r"code: (or|and|if)|Starred\.ctx", _f_star_arg_lowprec, "f(*a or b)\n",
                "*-argument whose value is an unparenthesised or/and/if-else expression is rejected; for not/lambda the Starred node lacks ctx"),
    "C01-F17": (("tree-differs",), r"Subscript\.slice", _f_subscript_1tuple, "d[1,]\n",
                "subscript with a one-element tuple index `d[1,]` is parsed as `d[1]`"),
    "C01-F18": (("reject",), r"code: (,|yield|\*)", _f_annassign_value, "x: int = 1, 2\n",
                "annotated assignment whose value is an unparenthesised tuple or yield is rejected"),
    "C01-F19": (("reject", "tree-differs", "internal"), r"", _f_first_stmt_bare_tuple, "x, y\nz\n",
                "a program whose first statement is an unparenthesised tuple expression is parsed as eval input: Expression root (not compilable in exec mode) or the following statements are rejected"),
    "C01-F20": (("tree-differs",), r"", _f_brace_then_comma, "y = {1}, {2}\n",
                "an unparenthesised tuple starting with a {...} display (or a parenthesised one) in statement position is misparsed: `{1}, {2}` becomes the set {1, {2}}"),
    "C01-F21": (("tree-differs",), r"Match", _f_match_nested_seq, "match x:\n    case [1, [2]]: pass\n",
                "a sequence pattern nested as an element of a sequence pattern is flattened into / dropped from the outer pattern"),
    "C01-F22": (("tree-differs", "reject"), r"\.(id|arg|attr|name)|SyntaxError", _f_nfkc, "\u0374 = 1\n",
                "identifiers are not NFKC-normalised as CPython does, and identifier characters that are not alphanumeric (combining marks, variation selectors) are rejected"),
    "C01-F23": (("reject",), r"", _f_fs_named_escape, "f'\\N{DIGIT ONE}'\n",
                "\\N{...} named escape inside an f-string is rejected"),
    "C01-F24": (("reject",), r"", _f_fs_backslash_brace, "f'\\{a}'\n",
                "backslash directly before a brace in a non-raw f-string is rejected"),
    "C01-F25": (("reject",), r"code: [!:]", _f_fs_nested_spec, "f'{a:{b!r}}'\n",
                "a nested replacement field with its own conversion or format spec inside a format spec is rejected"),
    "C01-F26": (("tree-differs",), r"format_spec", _f_fs_spec_escape, "f'{a:\\x41}'\n",
                "backslash escapes inside an f-string format spec are not decoded"),
    "C01-F27": (("reject",), r"EOL while scanning", _f_fs_spec_newline, "f'{x:\n}'\n",
                "a literal newline inside the format spec of an f-string is rejected"),
    "C01-F28": (("reject",), r"", _f_fs_raw_quote, "fr'\\''\n",
                "raw f-string containing a backslash followed by its own quote character is rejected"),
    "C01-F29": (("reject",), r"code: yield", _f_fs_yield, "def g():\n    f'{yield}'\n",
                "unparenthesised yield inside an f-string replacement field is rejected"),
    "C01-F30": (("reject",), r"", _f_backslash_blank, "\\\n\n        \\\n\n\n",
                "a backslash continuation followed by a blank line is rejected"),
    "C01-F31": (("tree-differs", "reject"), r"", _f_eval_leading_comment, "#if\n()\n#endif\n",
                "eval-mode input with a comment-only or blank line before or after the expression yields a Module root instead of Expression"),
    "C01-F32": (("reject",), r"code: :=", _f_match_walrus_subject, "match w := x:\n    case y: pass\n",
                "unparenthesised walrus as match subject is rejected"),
    "C01-F33": (("reject",), r"code: (or|and)", _f_number_keyword, "1or 2\n",
                "the keywords and/or written without a blank on either side (1or 2, (a)or b, a or(b), a or-b) are rejected"),
    "C01-F34": (("reject",), r"unexpected newline|code: ", _f_match_call_stmt, "match(x)\n",
                "a statement that starts with the name `match` (soft keyword used as identifier) followed by a token that can start an expression - match(x), match[0], match -1, match @ d, match not in x - is rejected"),
    "C01-F35": (("reject",), r"", _f_fs_multiline_single, "x = f\"{\n1}\"\n",
                "a single-quoted f-string whose replacement field spans several lines (PEP 701) is rejected when it does not start the line"),
    "C01-F36": (("reject",), r"code: (:=|for)", _f_walrus_in_set, "{a := 1}\n",
                "unparenthesised walrus as element of a set display / set comprehension / sole generator argument is rejected"),
    "C01-F37": (("reject",), r"code: [=*]", _f_chained_assign_star, "a, *b = c = 1\n",
                "chained assignment with an unparenthesised starred tuple target (a, *b = c = 1; c = *a, b = 1) is rejected"),
    "C01-F38": (("tree-differs",), r"", _f_set_in_set, "{{1}, 2}\n",
                "a non-empty set display as a non-last element of a set display absorbs the following elements: {{1}, 2} becomes {{1, 2}}"),
    "C01-F39": (("tree-differs",), r"", _f_list_of_genexp, "[(x for x in y)]\n",
                "a list display whose only element is a parenthesised generator expression is parsed as a list comprehension"),
    "C01-F40": (("tree-differs", "reject"), r"", _f_fs_spec_doubled_brace, "f'{a:{{}}}'\n",
                "a nested replacement field inside a format spec whose expression is a {...} display (CPython reads `{a:{{}}}` that way) is parsed differently"),
    "C01-F41": (("tree-differs",), r"JoinedStr", _f_fs_triple_middle_quote, "f\"\"\"\\n\"{b}\"\"\"\n",
                "in a triple-quoted f-string a literal part that ends with the delimiter's quote character (right before a replacement field) keeps its backslash escapes undecoded"),
    "C01-F43": (("reject",), r"EOL while scanning f-string", _f_fs_single_continued, "x = f\"a\\\nb\"\n",
                "a single-quoted f-string (any prefix: f, rf, F) continued over a line with backslash-newline is rejected ('EOL while scanning f-string'); the same text as a plain string, or triple-quoted, is accepted"),
}


def features(src, tree, mode="exec"):
    """ids of all recorded findings whose syntactic feature occurs in this program."""
    c = Ctx(src, tree, mode)
    out = []
    for fid, (_k, _r, feat, _ex, _w) in FINDINGS.items():
        try:
            if feat(c):
                out.append(fid)
        except Exception:  # noqa: BLE001
            continue
    return out


def attribute(src, tree, kind, detail, open_ids, mode="exec"):
    """id of the open finding this (minimal) failure belongs to, or None."""
    c = Ctx(src, tree, mode)
    for fid, (kinds, rx, feat, _ex, _w) in FINDINGS.items():
        if fid not in open_ids or kind not in kinds:
            continue
        if rx and not re.search(rx, detail):
            continue
        try:
            if feat(c):
                return fid
        except Exception:  # noqa: BLE001
            continue
    return None

/* venv0 : dump the environment, NUL separated, to stdout */
#include <stdio.h>
#include <string.h>
extern char **environ;
int main(void) {
    for (char **e = environ; *e; e++) { fwrite(*e, 1, strlen(*e) + 1, stdout); }
    fflush(stdout);
    return 0;
}

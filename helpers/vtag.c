/* vtag TAG [in] : write "O<TAG>\n" to stdout and "E<TAG>\n" to stderr; with a second argument
   first copy stdin to stdout, each line prefixed with "I<TAG>:" */
#include <stdio.h>
#include <string.h>
int main(int argc, char **argv) {
    const char *tag = argc > 1 ? argv[1] : "";
    if (argc > 2) {
        char line[65536];
        while (fgets(line, sizeof line, stdin)) {
            size_t n = strlen(line);
            fprintf(stdout, "I%s:%s%s", tag, line, (n && line[n - 1] == '\n') ? "" : "\n");
        }
    }
    fprintf(stdout, "O%s\n", tag);
    fflush(stdout);
    fprintf(stderr, "E%s\n", tag);
    fflush(stderr);
    return 0;
}

"""C10 - the typed environment survives the trip to child processes and back.

Part A (converters, round trip).  For every entry of DEFAULT_VARS, for names matching the registered
VarPatterns (*PATH, *DIRS), for names that look similar but do not match, and for unregistered names:
Hypothesis draws valid typed values (strategy keyed by the validator xonsh registered, vlib/c10_values.py).
Oracle: after `env[k] = v`, `v1 = env[k]`, `s = env.detype()[k]`:  s is a str equal to the documented
string form (or k is absent when the variable is registered as not exportable / the value cannot be
translated);  `Env({k: s})[k] == v1` (what a nested xonsh sees);  `Env({k: s}).detype()[k] == s`.

Part B (launch view, stateful).  A RuleBasedStateMachine drives one real Env (the session's XSH.env) and a
dict model in lock step: set (typed value or the string a user would type), delete, DELETE_VAR, in-place
mutation through a fresh read (`$PATH.append`) and through a reference held across launches, plain reads,
`detype()` at arbitrary points, a caller that edits the mapping `detype()` returned (as prompt/gitstatus.py
does), swap enter/exit (kwargs / dict, normal or by exception), alias-style overlays (`swap(overlay=d)` and
later `d[k] = v`), register/deregister, re-assignment of an ==-equal value with another string form (True / 1 /
1.0) and of the same, edited object (`p = $X; p.append(..); $X = p`), real 2-3 stage pipelines whose stages carry
their own `$X=v` prefixes (each stage dumps the environment block it was exec'ed with), launches seen from a
second thread, scoped and plain assignments of the settings that have a `sync` twin ($XONSH_SUBPROC_CMD_RAISE_ERROR /
$RAISE_SUBPROC_ERROR, $XONSH_PROMPT_AUTO_SUGGEST / $AUTO_SUGGEST: the twin lives and dies with the same scope), swaps
and prefixes of variables that are unset but have a registered default, swaps of names an alias overlay holds (the
overlay keeps priority), and the launch itself: the child
environment is built exactly the way SubprocSpec.prep_env_subproc builds it (`SubprocSpec(cmd, env=overlay)
.prep_env_subproc(kw)`), or the way xonsh's other spawners build it (`env.detype()`), and - sampled - the
helper `venv0` is really spawned with it, or the whole `run_subproc` path is run for real, and what the child
received is read back.  Oracle: the mapping equals {k: reference_string(model[k])} for the model state at
launch time, str -> str only, masked and untranslatable names absent.  With $UPDATE_OS_ENVIRON (a mode chosen
per history) os.environ must equal the same mapping.

Recorded findings (narrow predicates: classify_a for part A, History.observe / op_launch for part B; every
tolerated occurrence is counted in excluded_known):
 F1 stale mapping after an edit through a held reference    F2 detype cache shared between threads (= C11-F7)
 F3 alias overlay values not converted                      F4 $ENABLE_COMMANDS_CACHE untyped
 F5 VarPattern / None exported as repr, nested xonsh dies   F6 Token-keyed style dicts do not come back
 F7 callables / classes exported as '<function ...>'        F8 `$X=@([]) cmd` IndexError
 F9 per-command overlay loses against the alias overlay     F10 detype() hands out its cache object
 F11 `del` after a swap of a set variable does not delete (consequence of C11-F2)
 F12 a container read answered by an alias overlay does not drop the cached mapping
"""

from __future__ import annotations

import json
import locale
import os
import subprocess
import sys
import threading
from collections import Counter

from vlib import c10_values as V
from vlib import common
from vlib.common import Failure, Mismatch, Stats

PROP = "C10"
LEVEL = "exploration"
HOOKS = False
RULE = ("part A: (variable name, valid typed value) for every DEFAULT_VARS entry, pattern-typed names and "
        "unregistered names, value drawn by a strategy keyed by the registered validator; non-trivial = the type "
        "has a converter pair that is not the identity on strings; distinct = hash of (name, value).  part B: "
        "operation histories over one Env (set/del/mask/in-place mutation via fresh and held references/swap/"
        "alias overlay/per-command overlay/register/detype at arbitrary points/second-thread launches) ending in "
        "launches; non-trivial = the history contains a launch preceded by >= 1 state change since the previous "
        "detype(); distinct = hash of the operation history")

F1, F2, F3, F4, F5, F6, F7, F8, F9, F10, F11, F12 = ("C10-F%d" % i for i in range(1, 13))
DIRTY_CAUSE = {F1: {"held"}, F12: {"overlay-read"}}
# the same root cause is already recorded under C11 (scoped changes): while that entry is open the shape is
# skipped and counted here, not reported a second time (it becomes a C10 violation again once C11's entry is closed)
XREF = {F2: "C11-F7", F11: "C11-F2"}
POLLUTE_KEY = "GIT_OPTIONAL_LOCKS"      # the name prompt/gitstatus.py writes into the mapping it got from detype()

TRIVIAL_KINDS = {"str", "str_or_callable", "anystr", "regex", "backend", "untyped", "compdisplay", "compmode",
                 "bpengine", "colordepth", "opaque"}

PATTERN_NAMES = ["MANPATH", "PYTHONPATH", "LD_LIBRARY_PATH", "X_PATH", "XDG_CONFIG_DIRS", "MY_DIRS"]
NEAR_NAMES = ["PATHS", "DIRS_X", "JUPYTER_PLATFORM_DIRS", "MY-PATH"]
FREE_NAMES = ["FOO", "MY_VAR", "lower_case", "_U9"]
EXTRA_REGISTERED = ["__THREAD_LOCAL__"]

_state = {}


def _setup(scratch=None):
    if _state:
        return _state
    from vlib import helpers, session

    helpers.ensure()
    session.get_execer()
    home = os.environ["HOME"]                      # pinned by common.pin_environment for this process
    _state["scratch"] = os.path.dirname(home)
    _state["home"] = home
    _state["venv0"] = helpers.path("venv0")
    if not os.path.exists(_state["venv0"]):
        raise common.HarnessError("helper venv0 missing")
    _state["environ"] = dict(os.environ)
    _state["locale"] = locale.setlocale(locale.LC_ALL)
    return _state


def _fresh_session(**extra):
    from vlib import session

    return session.load_session(_state["scratch"], **extra)


def _restore_process():
    """Undo what converters with side effects / $UPDATE_OS_ENVIRON did to this worker process."""
    if dict(os.environ) != _state["environ"]:
        os.environ.clear()
        os.environ.update(_state["environ"])
    try:
        locale.setlocale(locale.LC_ALL, _state["locale"])
    except locale.Error:
        pass
    from vlib import session

    session.get_execer().debug_level = 0


class _Quiet:
    """xonsh prints warnings for some conversions; keep the check's own output clean."""

    def __enter__(self):
        import io

        self.err = sys.stderr
        sys.stderr = io.StringIO()

    def __exit__(self, *a):
        sys.stderr = self.err


# ----------------------------------------------------------------------------------------
# part A


def classify_a(kind, spec, fkind):
    """Narrow predicates of the recorded findings, evaluated on the failing (name, value)."""
    if isinstance(spec, dict) and ("callable" in spec or "class" in spec):
        return F7 if fkind == "garbled-untranslatable" else None
    if kind == "varpattern":
        return F5 if fkind == "nested-raises" else None
    if kind == "tokdict" and spec.get("keys") == "token" and spec.get("d"):
        return F6 if fkind in ("roundtrip-differs", "not-idempotent") else None
    if kind == "anystr" and spec is False:
        return F4 if fkind == "roundtrip-differs" else None
    return None


def check_value(case):
    """case = {'part': 'A', 'name': str, 'v': spec} -> (Failure | None, nontrivial, labels)"""
    from xonsh.environ import Env

    st = _state
    name, spec = case["name"], case["v"]
    with _Quiet():
        XSH = _fresh_session()
        env = XSH.env
        kind = V.kind_of(env, name)
        if kind is None:
            raise common.HarnessError("no value strategy for the type registered for $%s (%r)" % (
                name, env._vars.get(name)))
        labels = ["A:kind:" + kind]
        nontrivial = kind not in TRIVIAL_KINDS
        home = st["home"]
        if not V.in_domain(kind, spec):         # only a saved case can get here
            return None, False, labels + ["A:outside-value-domain"]

        def fail(fkind, detail):
            return (Failure(fkind, case, "$%s (%s) = %s: %s" % (name, kind, json.dumps(spec), detail),
                            finding=classify_a(kind, spec, fkind), bucket="A:%s:%s" % (fkind, kind)),
                    nontrivial, labels)

        try:
            obj = V.decode(kind, spec)
            try:
                env[name] = obj
                v1 = env[name]
            except Exception as e:  # noqa: BLE001
                return fail("set-raises", "assigning a valid value raised %s: %s" % (type(e).__name__, e))
            try:
                d = env.detype()
            except Exception as e:  # noqa: BLE001
                return fail("detype-raises", "%s: %s" % (type(e).__name__, e))
            bad = [(k, v) for k, v in d.items() if not isinstance(k, str) or not isinstance(v, str)]
            if bad:
                return fail("not-str", "detype() holds non-string items %r" % (bad[:3],))
            got = d.get(name)
            ref = V.ref_detype(kind, spec, home)
            if not V.same_string(ref, got):
                if ref is V.ABSENT:
                    return fail("garbled-untranslatable", "a value that has no string form is exported as %r instead "
                                                          "of being omitted" % (got,))
                return fail("detype-differs", "exported as %r, documented form %s" % (got, V.show_ref(ref)))
            tw = env._vars[name].sync if name in env._vars else ""
            if tw:
                labels.append("A:mirrored")
                if d.get(tw) != got:
                    return fail("mirror-differs", "exported as %r, its `sync` twin $%s as %r" % (got, tw, d.get(tw)))
            if got is None:
                labels.append("A:absent")
                return None, nontrivial, labels
            try:
                child = Env({name: got})
                v2 = child[name]
                s2 = child.detype().get(name)
            except Exception as e:  # noqa: BLE001
                return fail("nested-raises", "a nested xonsh receiving %s=%r fails to build its environment: %s: %s"
                            % (name, got, type(e).__name__, str(e)[:200]))
            if kind != "untyped" or isinstance(v1, str):
                if not V.equal(kind, v1, v2, home):
                    return fail("roundtrip-differs", "parent holds %r, exports %r, nested xonsh holds %r" % (v1, got, v2))
            if s2 != got:
                # the string form need not be canonical (set order, `0 s` / `0.0 s`), but it must be stable as a value
                labels.append("A:string-form-not-canonical")
                try:
                    v3 = Env({name: s2})[name] if isinstance(s2, str) else None
                except Exception as e:  # noqa: BLE001
                    v3 = e
                if not isinstance(s2, str) or not V.equal(kind, v2, v3, home):
                    return fail("not-idempotent", "string form %r, after one more conversion %r (value %r, then %r)"
                                % (got, s2, v2, v3))
            return None, nontrivial, labels
        finally:
            _restore_process()


def part_a_names(env):
    from xonsh.environ import DEFAULT_VARS

    names = [(n, "registered") for n in DEFAULT_VARS] + [(n, "registered") for n in EXTRA_REGISTERED]
    names += [(n, "pattern") for n in PATTERN_NAMES] + [(n, "near-pattern") for n in NEAR_NAMES]
    names += [(n, "unregistered") for n in FREE_NAMES]
    return names


def value_strategy(env, name, kind):
    from hypothesis import strategies as st

    s = V.strategy(kind, st, scratch=_state["scratch"])
    if kind == "anystr" and name in env._vars and isinstance(env._vars[name].default, bool):
        s = st.one_of(st.booleans(), s)      # an untyped setting whose documented values are booleans
    return s


def worker_a(arg):
    seed, per_var, shard, nshards, open_ids = arg
    _setup()
    open_ids = set(open_ids)
    stats = Stats()
    with _Quiet():
        env = _fresh_session().env
        names = part_a_names(env)
        kinds = {n: V.kind_of(env, n) for n, _ in names}
    for i, (name, cls) in enumerate(names):
        if i % nshards != shard:
            continue
        kind = kinds[name]
        if kind is None:
            raise common.HarnessError("no value strategy for the type registered for $%s" % name)
        if kind in V.SIDE_EFFECT_KINDS:
            stats.hist["A:side-effect-converter:" + name] += 1
        fails = {}

        def body(spec, name=name, kind=kind, cls=cls, fails=fails):
            case = {"part": "A", "name": name, "v": spec}
            f, nt, labels = check_value(case)
            stats.case(("A", name, json.dumps(spec, sort_keys=True)), nt, labels + ["A:class:" + cls],
                       sample=case if nt else None, max_per_label=1)
            if f is not None:
                if f.finding in open_ids:
                    stats.excluded_known[f.finding] += 1
                else:
                    fails.setdefault(f.bucket, []).append(f)

        strat = value_strategy(env, name, kind)
        common.run_given(strat, body, common.worker_seed(seed, i), per_var)
        for bucket, fs in fails.items():
            best = min(fs, key=lambda f: (len(json.dumps(f.case["v"])), json.dumps(f.case["v"])))

            def still(spec, name=name, bucket=bucket):
                g = check_value({"part": "A", "name": name, "v": spec})[0]
                return g is not None and g.bucket == bucket

            m = common.minimize(strat, still, common.worker_seed(seed, i), per_var * 4, seconds=10)
            if m is not None:
                g = check_value({"part": "A", "name": name, "v": m})[0]
                if g is not None and g.bucket == bucket:
                    best = g
            stats.fail(best)
    return stats


# ----------------------------------------------------------------------------------------
# part B: model

MASK = {"mask": True}

POOL = {
    "FOO": "untyped", "BAR": "untyped", "lower_case": "untyped", "LST": "pylist",
    "MANPATH": "envpath", "XDG_CONFIG_DIRS": "envpath", "PATH": "envpath", "CDPATH": "envpath",
    "AUTO_CD": "bool", "DOTGLOB": "bool",
    "DIRSTACK_SIZE": "int", "VC_BRANCH_TIMEOUT": "float",
    "HISTCONTROL": "strset", "XONSH_HISTORY_SIZE": "histsize", "DYNAMIC_CWD_WIDTH": "dyncwd",
    "LS_COLORS": "lscolors", "XONSH_STYLE_OVERRIDES": "tokdict",
    "PROMPT_FIELDS": "opaque", "__THREAD_LOCAL__": "opaque",
    "XONSH_TRACEBACK_LOGFILE": "logfile", "TITLE": "str", "XONSH_COLOR_STYLE_X": "untyped",
    # settings registered with a `sync` twin (the deprecated name mirrors the canonical one and vice versa)
    "XONSH_SUBPROC_CMD_RAISE_ERROR": "bool", "RAISE_SUBPROC_ERROR": "bool",
    "XONSH_PROMPT_AUTO_SUGGEST": "bool", "AUTO_SUGGEST": "bool",
}
# exclusions that exist only because the shape is recorded under C11 (scoped changes): applied while that entry is open
C11_DEFAULT, C11_LOCAL_COPY, C11_OVERLAY_LEAK = "C11-F1", "C11-F2", "C11-F3"
DYN_NAMES = ["REGV1", "REGV2"]
REG_TYPES = ["bool", "str", "int", "float", "env_path", "path"]
MUT_ARGS = ["/m1", "/m2", "/m3"]


def _base_spec(kind, value):
    if kind == "envpath":
        return [str(x) for x in value]
    return value


class History:
    """Executes operations against xonsh and the model in lock step; `step(op)` raises Mismatch as soon as an
    observation disagrees with the oracle (unless the disagreement is exactly an open known finding)."""

    def __init__(self, open_ids=(), uoe=False):
        from vlib import session

        st = _state
        self.open_ids = set(open_ids)
        self.home = st["home"]
        self.uoe = bool(uoe)
        self.ops = []
        self.labels = Counter()
        self.tolerated = Counter()
        self.nontrivial = False
        extra = {"XONSH_CAPTURE_ALWAYS": False}
        base = session.base_env_dict(st["scratch"], **extra)
        with _Quiet():
            self.XSH = _fresh_session(**extra)
        self.env = self.XSH.env
        self.glob = {}
        for k, v in base.items():
            kind = V.kind_of(self.env, k)
            if kind is None:
                raise common.HarnessError("base variable $%s has a type the model does not know" % k)
            self.glob[k] = {"kind": kind, "spec": _base_spec(kind, v)}
        if set(self.env._d) != set(self.glob):
            raise common.HarnessError("session holds variables the model was not told about: %r" % (
                sorted(set(self.env._d) ^ set(self.glob)),))
        self.scopes = []            # {'type': 'swap'|'overlay', 'layer': {name: cell|MASK}, 'cm': ctx, 'live': dict}
        self.registered = {}        # names registered by the history -> kind
        self.residue = set()        # names that went through a swap scope (cross-thread view is C11's business)
        self.held = {}              # slot -> (name, cell, object)
        # names whose global value was edited in place since the cached mapping was last dropped -> how it was
        # reached: 'held' (a reference kept across launches, F1) / 'overlay-read' (a fresh `$X.add(..)` whose read an
        # alias overlay answered with the very object that is also the global value, F12)
        self.dirty = {}
        self.polluted = False
        self.last_got = None        # mapping returned by the most recent detype() of any thread
        self.seen_since_scope = set()   # threads that called detype() since a swap scope was entered / left
        self.local_copy = set()     # names whose value a finished swap scope restored (a thread-local copy remains)
        self.undeleted = set()      # names deleted while such a copy existed (F11: the global value reappears)
        self.clash = set()          # names given as per-command overlay while an alias overlay held them (F9)
        self.changed = True         # a state change happened since the previous detype()
        self.flags = set()
        if self.uoe:
            self._do(lambda: self.env.__setitem__("UPDATE_OS_ENVIRON", True), "enable $UPDATE_OS_ENVIRON")
            self.glob["UPDATE_OS_ENVIRON"]["spec"] = True

    # -- plumbing --------------------------------------------------------------------

    def close(self):
        while self.scopes:
            sc = self.scopes.pop()
            try:
                sc["cm"].__exit__(None, None, None)
            except Exception:  # noqa: BLE001
                pass
        try:
            self.env.undo_replace_env()
        except Exception:  # noqa: BLE001
            pass
        _restore_process()

    def bad(self, kind, detail, finding=None, bucket=None):
        case = {"part": "B", "uoe": self.uoe, "ops": list(self.ops)}
        raise Mismatch(Failure(kind, case, detail, finding=finding, bucket=bucket or ("B:" + kind)))

    def _do(self, fn, what):
        try:
            with _Quiet():
                return fn()
        except Mismatch:
            raise
        except Exception as e:  # noqa: BLE001
            self.bad("exception", "%s raised %s: %s" % (what, type(e).__name__, str(e)[:300]),
                     bucket="B:exception:%s:%s" % (what.split(" ")[0], type(e).__name__))

    def kind(self, name):
        if name in self.registered:
            return self.registered[name]
        return POOL.get(name) or V.kind_of(self.env, name)

    def has_default(self, name):
        from xonsh.tools import DefaultNotGiven

        v = self.env._vars.get(name)
        return v is not None and v.default is not DefaultNotGiven

    def in_swap(self, name):
        return any(sc["type"] == "swap" and name in sc["layer"] for sc in self.scopes)

    def in_overlay(self, name):
        return any(sc["type"] == "overlay" and name in sc["layer"] for sc in self.scopes)

    def effective(self, name, extra=None, no_overlay=False):
        """What the main thread sees: the per-command prefix, else the innermost alias overlay holding the name, else
        the innermost swap, else the shared value.  An alias overlay has priority over swapped values wherever it
        sits in the nesting (Env.swap: "shadows both swapped and global values", callable_aliases.rst: "overlay has
        priority")."""
        if extra is not None and name in extra:
            return extra[name]
        for typ in ("swap",) if no_overlay else ("overlay", "swap"):
            for sc in reversed(self.scopes):
                if sc["type"] == typ and name in sc["layer"]:
                    return sc["layer"][name]
        return self.glob.get(name)

    def mirror(self, name):
        """The `sync` twin of a registered variable ('' if none): assignments - scoped ones too - are mirrored."""
        v = self.env._vars.get(name)
        return (v.sync or "") if v is not None else ""

    def mirrored(self, cells):
        """Layer of a scoped assignment of `cells`, applied in order: an assigned value also goes to the twin, a
        DELETE_VAR mask hides the named variable only."""
        out = {}
        for k, c in cells.items():
            out[k] = c
            tw = self.mirror(k)
            if tw and c is not MASK:
                out[tw] = dict(c, kind=self.kind(tw))
        return out

    def is_set(self, name):
        c = self.effective(name)
        return c is not None and c is not MASK

    def names(self, extra=None):
        ns = set(self.glob)
        for sc in self.scopes:
            ns.update(sc["layer"])
        if extra:
            ns.update(extra)
        return ns

    def cell(self, name, spec):
        """Model cell for a value given to xonsh under `name` (typed spec, or {'raw': ...} = what a user types)."""
        kind = self.kind(name)
        if isinstance(spec, dict) and "raw" in spec:
            return {"kind": kind, "spec": V.ref_convert(kind, spec["raw"]), "raw": True}
        return {"kind": kind, "spec": json.loads(json.dumps(spec))}

    def touch(self):
        self.changed = True

    def _read_refreshes(self, name):
        """Reading a container value is what makes xonsh rebuild the export (Env.__getitem__ drops the cached
        mapping).  A read that an alias overlay answers hands out the *overlay's* object and returns before that:
        the global value was not read, so an edit made earlier through a held reference to it is still unexported
        (F1) after such a read - seen by a second thread, whose view is the global one."""
        return not self.in_overlay(name)

    # -- oracle ----------------------------------------------------------------------

    def expected(self, extra=None, other_thread=False, no_overlay=False):
        exp = {}
        for name in self.names(None if other_thread else extra):
            c = self.glob.get(name) if other_thread else self.effective(name, extra, no_overlay)
            if c is None or c is MASK:
                continue
            if c.get("emptylist"):
                exp[name] = V.UNSPEC        # `$X=@([]) cmd`: some string, the documentation does not say which
                continue
            r = V.ref_detype(c["kind"], c["spec"], self.home)
            if r is V.ABSENT:
                continue
            exp[name] = r
        return exp

    def diff(self, exp, got, skip=()):
        out = {}
        for k in set(exp) | set(got):
            if k in skip:
                continue
            g = got.get(k)
            if k not in exp:
                out[k] = ("extra", None, g)
            elif not V.same_string(exp[k], g):
                out[k] = ("missing" if g is None else "value", exp[k], g)
        return out

    def observe(self, got, what, extra=None, other_thread=False, inject=None):
        """Compare one mapping handed (or about to be handed) to a child with the model."""
        got = dict(got)
        exp = self.expected(extra, other_thread)
        if inject:
            exp.update(inject)
        nonstr = [(k, v) for k, v in got.items() if not isinstance(k, str) or not isinstance(v, str)]
        if nonstr:
            self.bad("not-str", "%s: mapping holds non-string items %r" % (what, nonstr[:3]))
        skip = ()
        if other_thread:
            if C11_LOCAL_COPY in self.open_ids:
                skip = self.residue     # a finished scope leaves a private copy behind: recorded under C11
            elif self.residue:
                self.labels["second-thread-view-of-names-that-went-through-a-scope"] += 1
        d = self.diff(exp, got, skip=skip)
        stale = self.last_got is not None and got == self.last_got
        findings = set()
        rest = dict(d)
        if self.polluted and POLLUTE_KEY in rest and rest[POLLUTE_KEY][0] == "extra":
            findings.add(F10)
            del rest[POLLUTE_KEY]
        for k in list(rest):
            c = None if other_thread else self.effective(k, extra)
            if c is not None and c is not MASK and c.get("raw") and self.in_overlay(k) and \
                    c is self._top_overlay_cell(k) and (extra is None or k not in extra):
                findings.add(F3)         # alias overlay value was not converted
                del rest[k]
            elif extra is not None and k in extra and self.in_overlay(k):
                findings.add(F9)         # per-command overlay shadowed by the alias overlay
                del rest[k]
        for k in list(rest):
            if rest[k][0] == "extra" and k in self.undeleted and not other_thread:
                findings.add(F11)        # `del` removed only the copy a finished swap scope left behind
                del rest[k]
            elif k in self.clash and not other_thread:
                findings.add(F9)         # ... and the overlay's value was left behind as a variable
                del rest[k]
        me, peer = ("other", "main") if other_thread else ("main", "other")
        if rest and stale:
            # the very mapping of the previous detype() came back.  Two recorded causes, possibly together:
            #   F1  names edited through a held reference since then (nothing invalidates the cache)
            #   F12 names edited by `$X.add(..)` inside an alias whose overlay answered the read (returns before the
            #       cache is dropped) with the object that is the global value too
            #   F2  the mapping was built by the other thread for its own view; views differ only on names inside
            #       a swap scope of the main thread or left in its thread-local layer by an earlier scope
            r1 = {k for k in rest if k in self.dirty}
            # (a name edited both ways is explained by either finding: the open one is taken, F1 first)
            by = {k: ([f for f in (F1, F12) if self.dirty[k] & DIRTY_CAUSE[f] and f in self.open_ids] or
                      [f for f in (F1, F12) if self.dirty[k] & DIRTY_CAUSE[f]])[0] for k in r1}
            r2 = set(rest) - r1
            ok2 = True
            if r2:
                ok2 = peer in self.seen_since_scope and all(self.in_swap(k) or k in self.residue for k in r2)
                if ok2:
                    # (a mapping built under an alias overlay is never cached)
                    peer_view = self.expected(None, other_thread=not other_thread, no_overlay=True)
                    ok2 = all(V.same_string(peer_view.get(k, V.ABSENT), got.get(k))
                              for k in r2 if k not in self.residue)
            if ok2:
                findings.update(by.values())
                if r2:
                    findings.add(F2)
                rest = {}
        # which mapping may be sitting in Env's cache now (used only by the narrow predicates of F1 / F2): a
        # detype() under an alias overlay bypasses the cache, a non-empty per-command overlay drops it afterwards
        if not other_thread and any(sc["type"] == "overlay" for sc in self.scopes):
            pass
        else:
            self.last_got = None if extra else got
            self.seen_since_scope.add(me)
            if F1 not in findings and F12 not in findings:
                self.dirty.clear()      # the mapping was built afresh
        if not d:
            return
        detail = "%s: %s" % (what, "; ".join(
            "$%s %s" % (k, "must be absent, child gets %r" % (g,) if t == "extra" else
                        "missing, expected %s" % V.show_ref(e) if t == "missing" else
                        "is %r, value at launch time gives %s" % (g, V.show_ref(e)))
            for k, (t, e, g) in sorted(d.items())[:4]))
        if rest:
            k0 = sorted(rest)[0]
            c0 = self.effective(k0, extra)
            self.bad("launch-view-differs", detail, bucket="B:view:%s:%s:%s" % (
                what.split(" ")[0], rest[k0][0], (c0 or {}).get("kind", "unset") if c0 is not MASK else "masked"))
        closed = sorted(f for f in findings if f not in self.open_ids)
        if closed:
            self.bad("launch-view-differs", detail, finding=closed[0], bucket=closed[0])
        for f in findings:
            self.tolerated[f] += 1

    def _top_overlay_cell(self, name):
        for sc in reversed(self.scopes):
            if sc["type"] == "overlay" and name in sc["layer"]:
                return sc["layer"][name]
        return None

    # -- operations ------------------------------------------------------------------

    def step(self, op):
        fn = getattr(self, "op_" + op["op"])
        n = len(self.ops)
        self.ops.append(op)
        applied = fn(op)
        if applied is False:
            del self.ops[n:]
            self.labels["skipped-inapplicable"] += 1
        else:
            self.labels["op:" + op["op"]] += 1
        return applied

    def _writable(self, name):
        # inside a swap scope the swapped names themselves are not reassigned (C11 decides what that means)
        if self.in_swap(name) or self.mirror(name) and self.in_swap(self.mirror(name)):
            return False
        if self.uoe and name == "UPDATE_OS_ENVIRON":
            return False
        return self.kind(name) is not None

    def _deletable(self, k):
        if k in self.local_copy:
            if F11 in self.open_ids:
                self.tolerated[F11] += 1        # shape not generated while the finding is open
                return False
            self.local_copy.discard(k)
            self.undeleted.add(k)
        return True

    def op_set(self, op):
        k = op["k"]
        if not self._writable(k):
            return False
        kind = self.kind(k)
        try:
            cell = self.cell(k, op["v"])
        except (ValueError, TypeError):
            return False
        obj = V.decode(kind, op["v"])
        twin = k in self.glob and self._is_twin(self.glob[k], cell)
        self._do(lambda: self.env.__setitem__(k, obj), "set $%s" % k)
        for n, c in self.mirrored({k: cell}).items():
            self.glob[n] = c
            self.undeleted.discard(n)
        if self.mirror(k):
            self.labels["assignment-of-mirrored-variable"] += 1
        self.dirty.clear()          # F1 is about edits with *no* assignment / deletion / scope change in between
        self.touch()
        if cell.get("raw"):
            self.labels["set-from-string"] += 1
        if twin:
            self.flags.add("equal-valued-reassignment")
            self.labels["equal-valued-reassignment"] += 1

    @staticmethod
    def _is_twin(old, new):
        """new compares == to old as a Python value although its string form differs (True / 1 / 1.0 ...)"""
        try:
            a, b = V.dec_num(old["spec"]), V.dec_num(new["spec"])
            if old["kind"] == new["kind"] == "histsize":
                a, b = V.dec_num(a[0]), V.dec_num(b[0])
            elif not (old["kind"] == new["kind"] == "untyped"):
                return False
            return isinstance(a, (bool, int, float)) and isinstance(b, (bool, int, float)) and a == b \
                and type(a) is not type(b)
        except Exception:  # noqa: BLE001
            return False

    def op_set_held(self, op):
        """`p = $X; ...; p.append(..); $X = p` - the very object that is (or was) stored is assigned again."""
        h = self.held.get(op["slot"])
        if h is None or self.uoe:
            return False
        name, cell, obj = h
        if not self._writable(name) or self.kind(name) != cell["kind"] or cell.get("raw"):
            return False
        self._do(lambda: self.env.__setitem__(name, obj), "set $%s (same object)" % name)
        if self.glob.get(name) is cell:
            self.flags.add("same-object-reassignment")
            self.labels["same-object-reassignment"] += 1
        self.glob[name] = cell
        self.undeleted.discard(name)
        self.dirty.clear()
        self.touch()

    def op_del(self, op):
        k = op["k"]
        if not self._writable(k):
            return False
        if k in self.glob:
            if not self._deletable(k):
                return False
            self._do(lambda: self.env.__delitem__(k), "del $%s" % k)
            del self.glob[k]
            self.dirty.clear()
            self.touch()
        else:
            try:
                with _Quiet():
                    del self.env[k]
            except KeyError:
                pass
            except Exception as e:  # noqa: BLE001
                self.bad("exception", "del of unset $%s raised %s: %s" % (k, type(e).__name__, e))

    def op_mask(self, op):
        from xonsh.environ import DELETE_VAR

        k = op["k"]
        if not self._writable(k):
            return False
        if k in self.glob and not self._deletable(k):
            return False
        self._do(lambda: self.env.__setitem__(k, DELETE_VAR), "$%s = DELETE_VAR" % k)
        if k in self.glob:
            del self.glob[k]
            self.dirty.clear()
            self.touch()

    def _mutate(self, kind, obj, cell, m):
        """Apply one in-place edit to the real object and to the model cell."""
        spec = cell["spec"]
        name = m[0]
        if kind == "envpath":
            if name == "append":
                obj.append(m[1]); spec.append(m[1])
            elif name == "prepend":
                obj.prepend(m[1]); spec.insert(0, m[1])
            elif name == "insert":
                obj.insert(m[2], m[1]); spec.insert(m[2], m[1])
            elif name == "remove":
                obj.remove(m[1])
                if m[1] in spec:
                    spec.remove(m[1])
            elif name == "add":
                obj.add(m[1], front=m[2], replace=m[3])
                if m[1] not in spec:
                    spec.insert(0 if m[2] else len(spec), m[1])
                elif m[3]:
                    spec[:] = [x for x in spec if x != m[1]]
                    spec.insert(0 if m[2] else len(spec), m[1])
            elif name == "setitem":
                if not spec:
                    return False
                i = m[2] % len(spec)
                obj[i] = m[1]; spec[i] = m[1]
            elif name == "delitem":
                if not spec:
                    return False
                i = m[2] % len(spec)
                del obj[i]; del spec[i]
            else:
                return False
        elif kind == "strset":
            if name == "add":
                obj.add(m[1])
                if m[1] not in spec:
                    spec.append(m[1])
            elif name == "discard":
                obj.discard(m[1])
                if m[1] in spec:
                    spec.remove(m[1])
            else:
                return False
        elif kind == "pylist":
            if name == "append":
                obj.append(m[1]); spec["list"].append(m[1])
            elif name == "delitem":
                if not spec["list"]:
                    return False
                i = m[2] % len(spec["list"])
                del obj[i]; del spec["list"][i]
            else:
                return False
        elif kind == "lscolors":
            if "from" in spec:
                return False
            if name == "setitem":
                obj[m[1]] = tuple(m[2]); spec["map"][m[1]] = list(m[2])
            elif name == "delitem":
                if m[1] not in spec["map"] or spec["map"][m[1]] == "target":
                    return False
                del obj[m[1]]; del spec["map"][m[1]]
            else:
                return False
        elif kind == "tokdict":
            if name == "setitem":
                obj[m[1]] = m[2]; spec["d"][m[1]] = m[2]
            elif name == "delitem":
                if m[1] not in spec["d"]:
                    return False
                del obj[m[1]]; del spec["d"][m[1]]
            else:
                return False
        else:
            return False
        return True

    def op_mut(self, op):
        if op["via"] == "held":
            h = self.held.get(op["slot"])
            if h is None or self.uoe:
                return False
            name, cell, obj = h
        else:
            name = op["k"]
            cell = self.effective(name)
            if cell is None or cell is MASK:
                return False
            if self.uoe and cell["kind"] != "envpath":
                return False     # only EnvPath has a change hook; other containers are not mirrored by design
            obj = None
        kind = cell["kind"]
        if kind not in V.MUTABLE_KINDS or cell.get("raw") and self.in_overlay(name):
            return False
        if obj is None:
            obj = self._do(lambda: self.env[name], "read $%s" % name)
            if self._read_refreshes(name):
                self.dirty.clear()  # reading a container is xonsh's documented way of keeping the export fresh
        r = self._do(lambda: self._mutate(kind, obj, cell, op["m"]), "in-place %s on $%s" % (op["m"][0], name))
        if r is False:
            return False
        if self.uoe and op["via"] == "fresh":
            # the change hook re-assigns the variable (a new object with the same content)
            self.glob[name] = {"kind": kind, "spec": list(cell["spec"])}
        self.touch()
        if op["via"] == "held":
            self.dirty.setdefault(name, set()).add("held")
            self.flags.add("held-mutation")
            self.labels["mutation-through-held-reference"] += 1
        else:
            if not self._read_refreshes(name) and cell is self.glob.get(name):
                # `$X = p` with p read inside the alias made the overlay's object the global value as well
                self.dirty.setdefault(name, set()).add("overlay-read")
                self.labels["fresh-mutation-of-global-value-via-overlay-read"] += 1
            self.flags.add("fresh-mutation")
            self.labels["mutation-through-fresh-read"] += 1

    def op_hold(self, op):
        name = op["k"]
        cell = self.effective(name)
        if self.uoe or cell is None or cell is MASK or cell["kind"] not in V.MUTABLE_KINDS:
            return False
        if cell.get("raw") and self.in_overlay(name):
            return False
        obj = self._do(lambda: self.env[name], "read $%s" % name)
        if self._read_refreshes(name):
            self.dirty.clear()
        else:
            self.labels["container-read-answered-by-alias-overlay"] += 1
        self.held[op["slot"]] = (name, cell, obj)

    def op_read(self, op):
        if not self.is_set(op["k"]):
            return False
        self._do(lambda: self.env.get(op["k"]), "read $%s" % op["k"])
        c = self.effective(op["k"])
        if c["kind"] in V.MUTABLE_KINDS and self._read_refreshes(op["k"]):
            self.dirty.clear()

    def op_detype(self, op):
        got = self._do(lambda: self.env.detype(), "detype()")
        self._note_launch("detype")
        self.observe(got, "detype()")
        self._check_environ("detype()")

    def op_detype_edit(self, op):
        """A caller that edits the mapping it received (xonsh/prompt/gitstatus.py, vc.py do exactly this)."""
        got = self._do(lambda: self.env.detype(), "detype()")
        self._note_launch("detype")
        self.observe(got, "detype()")
        got[POLLUTE_KEY] = "0"
        if not any(sc["type"] == "overlay" for sc in self.scopes):
            # (under an alias overlay detype() hands out a throw-away mapping)
            if self.last_got is not None:
                self.last_got[POLLUTE_KEY] = "0"
            self.polluted = True
        self.labels["caller-edits-returned-mapping"] += 1

    def _scope_cells(self, kv, raw_ok_kinds=None):
        layer, real = {}, {}
        for k, spec in kv.items():
            kind = self.kind(k)
            if kind is None:
                continue
            if isinstance(spec, dict) and "mask" in spec:
                layer[k] = MASK
                real[k] = V.decode(kind, spec)
                continue
            try:
                layer[k] = self.cell(k, spec)
            except (ValueError, TypeError):
                continue
            real[k] = V.decode(kind, spec)
        return layer, real

    def op_swap_in(self, op):
        if self.uoe:
            return False
        kv, shapes = {}, []
        for k, spec in op["kv"].items():
            names = [k, self.mirror(k)] if self.mirror(k) else [k]
            if self._unset_default(k):
                if C11_DEFAULT in self.open_ids:
                    self.labels["skipped:swap-of-unset-default(C11-F1)"] += 1
                    continue        # leaves the default *set* afterwards: recorded under C11, not here
                shapes.append("swap-of-unset-variable-with-default")
            if any(self.in_overlay(n) for n in names):
                if C11_OVERLAY_LEAK in self.open_ids:
                    self.labels["skipped:swap-of-name-held-by-alias-overlay(C11-F3)"] += 1
                    continue        # the overlay's value leaks into the thread-local layer: recorded under C11
                shapes.append("swap-of-name-held-by-alias-overlay")
            kv[k] = spec
        cells, real = self._scope_cells(kv)
        if not cells:
            return False
        layer = self.mirrored(cells)
        if op.get("style") == "dict":
            cm = self.env.swap(real)
        else:
            cm = self.env.swap(**real)
        was_set = {k for k in layer if self.is_set(k)}
        before = {k: self.effective(k, no_overlay=True) for k in layer}
        self._do(cm.__enter__, "swap enter")
        self.scopes.append({"type": "swap", "layer": layer, "cm": cm, "was_set": was_set})
        self.seen_since_scope.clear()
        self.dirty.clear()
        self.touch()
        for sh in shapes:
            self.labels[sh] += 1
        if len(layer) > len(cells):
            self.labels["scoped-assignment-of-mirrored-variable"] += 1
        for k, c in layer.items():
            below = before[k]
            if c is not MASK and below is not None and below is not MASK and self._is_twin(below, c):
                self.flags.add("equal-valued-reassignment")
                self.labels["equal-valued-swap"] += 1
        if any(c is MASK for c in layer.values()):
            self.labels["swap-with-mask"] += 1

    def _unset_default(self, k):
        """unset, not masked, but readable through its registered default"""
        return not self.is_set(k) and self.effective(k) is not MASK and self.has_default(k)

    def op_overlay_in(self, op):
        if self.uoe:
            return False
        layer, real = self._scope_cells(op["kv"])
        cm = self.env.swap(overlay=real)
        self._do(cm.__enter__, "overlay enter")
        self.scopes.append({"type": "overlay", "layer": layer, "cm": cm, "live": real})
        self.touch()

    def op_overlay_set(self, op):
        if not self.scopes or self.scopes[-1]["type"] != "overlay":
            return False
        sc = self.scopes[-1]
        layer, real = self._scope_cells({op["k"]: op["v"]})
        if not layer:
            return False
        sc["live"].update(real)
        sc["layer"].update(layer)
        self.touch()
        if any(c is not MASK and c.get("raw") for c in layer.values()):
            self.labels["overlay-value-as-typed-by-user"] += 1

    def op_scope_out(self, op):
        if not self.scopes:
            return False
        sc = self.scopes.pop()
        cm = sc["cm"]
        if op.get("raise"):
            class _Boom(Exception):
                pass

            def leave():
                try:
                    raise _Boom()
                except _Boom as e:
                    try:
                        cm.__exit__(_Boom, e, e.__traceback__)
                    except _Boom:
                        pass
            self._do(leave, "scope exit (exception)")
        else:
            self._do(lambda: cm.__exit__(None, None, None), "scope exit")
        if sc["type"] == "swap":
            if any(self.mirror(k) for k in sc["layer"]):
                self.flags.add("scope-of-mirrored-variable-ended")
            self.residue.update(sc["layer"])
            self.local_copy.update(k for k in sc["was_set"] if not self.in_swap(k))
            self.seen_since_scope.clear()
            self.dirty.clear()
        self.touch()

    def op_register(self, op):
        k = op["k"]
        if k not in DYN_NAMES or k in self.registered or k in self.names() or self.uoe:
            return False
        self._do(lambda: self.env.register(k, type=op["type"]), "register")
        self.registered[k] = V.KIND_OF_REGISTER_TYPE[op["type"]]
        self.touch()

    def op_deregister(self, op):
        k = op["k"]
        if k not in self.registered or k in self.names():
            return False
        self._do(lambda: self.env.deregister(k), "deregister")
        del self.registered[k]
        self.touch()

    # launches ---------------------------------------------------------------------

    def _note_launch(self, how, extra=None):
        if self.changed:
            self.nontrivial = True
            self.labels["launch-after-change"] += 1
        self.labels["launch:" + how] += 1
        for f in self.flags:
            self.labels["launch-after-" + f] += 1
        self.flags.clear()
        if any(sc["type"] == "swap" for sc in self.scopes):
            self.labels["launch-inside-swap"] += 1
        if any(sc["type"] == "overlay" for sc in self.scopes):
            self.labels["launch-inside-alias-overlay"] += 1
        if extra:
            self.labels["launch-with-per-command-overlay"] += 1
            if any(c is MASK for c in extra.values()):
                self.labels["launch-with-per-command-mask"] += 1
        self.changed = False

    def _launch_overlay(self, kv):
        """Per-command overlay (`$X=v cmd`): the parser hands Python values; `@(...)` values arrive as lists."""
        if not kv:
            return None, None
        extra, real = {}, {}
        for k, spec in kv.items():
            kind = self.kind(k)
            if kind is None:
                continue
            if self._unset_default(k):
                if C11_DEFAULT in self.open_ids:
                    self.labels["skipped:swap-of-unset-default(C11-F1)"] += 1
                    continue
                self.labels["prefix-of-unset-variable-with-default"] += 1
            names = [k, self.mirror(k)] if self.mirror(k) else [k]
            if any(self.in_overlay(n) for n in names):
                if F9 in self.open_ids:
                    self.tolerated[F9] += 1         # shape not generated while the finding is open
                    continue
                self.clash.update(names)
            if isinstance(spec, dict) and "mask" in spec:
                extra[k] = MASK
                real[k] = V.decode(kind, spec)
                continue
            if kind == "pylist":
                continue            # a plain list under an untyped name: SubprocSpec flattens it, not modelled
            if isinstance(spec, dict) and "atlist" in spec:         # $X=@([...]) cmd
                lst = list(spec["atlist"])
                if len(lst) == 0:
                    if kind not in ("untyped", "str", "envpath"):
                        continue
                    real[k] = lst
                    extra[k] = {"kind": kind, "spec": [] if kind == "envpath" else "", "emptylist": True}
                    continue
                real[k] = lst
                raw = lst[0] if len(lst) == 1 else (lst if kind == "envpath" else None)
                if raw is None:
                    del real[k]
                    continue
                try:
                    extra[k] = {"kind": kind, "spec": V.ref_convert(kind, raw), "raw": True}
                except (ValueError, TypeError):
                    del real[k]
                continue
            try:
                extra[k] = self.cell(k, spec)
            except (ValueError, TypeError):
                continue
            real[k] = V.decode(kind, spec)
        if any(self.mirror(k) for k in extra):
            self.labels["prefix-of-mirrored-variable"] += 1
        return (self.mirrored(extra) or None), (real or None)

    def op_launch(self, op):
        how = op["how"]
        if self.uoe and op.get("overlay"):
            return False
        extra, real = self._launch_overlay(op.get("overlay"))
        if how == "detype" and extra:
            how = "spec"
        what = "launch(%s)%s" % (how, " with $%s=... prefix" % ",".join(sorted(extra)) if extra else "")
        self._note_launch(how, extra)
        if how == "detype":
            got = self._do(lambda: self.env.detype(), "detype()")
            self.observe(got, what)
        elif how in ("spec", "spawn"):
            from xonsh.procs.specs import SubprocSpec

            venv0 = _state["venv0"]
            try:
                with _Quiet():
                    spec = SubprocSpec([venv0], env=real)
                    kw = {}
                    spec.prep_env_subproc(kw)
            except Exception as e:  # noqa: BLE001
                empty = extra and any(c is not MASK and c.get("emptylist") for c in extra.values())
                if empty and isinstance(e, IndexError):
                    if F8 in self.open_ids:
                        self.tolerated[F8] += 1
                        return None
                    self.bad("exception", "%s: building the child environment raised IndexError for an empty "
                                          "list value" % what, finding=F8, bucket=F8)
                self.bad("exception", "%s: building the child environment raised %s: %s" % (
                    what, type(e).__name__, str(e)[:300]), bucket="B:exception:launch:" + type(e).__name__)
            got = kw["env"]
            self.observe(got, what, extra)
            if how == "spawn":
                child = self._spawn(got, what)
                if child != got:
                    self.bad("child-differs", "%s: the child received %r, xonsh handed over %r" % (
                        what, sorted(set(child.items()) ^ set(got.items()))[:6], None))
            self._after_prefix(extra)
        elif how == "full":
            if any(c is not MASK and c.get("emptylist") for c in (extra or {}).values()):
                return False
            out = self._do(lambda: self.XSH.subproc_captured_stdout([_state["venv0"]], envs=[real]), what)
            got = _parse_env0(out)
            # a captured launch deliberately adds $XONSH_CAPTURE_ALWAYS for the child (specs.cmds_to_specs)
            self.observe(got, what, extra, inject={"XONSH_CAPTURE_ALWAYS": "1"})
            self.last_got = None        # the mapping seen by the child is not the cached object
            self._after_prefix(extra)
            self._after_prefix({"XONSH_CAPTURE_ALWAYS": None})
        else:
            return False
        self._check_environ(what)

    def op_pipeline(self, op):
        """A real pipeline of 2-3 external commands through run_subproc, each stage with its own `$X=v` prefix (or
        none); every stage writes the environment block it was exec'ed with (/proc/<pid>/environ) to a file."""
        if self.uoe:
            return False
        stages = op["stages"]
        extras, reals, files, cmds, envs = [], [], [], [], []
        for i, kv in enumerate(stages):
            extra, real = self._launch_overlay(kv)
            if any(c is not MASK and c.get("emptylist") for c in (extra or {}).values()):
                return False
            extras.append(extra)
            reals.append(real)
            f = os.path.join(_state["scratch"], "stage%d.env0" % i)
            try:
                os.unlink(f)
            except OSError:
                pass
            files.append(f)
            script = '/bin/cat /proc/$$/environ > "$0"; ' + ("" if i == 0 else "/bin/cat > /dev/null; ") + "echo s%d" % i
            if cmds:
                cmds.append("|")
                envs.append(None)
            cmds.append(["/bin/sh", "-c", script, f])
            envs.append(real)
        what = "pipeline of %d stages, prefixes %s" % (len(stages), [sorted(e) if e else None for e in extras])
        merged = {}
        for e in extras:
            merged.update(e or {})
        self._note_launch("pipeline", merged or None)
        if any(extras[1:]):
            self.labels["pipeline-prefix-on-later-stage"] += 1
        self._do(lambda: self.XSH.subproc_captured_stdout(*cmds, envs=envs), what)
        for i, f in enumerate(files):
            try:
                with open(f, "rb") as fh:
                    got = _parse_env0(fh.read().decode("utf-8", "surrogateescape"))
            except OSError:
                self.bad("stage-not-run", "%s: stage %d left no environment dump" % (what, i))
            self.observe(got, "pipeline stage %d/%d%s" % (
                i + 1, len(stages), " with $%s=... prefix" % ",".join(sorted(extras[i])) if extras[i] else ""),
                extras[i], inject={"XONSH_CAPTURE_ALWAYS": "1"})
            self.labels["real-child-spawned"] += 1
        self.last_got = None
        for e in extras:
            self._after_prefix(e)
        self._after_prefix({"XONSH_CAPTURE_ALWAYS": None})

    def _after_prefix(self, extra):
        # a per-command overlay is a swap scope around the spawn
        for k in (extra or ()):
            self.residue.add(k)
            if self.mirror(k):
                self.flags.add("scope-of-mirrored-variable-ended")
            if self.is_set(k) and not self.in_swap(k):
                self.local_copy.add(k)

    def _spawn(self, denv, what):
        try:
            r = subprocess.run([_state["venv0"]], env=denv, stdout=subprocess.PIPE, stderr=subprocess.PIPE, timeout=60)
        except Exception as e:  # noqa: BLE001
            self.bad("spawn-fails", "%s: Popen with the mapping xonsh built raised %s: %s" % (
                what, type(e).__name__, str(e)[:200]), bucket="B:spawn-fails:" + type(e).__name__)
        if r.returncode != 0:
            raise common.HarnessError("venv0 failed: %r" % (r.stderr[:200],))
        self.labels["real-child-spawned"] += 1
        return _parse_env0(r.stdout.decode("utf-8", "surrogateescape"))

    def _check_environ(self, what):
        if not self.uoe:
            return
        exp = self.expected()
        d = self.diff(exp, dict(os.environ))
        self.labels["os.environ-compared"] += 1
        if d:
            k0 = sorted(d)[0]
            self.bad("os-environ-differs", "%s with $UPDATE_OS_ENVIRON: os.environ %s" % (what, "; ".join(
                "%s: %s %r, expected %s" % (k, t, g, V.show_ref(e) if e is not None else "<absent>")
                for k, (t, e, g) in sorted(d.items())[:4])),
                bucket="B:os-environ:%s:%s" % (d[k0][0], (self.glob.get(k0) or {}).get("kind", "unset")))

    def op_xthread(self, op):
        """The same launch from a second thread (prompt / completer threads call detype() too)."""
        if self.uoe:
            return False
        box = {}

        def run():
            try:
                if op["how"] == "spec":
                    from xonsh.procs.specs import SubprocSpec

                    kw = {}
                    SubprocSpec([_state["venv0"]]).prep_env_subproc(kw)
                    box["got"] = kw["env"]
                else:
                    box["got"] = self.env.detype()
            except BaseException as e:  # noqa: BLE001
                box["exc"] = e

        with _Quiet():
            t = threading.Thread(target=run)
            t.start()
            t.join(60)
        if t.is_alive():
            raise common.HarnessError("second thread did not finish")
        if "exc" in box:
            e = box["exc"]
            self.bad("exception", "detype() in a second thread raised %s: %s" % (type(e).__name__, e))
        self.labels["launch:second-thread"] += 1
        if any(sc["type"] == "swap" for sc in self.scopes):
            self.labels["second-thread-launch-while-main-in-swap"] += 1
        self.observe(box["got"], "launch from a second thread", other_thread=True)


def _parse_env0(text):
    out = {}
    for item in text.split("\0"):
        if not item:
            continue
        k, _, v = item.partition("=")
        out[k] = v
    return out


def check_history(case, open_ids=()):
    """Re-execute {'ops': [...]} without Hypothesis -> Failure | None"""
    h = History(open_ids, uoe=case.get("uoe", False))
    try:
        try:
            h.observe(h.env.detype(), "initial detype()")
            for op in case["ops"]:
                h.step(op)
        except Mismatch as e:
            return e.failure
    finally:
        h.close()
    return None


def minimize_ops(failure, open_ids=()):
    """Greedy one-at-a-time removal of operations while the same bucket still fails."""
    best = failure
    ops = list(failure.case["ops"])
    uoe = failure.case.get("uoe", False)
    changed, rounds = True, 0
    while changed and rounds < 6:
        changed = False
        rounds += 1
        i = len(ops) - 2
        while i >= 0:
            trial = ops[:i] + ops[i + 1:]
            g = check_history({"ops": trial, "uoe": uoe}, open_ids)
            if g is not None and g.bucket == failure.bucket and g.kind == failure.kind and \
                    len(g.case["ops"]) <= len(trial):
                ops = list(g.case["ops"])
                best = g
                changed = True
                i = min(i, len(ops) - 1)
            i -= 1
    return best


# ----------------------------------------------------------------------------------------
# part B: the state machine

_ctx = {}


def make_machine():
    from hypothesis import strategies as st
    from hypothesis.stateful import RuleBasedStateMachine, initialize, rule

    names = sorted(POOL) + DYN_NAMES
    any_name = st.sampled_from(names)
    slot = st.sampled_from([0, 1])
    mask = st.just({"mask": 1})

    def raw_for(kind):
        if kind == "bool":
            return st.sampled_from(["1", "0", "", "no", "True", "false", 1, 0]).map(lambda r: {"raw": r})
        if kind == "int":
            return st.one_of(st.integers(-3, 40), st.integers(-3, 40).map(str)).map(lambda r: {"raw": r})
        if kind == "float":
            return st.sampled_from(["1.5", "0", "1e3", 2, 0.25]).map(lambda r: {"raw": r})
        if kind == "envpath":
            return st.lists(st.sampled_from(["/r1", "/r2", "rel", "~/r", ""]), min_size=1, max_size=3).filter(
                lambda l: l != [""]).map(lambda l: {"raw": os.pathsep.join(l)})
        if kind == "str":
            return st.sampled_from([3, 1.5, True]).map(lambda r: {"raw": r})
        return None

    NOVAL = object()

    def value(data, h, name, raw=True, masks=False):
        kind = h.kind(name)
        if kind is None:
            return NOVAL
        opts = [V.strategy(kind, st, scratch=_state["scratch"], shapes=False)] * 3
        r = raw_for(kind) if raw else None
        if r is not None:
            opts.append(r)
        if masks:
            opts.append(mask)
        return data.draw(st.one_of(*opts))

    def mutation(data, kind):
        arg = st.sampled_from(MUT_ARGS)
        idx = st.integers(0, 5)
        if kind == "envpath":
            return data.draw(st.one_of(
                st.tuples(st.just("append"), arg), st.tuples(st.just("append"), arg), st.tuples(st.just("prepend"), arg),
                st.tuples(st.just("insert"), arg, st.integers(0, 3)), st.tuples(st.just("remove"), arg),
                st.tuples(st.just("add"), arg, st.booleans(), st.booleans()),
                st.tuples(st.just("setitem"), arg, idx), st.tuples(st.just("delitem"), st.none(), idx)).map(list))
        if kind == "strset":
            w = st.sampled_from(V.HIST_WORDS)
            return data.draw(st.one_of(st.tuples(st.just("add"), w), st.tuples(st.just("discard"), w)).map(list))
        if kind == "pylist":
            return data.draw(st.one_of(st.tuples(st.just("append"), st.sampled_from(["p", "q"])),
                                       st.tuples(st.just("delitem"), st.none(), idx)).map(list))
        if kind == "lscolors":
            return data.draw(st.one_of(
                st.tuples(st.just("setitem"), st.sampled_from(V.LS_KEYS), st.sampled_from(V.LS_VALUES)),
                st.tuples(st.just("delitem"), st.sampled_from(V.LS_KEYS))).map(list))
        if kind == "tokdict":
            return data.draw(st.one_of(
                st.tuples(st.just("setitem"), st.sampled_from(V.TOK_NAMES), st.sampled_from(V.TOK_STYLES)),
                st.tuples(st.just("delitem"), st.sampled_from(V.TOK_NAMES))).map(list))
        return None

    class EnvMachine(RuleBasedStateMachine):
        def __init__(self):
            super().__init__()
            self.h = None

        def teardown(self):
            h = self.h
            if h is None:
                return
            h.close()
            stats = _ctx["stats"]
            if _ctx.get("failed") or not h.ops:
                return
            stats.case(("B", h.uoe, json.dumps(h.ops, sort_keys=True)), h.nontrivial,
                       ["B:history"] + (["B:history-nontrivial"] if h.nontrivial else []) +
                       (["B:history-update-os-environ"] if h.uoe else []),
                       sample=({"uoe": h.uoe, "ops": h.ops[:12], "of": len(h.ops)} if h.nontrivial else None),
                       max_per_label=2)
            stats.hist["B:steps"] += len(h.ops)
            for lab, n in h.labels.items():
                stats.hist["B:" + lab] += n
            for fid, n in h.tolerated.items():
                stats.excluded_known[fid] += n

        def do(self, op):
            if op is None:
                return
            try:
                self.h.step(op)
            except Mismatch:
                _ctx["failed"] = True
                raise

        @initialize(uoe=st.sampled_from([False] * 5 + [True]), data=st.data())
        def start(self, uoe, data):
            try:
                self.h = History(_ctx["open_ids"], uoe=uoe)
                self.h.observe(self.h.env.detype(), "initial detype()")
            except Mismatch:
                _ctx["failed"] = True
                raise
            mutable = sorted(k for k, v in POOL.items() if v in V.MUTABLE_KINDS)
            first = data.draw(st.lists(st.sampled_from(mutable), min_size=1, max_size=3, unique=True))
            more = data.draw(st.lists(st.sampled_from(sorted(POOL)), max_size=4, unique=True))
            for name in first + [n for n in more if n not in first]:
                v = value(data, self.h, name, raw=False)
                if v is not NOVAL:
                    self.do({"op": "set", "k": name, "v": v})

        @rule(name=any_name, data=st.data())
        def set_var(self, name, data):
            v = value(data, self.h, name)
            if v is not NOVAL:
                self.do({"op": "set", "k": name, "v": v})

        @rule(name=any_name)
        def del_var(self, name):
            self.do({"op": "del", "k": name})

        @rule(name=any_name)
        def mask_var(self, name):
            self.do({"op": "mask", "k": name})

        def mutable_now(self):
            out = []
            for n in sorted(self.h.names()):
                c = self.h.effective(n)
                if c is not None and c is not MASK and c["kind"] in V.MUTABLE_KINDS:
                    out.append(n)
            return out

        @rule(data=st.data())
        def mutate_fresh(self, data):
            cands = self.mutable_now()
            if not cands:
                return
            name = data.draw(st.sampled_from(cands))
            m = mutation(data, self.h.effective(name)["kind"])
            if m is not None:
                self.do({"op": "mut", "via": "fresh", "k": name, "m": m})

        @rule(s=slot, data=st.data())
        def hold(self, s, data):
            cands = self.mutable_now()
            if cands:
                self.do({"op": "hold", "k": data.draw(st.sampled_from(cands)), "slot": s})

        @rule(s=slot, data=st.data())
        def mutate_held(self, s, data):
            h = self.h.held.get(s)
            if h is None:
                return
            m = mutation(data, h[1]["kind"])
            if m is not None:
                self.do({"op": "mut", "via": "held", "slot": s, "m": m})

        @rule(s=slot, data=st.data())
        def mutate_held_again(self, s, data):
            self.mutate_held(s=s, data=data)

        @rule(data=st.data())
        def read(self, data):
            cands = sorted(n for n in self.h.names() if self.h.is_set(n))
            if cands:
                self.do({"op": "read", "k": data.draw(st.sampled_from(cands))})

        @rule(edit=st.sampled_from([False, False, False, True]))
        def detype(self, edit):
            self.do({"op": "detype_edit" if edit else "detype"})

        @rule(ns=st.lists(any_name, min_size=1, max_size=3, unique=True), style=st.sampled_from(["kwargs", "dict"]),
              data=st.data())
        def swap_in(self, ns, style, data):
            kv = {}
            for n in ns:
                v = value(data, self.h, n, masks=True)
                if v is not NOVAL:
                    kv[n] = v
            if kv:
                self.do({"op": "swap_in", "kv": kv, "style": style})

        @rule(ns=st.lists(any_name, max_size=2, unique=True), data=st.data())
        def overlay_in(self, ns, data):
            kv = {}
            for n in ns:
                v = value(data, self.h, n, masks=True)
                if v is not NOVAL:
                    kv[n] = v
            self.do({"op": "overlay_in", "kv": kv})

        @rule(name=any_name, data=st.data())
        def overlay_set(self, name, data):
            if not self.h.scopes or self.h.scopes[-1]["type"] != "overlay":
                return
            v = value(data, self.h, name, masks=True)
            if v is not NOVAL:
                self.do({"op": "overlay_set", "k": name, "v": v})

        @rule(r=st.sampled_from([False, False, False, True]))
        def scope_out(self, r):
            self.do({"op": "scope_out", "raise": r})

        @rule()
        def scope_out_2(self):
            self.do({"op": "scope_out", "raise": False})

        @rule(name=any_name, data=st.data())
        def scope_out_or_set(self, name, data):
            if len(self.h.scopes) >= 2:
                self.do({"op": "scope_out", "raise": False})
            else:
                self.set_var(name=name, data=data)

        @rule(name=st.sampled_from(DYN_NAMES), t=st.sampled_from(REG_TYPES))
        def register(self, name, t):
            self.do({"op": "register", "k": name, "type": t})

        @rule(name=st.sampled_from(DYN_NAMES))
        def deregister(self, name):
            self.do({"op": "deregister", "k": name})

        @rule(how=st.sampled_from(["spec"] * 8 + ["detype"] * 4 + ["spawn", "full"]))
        def launch(self, how):
            self.do({"op": "launch", "how": how})

        @rule(how=st.sampled_from(["spec"] * 6 + ["spawn", "full"]),
              ns=st.lists(any_name, min_size=1, max_size=2, unique=True), data=st.data())
        def launch_with_prefix(self, how, ns, data):
            kv = {}
            for n in ns:
                kind = self.h.kind(n)
                if kind is None:
                    continue
                form = data.draw(st.sampled_from(["value", "value", "atlist", "mask"]))
                if form == "mask":
                    kv[n] = {"mask": 1}
                elif form == "atlist":
                    words = ["/o1", "/o2", "7", "1", ""]
                    kv[n] = {"atlist": data.draw(st.lists(st.sampled_from(words), max_size=2 if kind == "envpath" else 1))}
                else:
                    v = value(data, self.h, n)
                    if v is not NOVAL:
                        kv[n] = v
            if kv:
                self.do({"op": "launch", "how": how, "overlay": kv})

        def twins_of(self, cell):
            spec = V.dec_num(cell["spec"])
            if cell["kind"] == "histsize" and spec[1] == "s":
                n = V.dec_num(spec[0])
                if isinstance(n, int):
                    return [[float(n), "s"]]
                if isinstance(n, float) and n == int(n) and abs(n) < 2 ** 53:
                    return [[int(n), "s"]]
                return []
            if cell["kind"] != "untyped" or not isinstance(spec, (bool, int, float)):
                return []
            if isinstance(spec, float) and (spec != spec or spec in (float("inf"), float("-inf")) or spec != int(spec)):
                return []
            out = [x for x in (int(spec), float(spec)) if type(x) is not type(spec)]
            if spec in (0, 1):
                out += [x for x in (bool(spec),) if type(x) is not type(spec)]
            return out

        @rule(data=st.data(), scoped=st.sampled_from([False, False, True]), how=st.sampled_from(["detype", "detype", "spec"]))
        def equal_reassign(self, data, scoped, how):
            """assign (or swap in) a value that is == to the stored one but has another string form, with a mapping
            freshly cached before and a launch right after"""
            h = self.h
            cands = [n for n in sorted(h.glob) if h._writable(n) and not h.in_overlay(n) and self.twins_of(h.glob[n])]
            if not cands:
                name = data.draw(st.sampled_from(["FOO", "BAR", "XONSH_HISTORY_SIZE"]))
                if not h._writable(name) or h.in_overlay(name):
                    return
                v = data.draw(st.sampled_from([[5, "s"], [0, "s"]])) if name == "XONSH_HISTORY_SIZE" else \
                    data.draw(st.sampled_from([True, False, 1, 0, 7, 1.0, 0.0]))
                self.do({"op": "set", "k": name, "v": v})
            else:
                name = data.draw(st.sampled_from(cands))
            if name not in h.glob:
                return
            tw = self.twins_of(h.glob[name])
            if not tw:
                return
            v = V.enc_num(data.draw(st.sampled_from(tw))) if not isinstance(tw[0], list) else data.draw(st.sampled_from(tw))
            self.do({"op": "detype"})
            if scoped:
                self.do({"op": "swap_in", "kv": {name: v}, "style": "kwargs"})
            else:
                self.do({"op": "set", "k": name, "v": v})
            self.do({"op": "launch", "how": how})

        @rule(s=slot)
        def set_held(self, s):
            self.do({"op": "set_held", "slot": s})

        @rule(s=slot, data=st.data(), how=st.sampled_from(["detype", "detype", "spec"]))
        def edit_and_reassign(self, s, data, how):
            """p = $X; <launch>; p.append(...); $X = p; <launch>"""
            cands = self.mutable_now()
            if not cands:
                return
            name = data.draw(st.sampled_from(cands))
            self.do({"op": "hold", "k": name, "slot": s})
            hd = self.h.held.get(s)
            if hd is None or hd[0] != name:
                return
            self.do({"op": "launch", "how": how})
            m = mutation(data, hd[1]["kind"])
            if m is None:
                return
            self.do({"op": "mut", "via": "held", "slot": s, "m": m})
            self.do({"op": "set_held", "slot": s})
            self.do({"op": "launch", "how": how})

        @rule(n=st.sampled_from([2, 2, 3]), go=st.sampled_from([True] + [False] * 5), data=st.data())
        def pipeline(self, n, go, data):
            if not go:          # (a real pipeline costs 30-100 ms)
                self.do({"op": "launch", "how": "spec"})
                return
            stages = []
            for i in range(n):
                kv = {}
                if data.draw(st.sampled_from([True, True, False])):
                    for nm in data.draw(st.lists(any_name, min_size=1, max_size=2, unique=True)):
                        if self.h.kind(nm) is None:
                            continue
                        if data.draw(st.sampled_from([False, False, False, True])):
                            kv[nm] = {"mask": 1}
                        else:
                            v = value(data, self.h, nm)
                            if v is not NOVAL:
                                kv[nm] = v
                stages.append(kv or None)
            self.do({"op": "pipeline", "stages": stages})

        @rule(how=st.sampled_from(["detype", "detype", "spec"]))
        def xthread(self, how):
            self.do({"op": "xthread", "how": how})

    return EnvMachine


def worker_machine(arg):
    seed, n_examples, steps, open_ids = arg
    _setup()
    os.dup2(os.open(os.devnull, os.O_WRONLY), 2)       # EnvPath.remove and friends print to fd 2
    stats = Stats()
    _ctx.clear()
    _ctx.update(open_ids=set(open_ids), stats=stats, failed=False)
    try:
        exc = common.run_machine(make_machine(), seed, n_examples, steps, shrink=True, shrink_seconds=20)
    finally:
        _restore_process()
    f = common.machine_failure(exc, "C10 environment machine")
    if f is not None:
        g = check_history(f.case, open_ids)
        if g is None:
            stats.notes.append("shrunk history did not fail again on replay (kept the original failure): %s"
                               % json.dumps(f.case)[:300])
            stats.fail(f)
        else:
            stats.fail(minimize_ops(g, open_ids))
    return stats


# ----------------------------------------------------------------------------------------


def check_case(case, open_ids=()):
    """One saved case of either part -> Failure | None"""
    _setup()
    if case.get("part") == "A" or "name" in case:
        return check_value(case)[0]
    return check_history(case, open_ids)


def worker_replay(arg):
    cases = arg
    _setup()
    os.dup2(os.open(os.devnull, os.O_WRONLY), 2)
    out = []
    for case in cases:
        f = check_case(case, ())
        out.append(None if f is None else f.to_json())
    return {"results": out}


def main(run):
    import glob

    # committed replays run in a worker: histories with $UPDATE_OS_ENVIRON rewrite os.environ
    files = [p for p in sorted(glob.glob(os.path.join(common.REPLAY_DIR, PROP, "*.json")))
             if not os.path.basename(p).startswith("violation-")]
    cases = []
    for p in files:
        with open(p) as f:
            body = json.load(f)
        cases.append(body.get("case", body))
    cache = {}
    if cases:
        res = common.pool_map(run, __name__, "worker_replay", [cases], procs=1)
        for c, r in zip(cases, res[0]["results"]):
            cache[json.dumps(c, sort_keys=True)] = None if r is None else Failure.from_json(r)
    c11_open = {e["id"] for e in common.load_known("C11") if e.get("status") == "open"}
    own_ids = {e["id"] for e in run.known}
    xref_open = {own for own, other in XREF.items() if other in c11_open and own not in own_ids}

    def replayed(case):
        f = cache[json.dumps(case, sort_keys=True)]
        if f is not None and f.finding in xref_open:
            run.stats.hist["skipped:recorded-as-%s" % XREF[f.finding]] += 1
            return None
        return f

    common.replay_tier(run, replayed)

    # (the C11 ids switch the exclusions that exist only because a shape is recorded there)
    open_ids = sorted(set(run.known_open) | xref_open | c11_open)
    nw = 8 if run.tier == "quick" else 16
    per_var = run.n(100, 2500)
    common.pool_map(run, __name__, "worker_a", [(run.seed, per_var, w, nw, open_ids) for w in range(nw)], procs=nw)
    total = run.n(4000, 200000)
    steps = run.n(30, 40)
    common.pool_map(run, __name__, "worker_machine",
                    [(common.worker_seed(run.seed, 1000 + w), total // nw, steps, open_ids) for w in range(nw)],
                    procs=nw)
    h = run.stats.hist
    for fid in xref_open:
        n = run.stats.excluded_known.pop(fid, 0)
        if n:
            h["skipped:recorded-as-%s" % XREF[fid]] += n
    run.extra["steps_executed"] = h.get("B:steps", 0)
    launches = sum(v for k, v in h.items() if k.startswith("B:launch:"))
    run.extra["launches"] = launches
    if launches:
        run.extra["launch_fractions"] = {
            k: round(h.get("B:" + k, 0) / launches, 3) for k in (
                "launch-after-change", "launch-after-fresh-mutation", "launch-after-held-mutation",
                "launch-inside-swap", "launch-inside-alias-overlay", "launch-with-per-command-overlay",
                "launch-with-per-command-mask", "real-child-spawned", "launch:full", "launch:pipeline",
                "launch:second-thread", "launch-after-equal-valued-reassignment",
                "launch-after-same-object-reassignment")}
    run.extra["side_effect_converters_exercised_for_real"] = sorted(
        k.split(":")[-1] for k in h if k.startswith("A:side-effect-converter:"))
    if not run.stats.failures:
        floors = [("B:launch-after-fresh-mutation", 20), ("B:launch-after-held-mutation", 20),
                  ("B:launch-inside-swap", 20), ("B:launch-inside-alias-overlay", 10),
                  ("B:launch-with-per-command-overlay", 20), ("B:launch-with-per-command-mask", 5),
                  ("B:real-child-spawned", 10), ("B:launch:full", 10), ("B:launch:second-thread", 20),
                  ("B:second-thread-launch-while-main-in-swap", 5), ("B:os.environ-compared", 10),
                  ("B:op:register", 5), ("B:swap-with-mask", 5), ("B:set-from-string", 10),
                  ("B:launch:pipeline", 10), ("B:pipeline-prefix-on-later-stage", 10),
                  ("B:launch-after-equal-valued-reassignment", 20), ("B:launch-after-same-object-reassignment", 10)]
        floors += [("B:scoped-assignment-of-mirrored-variable", 50), ("B:prefix-of-mirrored-variable", 50),
                   ("B:launch-after-scope-of-mirrored-variable-ended", 50)]
        # shapes that are generated only when the C11 entry that used to cover them is closed
        if C11_DEFAULT not in c11_open:
            floors += [("B:swap-of-unset-variable-with-default", 50), ("B:prefix-of-unset-variable-with-default", 50)]
        if C11_OVERLAY_LEAK not in c11_open:
            floors += [("B:swap-of-name-held-by-alias-overlay", 10)]
        if C11_LOCAL_COPY not in c11_open:
            floors += [("B:second-thread-view-of-names-that-went-through-a-scope", 50)]
        low = ["%s=%d<%d" % (k, h.get(k, 0), v) for k, v in floors if h.get(k, 0) < v]
        kinds_seen = {k.split(":")[-1] for k in h if k.startswith("A:kind:")}
        if len(kinds_seen) < 25:
            low.append("part A reached only %d value types" % len(kinds_seen))
        if low:
            raise common.HarnessError("generator incomplete, under the floor: " + ", ".join(low))
    run.assumptions += [
        "valid values exclude what the string form cannot represent by construction: entries containing the "
        "separator, a path list / set whose only entry is the empty string, NaN, lower-case $PATHEXT entries, "
        "fractional or infinite $XONSH_HISTORY_SIZE counts, second counts given as an int beyond +-2**53 (seconds "
        "are converted with float(); int-vs-float of an equal number is not compared), compiled patterns for "
        "$XONSH_HISTORY_IGNORE_REGEX",
        "equality of the nested value is taken per type: sequences element-wise, paths after making them absolute, "
        "None == '' for $XONSH_TRACEBACK_LOGFILE (documented string form), cursor-shape configs by class, "
        "$LS_COLORS colour names only as produced by xonsh's own escape-code table (reference = a fresh LsColors)",
        "unregistered names: only str values must come back equal; other values must be exported as str(value)",
        "converters with side effects (LC_*, $PROMPT_TOOLKIT_COLOR_DEPTH, $XONSH_DEBUG, $INTENSIFY_COLORS_ON_WIN, "
        "$UPDATE_OS_ENVIRON) run for real; locale, os.environ and the execer debug level are restored after each case",
        "inside a swap scope the swapped names (and their `sync` twins) are not reassigned or deleted (C11's subject)",
        "only while the corresponding entry of known_findings.json is open: a swap / `$X=v cmd` prefix never names a "
        "variable that is unset but has a registered default (C11-F1), never names a variable an active alias overlay "
        "holds (C11-F3), and the second-thread view ignores names that went through a swap scope (C11-F2); a "
        "`$X=v cmd` prefix of a name an alias overlay holds is not generated while C10-F9 is open",
        "an alias overlay has priority over swapped values wherever it sits in the nesting (Env.swap docstring, "
        "docs/callable_aliases.rst); a per-command prefix has priority over both",
        "assignments (plain, swap, prefix) of a variable with a `sync` twin apply to the twin in the same scope; "
        "deletion and DELETE_VAR masks apply to the named variable only (what Env does; no document says otherwise)",
        "with $UPDATE_OS_ENVIRON histories use set / delete / EnvPath edits / launches only",
        "variable names and values contain no NUL and no lone surrogates (they must survive execve)",
    ]


def replay(run, path):
    with open(path) as f:
        d = json.load(f)
    case = d.get("case", d)
    res = common.pool_map(run, __name__, "worker_replay", [[case]], procs=1)
    r = res[0]["results"][0]
    if r is None:
        print("replay: property holds on this case")
        return 0
    f = Failure.from_json(r)
    print("VIOLATION property=%s replay=%s kind=%s %s%s" % (
        PROP, path, f.kind, common._oneline(f.detail),
        " [shape of recorded finding %s]" % f.finding if f.finding else ""))
    return 1

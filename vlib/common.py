"""Runner-side plumbing: tiers, seeds, evidence, known findings, violation reporting,
worker pool.  Nothing in here knows about a particular property."""

from __future__ import annotations

import hashlib
import json
import os
import shutil
import sys
import tempfile
import time
import traceback
from collections import Counter

VERIF = os.path.dirname(os.path.dirname(os.path.abspath(__file__)))
REPO = os.environ.get("VERIF_REPO", "/repo")
WORK = os.path.join(VERIF, ".work")
EVIDENCE_DIR = os.path.join(VERIF, "evidence")
REPLAY_DIR = os.path.join(VERIF, "replays")
KNOWN_FILE = os.environ.get("VERIF_KNOWN_FILE") or os.path.join(VERIF, "known_findings.json")
GUARD = "XONSH_XONSH_VERIF"

EXIT_OK, EXIT_VIOLATION, EXIT_HARNESS = 0, 1, 2


class HarnessError(Exception):
    """Something is wrong with the machinery, not with xonsh (exit 2)."""


def pin_environment(scratch: str, hooks: bool = False) -> None:
    """Pin everything a check's behaviour could otherwise inherit from the caller."""
    e = os.environ
    e["PYTHONHASHSEED"] = "0"
    e["LC_ALL"] = "C.UTF-8"
    e["LANG"] = "C.UTF-8"
    e["TERM"] = "dumb"
    e["PYTHONWARNINGS"] = "ignore"
    import warnings

    warnings.simplefilter("ignore")
    e["HOME"] = os.path.join(scratch, "home")
    e["XDG_CONFIG_HOME"] = os.path.join(scratch, "xdg-config")
    e["XDG_DATA_HOME"] = os.path.join(scratch, "xdg-data")
    e["XDG_CACHE_HOME"] = os.path.join(scratch, "xdg-cache")
    e["XONSH_DATA_DIR"] = os.path.join(scratch, "xonsh-data")
    e["XONSH_CACHE_DIR"] = os.path.join(scratch, "xonsh-cache")
    for k in ("XONSHRC", "XONSH_DEBUG", "XONSH_TRACE_SUBPROC", "XONSH_SHOW_TRACEBACK",
              "PYTHONSTARTUP", "XONSH_HISTORY_FILE", "XONSH_HISTORY_BACKEND"):
        e.pop(k, None)
    for d in ("home", "xdg-config", "xdg-data", "xdg-cache", "xonsh-data", "xonsh-cache"):
        os.makedirs(os.path.join(scratch, d), exist_ok=True)
    if hooks:
        e[GUARD] = "1"
    else:
        e.pop(GUARD, None)
    if REPO not in sys.path:
        sys.path.insert(0, REPO)
    if VERIF not in sys.path:
        sys.path.insert(0, VERIF)


def h64(obj) -> str:
    if not isinstance(obj, (bytes, bytearray)):
        obj = repr(obj).encode("utf-8", "surrogatepass")
    return hashlib.blake2b(obj, digest_size=8).hexdigest()


def jsonable(x, depth=0, full=False):
    """JSON-able copy.  full=True keeps every string/list complete (replay cases); otherwise long
    values are abbreviated (evidence samples)."""
    if full:
        return _jsonable_full(x, depth)
    if depth > 6:
        return repr(x)[:200]
    if isinstance(x, (str, int, float, bool)) or x is None:
        if isinstance(x, str):
            x = x.encode("utf-8", "backslashreplace").decode("utf-8")
            return x if len(x) <= 600 else x[:600] + "...<%d chars>" % len(x)
        if isinstance(x, float) and (x != x or x in (float("inf"), float("-inf"))):
            return repr(x)
        return x
    if isinstance(x, (bytes, bytearray)):
        r = repr(bytes(x))
        return r if len(r) <= 600 else r[:600] + "...<%d bytes>" % len(x)
    if isinstance(x, dict):
        return {str(k): jsonable(v, depth + 1) for k, v in list(x.items())[:60]}
    if isinstance(x, (list, tuple, set, frozenset)):
        xs = list(x)
        out = [jsonable(v, depth + 1) for v in xs[:60]]
        if len(xs) > 60:
            out.append("...<%d items>" % len(xs))
        return out
    return repr(x)[:300]


def _jsonable_full(x, depth=0):
    if depth > 40:
        return repr(x)
    if isinstance(x, str):
        return x        # json.dump(ensure_ascii=True) round-trips lone surrogates as \\udXXX escapes
    if isinstance(x, (int, bool)) or x is None:
        return x
    if isinstance(x, float):
        return repr(x) if (x != x or x in (float("inf"), float("-inf"))) else x
    if isinstance(x, (bytes, bytearray)):
        return {"__bytes__": bytes(x).hex()}
    if isinstance(x, dict):
        return {str(k): _jsonable_full(v, depth + 1) for k, v in x.items()}
    if isinstance(x, (list, tuple)):
        return [_jsonable_full(v, depth + 1) for v in x]
    if isinstance(x, (set, frozenset)):
        return sorted((_jsonable_full(v, depth + 1) for v in x), key=repr)
    return repr(x)


def _has_surrogate(s):
    return any(0xD800 <= ord(ch) <= 0xDFFF for ch in s)


class Failure:
    """One observed disagreement with the oracle.

    kind     short failure class (e.g. 'reject', 'tree-differs')
    case     the (minimal) failing input, JSON-able, enough for replay
    detail   human text
    finding  id of the known finding whose *narrow predicate* the minimal case satisfies
             (decided by the check), or None
    bucket   root-cause key used to avoid reporting the same thing many times
    """

    def __init__(self, kind, case, detail="", finding=None, bucket=None):
        self.kind = kind
        self.case = case
        self.detail = detail
        self.finding = finding
        self.bucket = bucket or (finding or kind)

    def to_json(self):
        return {"kind": self.kind, "case": jsonable(self.case, full=True), "detail": jsonable(self.detail),
                "finding": self.finding, "bucket": self.bucket}

    @classmethod
    def from_json(cls, d):
        return cls(d["kind"], d["case"], d.get("detail", ""), d.get("finding"), d.get("bucket"))


class Stats:
    """Counters a worker accumulates and the parent merges."""

    def __init__(self):
        self.evaluations = 0
        self.nontrivial = set()
        self.hist = Counter()
        self.samples = {}          # label -> list of cases
        self.failures = []         # list[Failure]
        self.notes = []
        self.inconclusive = 0
        self.excluded_known = Counter()
        self.discards = 0

    def case(self, key, nontrivial, labels=(), sample=None, max_per_label=2):
        self.evaluations += 1
        if nontrivial:
            self.nontrivial.add(h64(key))
        for lab in labels:
            self.hist[lab] += 1
        if sample is not None:
            lab = labels[0] if labels else "case"
            lst = self.samples.setdefault(lab, [])
            if len(lst) < max_per_label:
                lst.append(jsonable(sample))

    def fail(self, failure: Failure):
        self.failures.append(failure)

    def dump(self):
        return {
            "evaluations": self.evaluations,
            "nontrivial": sorted(self.nontrivial),
            "hist": dict(self.hist),
            "samples": self.samples,
            "failures": [f.to_json() for f in self.failures],
            "notes": self.notes,
            "inconclusive": self.inconclusive,
            "excluded_known": dict(self.excluded_known),
            "discards": self.discards,
        }

    def merge(self, d):
        if isinstance(d, Stats):
            d = d.dump()
        self.evaluations += d["evaluations"]
        self.nontrivial.update(d["nontrivial"])
        self.hist.update(d["hist"])
        for lab, lst in d["samples"].items():
            mine = self.samples.setdefault(lab, [])
            for s in lst:
                if len(mine) < 2:
                    mine.append(s)
        self.failures.extend(Failure.from_json(f) for f in d["failures"])
        self.notes.extend(d["notes"])
        self.inconclusive += d["inconclusive"]
        self.excluded_known.update(d["excluded_known"])
        self.discards += d["discards"]


def load_known(prop):
    try:
        with open(KNOWN_FILE) as f:
            data = json.load(f)
    except FileNotFoundError:
        return []
    return [e for e in data.get("findings", []) if e.get("property") == prop]


class Run:
    """One invocation of one check: collects stats, decides the exit code, writes evidence."""

    def __init__(self, prop, tier, seed, level="exploration", rule="", hooks=False):
        self.prop = prop
        self.tier = tier
        self.seed = seed
        self.level = level
        self.rule = rule
        self.t0 = time.time()
        self.stats = Stats()
        self.assumptions = []
        self.extra = {}
        self.known = load_known(prop)
        self.known_open = {e["id"]: e for e in self.known if e.get("status") == "open"}
        self.known_fixed = {e["id"]: e for e in self.known if e.get("status") == "fixed"}
        self.known_lines = {}
        self.violation_lines = []
        self.exhaustive = False
        os.makedirs(WORK, exist_ok=True)
        self.scratch = tempfile.mkdtemp(prefix="run-%s-" % prop, dir=WORK)
        pin_environment(self.scratch, hooks=hooks)

    # -- sizes ---------------------------------------------------------------------
    def n(self, quick, thorough):
        return thorough if self.tier == "thorough" else quick

    # -- known findings / violations -----------------------------------------------
    def report_known(self, fid, what=None):
        ent = self.known_open.get(fid)
        if ent is None:
            raise HarnessError("report_known(%s): not an open entry of known_findings.json" % fid)
        self.known_lines[fid] = "KNOWN-FINDING: property=%s %s %s" % (self.prop, fid, what or ent.get("what", ""))

    def report_violation(self, failure: Failure):
        os.makedirs(os.path.join(REPLAY_DIR, self.prop), exist_ok=True)
        body = failure.to_json()
        body["property"] = self.prop
        body["seed"] = self.seed
        body["tier"] = self.tier
        name = "violation-%s.json" % h64(json.dumps(body["case"], sort_keys=True, default=repr) + failure.kind)
        path = os.path.join(REPLAY_DIR, self.prop, name)
        with open(path, "w") as f:
            json.dump(body, f, indent=1, default=repr)
        rel = os.path.relpath(path, VERIF)
        self.violation_lines.append(
            "VIOLATION property=%s replay=%s kind=%s %s" % (self.prop, rel, failure.kind, _oneline(failure.detail)))

    def settle_failures(self):
        """Turn collected failures into KNOWN-FINDING / VIOLATION lines, one per bucket."""
        seen = set()
        for f in self.stats.failures:
            if f.finding and f.finding in self.known_open:
                self.stats.hist["attributed:" + f.finding] += 1
                if f.finding not in self.known_lines:
                    self.report_known(f.finding)
                continue
            if f.bucket in seen:
                continue
            seen.add(f.bucket)
            self.report_violation(f)

    # -- finish --------------------------------------------------------------------
    def finish(self):
        self.settle_failures()
        st = self.stats
        samples = []
        for lab in sorted(st.samples):
            for s in st.samples[lab]:
                samples.append({"class": lab, "case": s})
        samples = samples[:24]
        cov = {
            "evaluations": st.evaluations,
            "distinct_nontrivial": len(st.nontrivial),
            "rule": self.rule,
            "samples": samples,
            "histogram": dict(sorted(st.hist.items())),
            "excluded_known": dict(st.excluded_known),
            "known_findings_reported": sorted(self.known_lines),
            "inconclusive": st.inconclusive,
            "harness_discards": st.discards,
            "notes": st.notes[:40],
        }
        if self.exhaustive:
            cov["exhaustive"] = True
        cov.update(self.extra)
        ev = {
            "property_id": self.prop,
            "tier": self.tier,
            "seed": self.seed,
            "level": self.level,
            "coverage": cov,
            "assumptions": self.assumptions,
            "wall_s": round(time.time() - self.t0, 2),
            "violations": len(self.violation_lines),
        }
        os.makedirs(EVIDENCE_DIR, exist_ok=True)
        tmp = os.path.join(EVIDENCE_DIR, ".%s.json.tmp" % self.prop)
        with open(tmp, "w") as f:
            json.dump(ev, f, indent=1, default=repr)
        os.replace(tmp, os.path.join(EVIDENCE_DIR, "%s.json" % self.prop))
        for fid in sorted(self.known_lines):
            print(self.known_lines[fid])
        for line in self.violation_lines:
            print(line)
        print("%s %s seed=%d evaluations=%d distinct_nontrivial=%d violations=%d known=%d wall=%.1fs" % (
            self.prop, self.tier, self.seed, st.evaluations, len(st.nontrivial),
            len(self.violation_lines), len(self.known_lines), time.time() - self.t0))
        sys.stdout.flush()
        self.cleanup()
        if self.violation_lines:
            return EXIT_VIOLATION
        if st.evaluations < 1 or len(st.nontrivial) < 2:
            print("HARNESS: vacuous run (no non-trivial cases)", file=sys.stderr)
            return EXIT_HARNESS
        return EXIT_OK

    def cleanup(self):
        shutil.rmtree(self.scratch, ignore_errors=True)


def replay_tier(run: Run, check_fn):
    """Run every committed replay of this property.  check_fn(case) -> Failure | None.

    open finding  + still fails -> KNOWN-FINDING line;  no longer fails -> note in evidence
    fixed finding + fails again -> VIOLATION
    other committed replays (regression seeds) are treated like generated cases."""
    import glob

    by_replay = {}
    for ent in run.known:
        if ent.get("replay"):
            by_replay[os.path.normpath(os.path.join(VERIF, ent["replay"]))] = ent
    files = sorted(glob.glob(os.path.join(REPLAY_DIR, run.prop, "*.json")))
    for path in files:
        if os.path.basename(path).startswith("violation-"):
            continue
        with open(path) as f:
            body = json.load(f)
        case = body.get("case", body)
        ent = by_replay.get(os.path.normpath(path))
        try:
            fail = check_fn(case)
        except HarnessError:
            raise
        except Exception:
            raise HarnessError("replay %s crashed:\n%s" % (path, traceback.format_exc()))
        run.stats.evaluations += 1
        run.stats.hist["replay-tier"] += 1
        if ent is None:
            if fail is not None:
                run.stats.fail(fail)
            continue
        if ent.get("status") == "open":
            if fail is not None:
                run.report_known(ent["id"])
            else:
                run.stats.notes.append("open finding %s no longer reproduces on this tree" % ent["id"])
        else:
            if fail is not None:
                if fail.finding and fail.finding != ent["id"] and fail.finding in run.known_open:
                    # the input of a repaired finding now shows a *different*, still open one (narrow predicate of that one)
                    run.stats.hist["attributed:" + fail.finding] += 1
                    run.report_known(fail.finding)
                    continue
                fail.finding = None
                fail.bucket = "recurrence:" + ent["id"]
                fail.detail = "fixed finding %s is back: %s" % (ent["id"], fail.detail)
                run.stats.fail(fail)
    for ent in run.known:
        if ent.get("replay") and not os.path.exists(os.path.join(VERIF, ent["replay"])):
            raise HarnessError("known finding %s: replay file %s missing" % (ent["id"], ent["replay"]))


def _oneline(s, n=300):
    s = str(s).replace("\n", "\\n")
    return s if len(s) <= n else s[:n] + "..."


# ---------------------------------------------------------------------------------------
# worker pool


def _pool_entry(payload):
    modname, funcname, arg, scratch, hooks = payload
    pin_environment(scratch, hooks=hooks)
    import importlib

    mod = importlib.import_module(modname)
    try:
        res = getattr(mod, funcname)(arg)
    except HarnessError:
        raise
    except BaseException:
        raise HarnessError("worker %s.%s crashed:\n%s" % (modname, funcname, traceback.format_exc()))
    if isinstance(res, Stats):
        res = res.dump()
    return res


def pool_map(run: Run, modname, funcname, args, procs=None, hooks=False, timeout=None):
    """Run modname.funcname(arg) for every arg in spawned worker processes; merge Stats dumps."""
    import concurrent.futures as cf
    import multiprocessing as mp

    procs = min(procs or int(os.environ.get("VERIF_PROCS") or os.cpu_count() or 4), len(args), 16) or 1
    out = []
    ctx = mp.get_context("spawn")
    # one task per process: the checks keep per-process state (session, scratch paths) that must not leak from one task into
    # the next when there are fewer processes than tasks (VERIF_PROCS) or a fast worker takes a second task
    with cf.ProcessPoolExecutor(max_workers=procs, mp_context=ctx, max_tasks_per_child=1) as ex:
        futs = []
        for i, a in enumerate(args):
            sc = os.path.join(run.scratch, "w%d" % i)
            os.makedirs(sc, exist_ok=True)
            futs.append(ex.submit(_pool_entry, (modname, funcname, a, sc, hooks)))
        for fu in futs:
            try:
                out.append(fu.result(timeout=timeout))
            except cf.TimeoutError:
                raise HarnessError("worker timed out after %ss" % timeout)
    for d in out:
        if isinstance(d, dict) and "evaluations" in d and "nontrivial" in d:
            run.stats.merge(d)
    return out


def worker_seed(seed, w):
    return seed * 1_000_003 + w


# ---------------------------------------------------------------------------------------
# Hypothesis helpers


def hyp_settings(max_examples, shrink=False, stateful_steps=None):
    from hypothesis import HealthCheck, Phase, Verbosity, settings

    kw = dict(
        max_examples=max_examples,
        deadline=None,
        database=None,
        derandomize=False,
        report_multiple_bugs=False,
        suppress_health_check=list(HealthCheck),
        phases=[Phase.generate, Phase.shrink] if shrink else [Phase.generate],
        print_blob=False,
        verbosity=Verbosity.quiet,
    )
    if stateful_steps is not None:
        kw["stateful_step_count"] = stateful_steps
    return settings(**kw)


def limit_shrink_seconds(sec):
    import hypothesis.internal.conjecture.engine as eng

    eng.MAX_SHRINKING_SECONDS = sec


def run_given(strategy, body, seed, max_examples, shrink=False):
    """Drive `body(value)` with Hypothesis under a pinned seed.  `body` normally records into a
    Stats object and never raises (collect mode); when it raises, Hypothesis shrinks (if asked)
    and the final exception propagates."""
    import hypothesis
    from hypothesis import given

    @hypothesis.seed(seed)
    @hyp_settings(max_examples, shrink=shrink)
    @given(strategy)
    def _t(v):
        body(v)

    _t()


def minimize(strategy, still_fails, seed, max_examples, seconds=30):
    """Find a small value for which still_fails(value) is true, using Hypothesis' shrinker.
    Returns the minimal value or None when the failure is not re-found."""
    import hypothesis
    from hypothesis import given

    limit_shrink_seconds(seconds)
    box = {}

    class _Found(Exception):
        pass

    @hypothesis.seed(seed)
    @hyp_settings(max_examples, shrink=True)
    @given(strategy)
    def _t(v):
        if still_fails(v):
            box["v"] = v
            raise _Found()

    try:
        _t()
    except _Found:
        pass
    except Exception:
        pass
    return box.get("v")


class Mismatch(Exception):
    """Raised inside a Hypothesis test / state machine when the oracle disagrees; carries a Failure.
    The machine should put its (JSON-able) operation list into failure.case so that the shrunk
    history can be replayed without Hypothesis."""

    def __init__(self, failure: Failure):
        super().__init__("%s: %s" % (failure.kind, _oneline(failure.detail)))
        self.failure = failure


def run_machine(machine_cls, seed, max_examples, step_count, shrink=True, shrink_seconds=60):
    """Run a RuleBasedStateMachine under a pinned seed.  Returns None when every generated history
    passed, else the exception of the (shrunk) failing history - normally a Mismatch."""
    import hypothesis
    from hypothesis.stateful import run_state_machine_as_test

    limit_shrink_seconds(shrink_seconds)
    cls = type(machine_cls.__name__ + "_s%d" % (seed % 1000003), (machine_cls,), {})
    try:
        run_state_machine_as_test(
            hypothesis.seed(seed)(cls),
            settings=hyp_settings(max_examples, shrink=shrink, stateful_steps=step_count))
    except Mismatch as e:
        return e
    except BaseException as e:  # noqa: BLE001
        if isinstance(e, (KeyboardInterrupt, SystemExit)):
            raise
        return e
    return None


def machine_failure(exc, what="state machine"):
    """Turn run_machine()'s return value into a Failure (or raise HarnessError for the unexpected)."""
    if exc is None:
        return None
    if isinstance(exc, Mismatch):
        return exc.failure
    raise HarnessError("%s raised an exception that is not an oracle mismatch (convert exceptions of the "
                       "code under test into Mismatch inside the rule): %s" % (
                           what, "".join(traceback.format_exception(type(exc), exc, exc.__traceback__))[-3000:]))

"""C12 - history records every command once, in order, and reads it back verbatim.

Generator : one Hypothesis RuleBasedStateMachine per backend (JSON, SQLite).  Rules: append(cmd) with a
            generated `inp` (pool commands with leading / trailing blanks, re-appends of the previous
            command, free text over all Unicode incl. astral, combining, control characters, quotes,
            multi-line; lone surrogates for JSON only), `rtn`, strictly increasing `ts`, `spc`, optional
            `out` / `cwd`; flush() in a background thread / flush(at_exit=True); release-one / wait-for-
            flushers; clear(); reopen (new object on the same file, with or without the exit flush);
            reads len(h), h[i], h[-i], h[a:b:c], items(), all_items(), h.<field>[i] and a decode of the
            on-disk store (LazyJSON(file).load() / SELECT).  Parameters per machine: buffersize 1..8,
            $HISTCONTROL subset, $XONSH_HISTORY_IGNORE_REGEX, $XONSH_STORE_STDOUT,
            $XONSH_HISTORY_SAVE_CWD, an older session of 0..2 commands in the same data dir / table.
Schedules : /repo carries no hooks.  Inside the worker process JsonHistoryFlusher.start / run / dump are
            wrapped with a harness-owned gate: a background flusher is either run to completion before
            the operation that started it returns, or *held* (drawn by Hypothesis) at one of two schedule
            points - the entry of run() (before it takes the condition lock) or the entry of dump() (at
            the front of the queue, lock held, nothing written) - until a release / wait rule fires or
            until the main thread is queued behind it (a file read or an at_exit flush appended to the
            FIFO queue; fallback: the main thread sits in one xonsh call for 0.25 s).  Reads are thereby forced to happen while a flush is in flight, and the schedule
            is a deterministic function of the operation list (failures replay exactly).
Oracle    : a reference list of appended commands with the sound tolerance for the exclusion rules:
            definitely_kept (excluded under no reading) is a subsequence of every observed view, which is
            a subsequence of appended-and-not-hard-excluded; order preserved, no duplicates of one append,
            nothing invented (records are identified by their unique start time); text equal exactly
            for h[i].cmd / h.inps[i] / the on-disk decode of JSON, after rstrip() for SQLite and for
            items() / all_items(); rtn and ts equal.  len / index / slice / items() must agree with
            each other at every point (also while a flush is held in dump()), IndexError outside the
            range; after flush + wait the on-disk decode equals the in-memory view.  Every operation
            runs under a SIGALRM bound and every flusher join under a timeout: a deadlock is a failure,
            not a hung check; a reader entry left in the flusher queue is detected structurally.
Sessions  : the end of the session is part of the history model (vlib/c12_exit.py).  One case = one whole
            session played in a CHILD interpreter that really exits: buffer size 1..8 / 100, number of commands
            k x buffersize, k x buffersize +- 1, 1 or free, $HISTCONTROL / ignore regex, JSON and SQLite, explicit
            `history flush` (the real alias) at generated points, six ways of ending (XSH.unload(), `exit`,
            plain end of program with only the atexit handler, sys.exit(), unhandled exception, SIGTERM), an
            optional generated delay in the background flusher so that it is still at work when the session
            ends.  Two modes: a driver that bootstraps XSH.load() + Shell(shell_type="none") and records through
            BaseShell._append_history, and the real `python -m xonsh --no-rc -i` reading the commands from a
            pipe (delay through the env-guarded schedule points of xonsh/_verif.py).  Afterwards the parent
            decodes the session's store: every recorded command no reading of the exclusion rules drops is
            there exactly once, in order, verbatim.
lazyjson  : pure round trip - any JSON-able object written with ljdump, every node addressed through the
            embedded offsets/sizes index (key, index, slice, iteration, load() at every level, data
            section located by `locs`) equals the original, with the type of every leaf.
"""

from __future__ import annotations

import json
import os
import re
import shutil
import signal
import sqlite3
import sys
import threading
import time

from vlib import common
from vlib.common import Failure, Mismatch, Stats

PROP = "C12"
LEVEL = "exploration"
HOOKS = False
RULE = ("one case = one history of append / flush / release / wait / clear / reopen / read operations on a "
        "JSON or SQLite history object with drawn buffersize, $HISTCONTROL, ignore regex, store-stdout and "
        "save-cwd settings (or one object written with ljdump and read back node by node); non-trivial = "
        "JSON: at least one read issued after >= 1 completed flush while the buffer is non-empty (the read "
        "spans the memory/disk split); SQLite: a by-index read checked against the table after >= 2 stored "
        "commands; lazyjson: an object with >= 2 container levels; session family: one whole session (buffer "
        "size, commands, `history flush` points, way of ending, flusher delay) played in a child interpreter that "
        "really exits, its store decoded afterwards by the parent - non-trivial = JSON session with >= 1 periodic "
        "(buffer-full) flush / SQLite session with >= 2 stored commands; distinct = hash of (backend, parameters, "
        "operation list) / of the object / of the session")

F1, F2, F3, F4, F5, F6 = "C12-F1", "C12-F2", "C12-F3", "C12-F4", "C12-F5", "C12-F6"
F7 = "C12-F7"      # predicate and exclusion live in vlib/c12_exit.py (session family)

OP_TIMEOUT = 10.0       # seconds a single operation may take (typical cost: 1 ms)
JOIN_TIMEOUT = 10.0     # seconds a released flusher thread may take to finish
STALL = 0.25           # a held flusher is let go when the main thread sits in one xonsh call this long
GATE_MAX = 30.0         # a held flusher proceeds on its own after this long (then: harness error)
BASE_TS = 1_700_000_000.0

POOL = ["ls", "ls -la", "echo hi", "cd /tmp", "git status", "echo 'a b'", 'echo "q"', "x = 1",
        "secret --token", "# note", "sudo make nohist", "caf\u00e9", "\u65e5\u672c\u8a9e", "\U0001F600 -v",
        "for i in range(3):\n    print(i)\n", "if x:\n  y\n\n"]
SPECIALS = ["\n", "\t", " ", "  ", "\r", "\r\n", "\x00", "\x1b[0m", "\x7f", "\x85", "\xa0", "\u2028", "\u2029",
            "\u200b", "\u0301", "e\u0301\u0323", "\U0001F600", "\U0001F468\u200d\U0001F469", "\U00010000",
            "\U0010FFFF", "'", '"', "\\", "\\n", "'''", '"""', "$(", "`", "#", "\ufeff", "\u202e", "\x1c",
            "\x0b", "\x0c", "\u3000", "{", "}", "[", "]", ",", ": ", "\\u00e9", "\\\\"]
# low surrogates only (what surrogateescape yields): two pieces can never form an accidental pair
SURROGATES = ["\udc80", "\udcff", "\udfff"]
HISTCONTROLS = [[], [], [], ["ignoredups"], ["ignoredups"], ["ignoreerr"], ["ignorespace"],
                ["ignoredups", "ignoreerr"], ["ignoredups", "ignorespace"], ["ignoreerr", "ignorespace"],
                ["ignoredups", "ignoreerr", "ignorespace"]]
REGEXES = [None, None, None, "^secret", r"\s*#", "(?s).*nohist", "ls$", "["]
FIELDS = ["inps", "rtns", "tss", "outs", "cwds"]


class _Timeout(BaseException):
    pass


def _alarm(signum, frame):
    raise _Timeout()


# ----------------------------------------------------------------------------------------
# harness-side schedule control (no hooks in /repo)

_cur = {"driver": None}
_state = {}


def _install_patches():
    """Wrap JsonHistoryFlusher.start / .dump once per process.  start(): the thread becomes a daemon
    (a wedged flusher must not keep the worker alive) and is registered with the current driver;
    dump(): waits at the harness gate first."""
    from xonsh.history import json as xhj

    cls = xhj.JsonHistoryFlusher
    if getattr(cls, "_c12_patched", False):
        return
    orig_dump = cls.dump
    orig_run = cls.run
    orig_start = threading.Thread.start

    def start(self):
        self.daemon = True
        d = _cur["driver"]
        self._c12_driver = d
        self._c12_gate = threading.Event()
        self._c12_auto = False
        self._c12_done = False
        self._c12_point = "dump"
        if d is None or not d.next_hold:
            self._c12_gate.set()
        else:
            self._c12_point = "run" if d.next_hold == "run" else "dump"
        if d is not None:
            d.started.append(self)
        orig_start(self)

    def run(self):
        # schedule point 1: before the flusher takes the condition lock
        d = getattr(self, "_c12_driver", None)
        if d is not None and self._c12_point == "run":
            d.gate_wait(self)
        try:
            return orig_run(self)
        finally:
            self._c12_done = True

    def dump(self):
        # schedule point 2: at the front of the queue, lock held, nothing written yet
        d = getattr(self, "_c12_driver", None)
        if d is not None and self._c12_point == "dump":
            d.gate_wait(self)
        return orig_dump(self)

    cls.start = start
    cls.run = run
    cls.dump = dump
    cls._c12_patched = True

    def hook(args):
        d = getattr(args.thread, "_c12_driver", None)
        if d is not None and not d.closed:
            d.thread_excs.append("%s: %s" % (getattr(args.exc_type, "__name__", args.exc_type), args.exc_value))

    threading.excepthook = hook


def _setup(scratch):
    if _state:
        return _state
    from vlib import session

    XSH = session.load_session(scratch)
    _install_patches()
    # durability is C13's subject: without the fsync of every commit an append costs 0.4 ms instead of 20 ms
    import xonsh.history.sqlite as xhs

    class _NoSync:
        def __getattr__(self, k):
            return getattr(sqlite3, k)

        def connect(self, *a, **kw):
            c = sqlite3.connect(*a, **kw)
            c.execute("PRAGMA synchronous=OFF")
            return c

    xhs.sqlite3 = _NoSync()
    signal.signal(signal.SIGALRM, _alarm)
    # flusher threads and print_warning write to fd 2; keep the check's output clean
    try:
        os.dup2(os.open(os.devnull, os.O_WRONLY), 2)
    except OSError:
        pass
    _state["XSH"] = XSH
    _state["scratch"] = scratch
    _state["n"] = 0
    return _state


# ----------------------------------------------------------------------------------------
# the driver: executes one operation list against xonsh and the reference model


class Rec:
    __slots__ = ("id", "inp", "rtn", "ts", "out", "cwd", "spc", "allowed_mem", "allowed_disk", "must", "sid")

    def __init__(self, **kw):
        for k, v in kw.items():
            setattr(self, k, v)


def _would_skip(cmds, hc):
    """Number of commands JsonHistoryFlusher.dump drops from one buffer (used only to *recognise* the
    shape of finding F1, never as an oracle)."""
    last = None
    n = 0
    for c in cmds:
        if "ignoredups" in hc and c["inp"] == last:
            n += 1
            continue
        if "ignoreerr" in hc and c["rtn"] != 0:
            n += 1
            continue
        last = c["inp"]
    return n


class Driver:
    def __init__(self, backend, params, exclude=(), tolerate=(), timeout=OP_TIMEOUT):
        st = _state
        self.backend = backend
        self.params = dict(params)
        self.exclude = set(exclude)
        self.tolerate = set(tolerate)
        self.timeout = timeout
        self.ops = []
        self.labels = set()
        self.excluded = []
        self.tolerated = []
        self.nontrivial = False
        st["n"] += 1
        self.root = os.path.join(st["scratch"], "m%d" % st["n"])
        shutil.rmtree(self.root, ignore_errors=True)
        os.makedirs(self.root)
        self.env = st["XSH"].env
        self.hc = set(params.get("histcontrol") or ())
        self.env["HISTCONTROL"] = set(self.hc)
        self.env["XONSH_HISTORY_IGNORE_REGEX"] = params.get("regex")
        self.env["XONSH_STORE_STDOUT"] = bool(params.get("store_stdout"))
        self.env["XONSH_HISTORY_SAVE_CWD"] = bool(params.get("save_cwd", True))
        self.env["XONSH_DATA_DIR"] = self.root
        self.env["XONSH_HISTORY_FILE"] = None
        self.rx = None
        if params.get("regex"):
            try:
                self.rx = re.compile(params["regex"])
            except re.error:
                self.rx = None
        self.buffersize = int(params.get("buffersize", 3))
        # schedule state
        self.next_hold = False
        self.started = []        # flusher threads started during the current operation
        self.inflight = []       # [{"thread", "ids", "held", "skips"}] not yet known to have dumped
        self.thread_excs = []
        self.gate_expired = False
        self.auto_released = 0
        self.stall_released = 0
        self.call_t0 = None
        # model
        self.tick = 0
        self.nid = 0
        self.recs = {}           # ts0 -> Rec
        self.sess = []           # records appended to the current object since the last clear
        self.since_kept = []
        self.flushed = set()     # ids whose dump has completed (JSON)
        self.prefix = []         # JSON: ids on the file before the current object was opened
        self.others = []         # records of older sessions (all_items / SQLite table)
        self.reopened_nonempty = False
        self.cleared_inflight = set()
        self.completed_flushes = 0
        self.nsess = 0
        self.h = None
        self.sid = None
        self.op_inflight_skips = False
        self.closed = False
        _cur["driver"] = self
        try:
            self._guarded(self._open_initial)
        except BaseException:
            self.close()
            raise

    # -- plumbing ------------------------------------------------------------------------
    def case(self):
        c = {"backend": self.backend, "params": self.params, "ops": list(self.ops)}
        if self.tolerate:
            c["tolerate"] = sorted(self.tolerate)
        return c

    def fail(self, kind, detail, flags=()):
        op = self.ops[-1] if self.ops else {"op": "open"}
        finding = self.classify(kind, op, set(flags))
        if finding is not None and finding in self.tolerate:
            self.tolerated.append(finding)
            raise _Tolerated()
        bucket = finding or "%s:%s:%s" % (self.backend, kind, op.get("op"))
        raise Mismatch(Failure(kind, self.case(), "%s backend, step %d %s: %s" % (
            self.backend, len(self.ops), _show(op), detail), finding=finding, bucket=bucket))

    def classify(self, kind, op, flags):
        """Narrow predicates of the recorded findings, evaluated on the failing operation."""
        if self.backend != "json":
            return None
        if kind == "reader-left-in-queue":
            return F2
        if "neg-oob" in flags:
            return F4
        if self.op_inflight_skips and self.hc & {"ignoredups", "ignoreerr"} and op.get("op") in READ_OPS:
            return F1
        if self.cleared_inflight and op.get("op") in READ_OPS | {"reopen", "release", "wait"}:
            try:
                on_disk = {c["ts"][0] for c in self._disk_json()}
            except Exception:  # noqa: BLE001
                on_disk = set()
            if any(self.recs[t].id in self.cleared_inflight for t in on_disk if t in self.recs):
                return F3
        if self.reopened_nonempty and op.get("op") in MEM_READ_OPS:
            return F5
        return None

    def _guarded(self, fn, *a):
        """Run fn under the operation time bound; a timeout becomes a 'hang' failure."""
        signal.setitimer(signal.ITIMER_REAL, self.timeout)
        try:
            try:
                return fn(*a)
            finally:
                signal.setitimer(signal.ITIMER_REAL, 0)
        except _Timeout:
            pass
        self.fail("hang", "the operation did not return within %.0f s (typical cost 1 ms); queue=%s" % (
            self.timeout, self._queue_desc()))

    def _queue_desc(self):
        q = getattr(self.h, "_queue", None)
        if q is None:
            return "n/a"
        return "[%s]" % ", ".join(type(x).__name__ + (":" + x.field if hasattr(x, "field") else "") for x in list(q))

    def _call(self, fn, *a, **kw):
        self.call_t0 = time.monotonic()
        try:
            return True, fn(*a, **kw)
        except Exception as e:  # noqa: BLE001
            return False, e
        finally:
            self.call_t0 = None

    def gate_wait(self, fl):
        """Called in the flusher thread at the entry of dump() (the condition lock is held)."""
        from xonsh.history.json import JsonCommandField

        ev = fl._c12_gate
        t0 = time.monotonic()
        while not ev.is_set():
            try:
                last = fl.queue[-1]
            except IndexError:
                last = None
            if last is not None and last is not fl and (
                    isinstance(last, JsonCommandField) or getattr(last, "at_exit", False)):
                # the main thread is queued behind this flusher: it can only be released by running
                fl._c12_auto = True
                self.auto_released += 1
                return
            now = time.monotonic()
            t = self.call_t0
            if t is not None and now - t > STALL:
                # fallback: the main thread has been inside one xonsh call for STALL seconds (typical
                # cost 1 ms), i.e. it waits for this flusher in some way the queue does not show
                fl._c12_auto = True
                self.stall_released += 1
                return
            if now - t0 > GATE_MAX:
                self.gate_expired = True
                return
            time.sleep(0.0003)

    # -- opening -------------------------------------------------------------------------
    def _mkcmd(self, inp, rtn, dt, dur, spc, out, cwd):
        self.tick += max(1, int(dt))
        t0 = BASE_TS + self.tick / 1e6
        self.nid += 1
        r = Rec(id=self.nid, inp=inp, rtn=rtn, ts=[t0, t0 + dur], out=out, cwd=cwd, spc=bool(spc),
                allowed_mem=True, allowed_disk=True, must=True, sid=None)
        if t0 in self.recs:
            raise common.HarnessError("timestamps not strictly increasing")
        self.recs[t0] = r
        cmd = {"inp": inp, "rtn": rtn, "ts": list(r.ts), "spc": bool(spc)}
        if out is not None:
            cmd["out"] = out
        if cwd is not None:
            cmd["cwd"] = cwd
        return r, cmd

    def _new_object(self, filename=None):
        try:
            return self._new_object2(filename)
        except (Mismatch, common.HarnessError):
            raise
        except Exception as e:  # noqa: BLE001
            self.fail("exception", "opening the %s history (file %s) raised %s: %s" % (
                self.backend, "exists" if filename else "new", type(e).__name__, e))

    def _new_object2(self, filename=None):
        self.nsess += 1
        sid = "c12s%d" % self.nsess
        if self.backend == "json":
            from xonsh.history.json import JsonHistory

            h = JsonHistory(filename=filename, sessionid=sid, buffersize=self.buffersize, gc=False,
                            ts=[BASE_TS, None], locked=True)
        else:
            from xonsh.history.sqlite import SqliteHistory

            h = SqliteHistory(filename=os.path.join(self.root, "hist.sqlite"), sessionid=sid, gc=False)
        self.sid = sid
        return h

    def _open_initial(self):
        n = int(self.params.get("prior") or 0)
        if n:
            # an older session of the same user: benign commands no exclusion rule touches
            h0 = self._new_object()
            for k in range(n):
                r, cmd = self._mkcmd("prior-cmd %d \u00fc" % k, 0, 1000, 0.5, False, None, None)
                r.sid = self.sid
                ok, v = self._call(h0.append, cmd)
                if not ok:
                    self.fail("exception", "append(%r) raised %s: %s" % (cmd["inp"], type(v).__name__, v))
                self.others.append(r)
            ok, v = self._call(h0.flush, at_exit=True)
            if not ok:
                self.fail("exception", "flush(at_exit=True) raised %s: %s" % (type(v).__name__, v))
            for fl in self.started:
                fl.join(JOIN_TIMEOUT)
            self.started = []
        self.h = self._new_object()

    # -- model helpers -------------------------------------------------------------------
    def _classify_rec(self, r):
        hard = soft = False
        if self.rx is not None:
            if self.rx.match(r.inp):
                hard = True
            elif self.rx.search(r.inp):
                soft = True
        if "ignorespace" in self.hc:
            if r.spc:
                hard = True
            elif r.inp[:1].isspace():
                soft = True
        err = "ignoreerr" in self.hc and r.rtn != 0
        key = r.inp.rstrip()
        dup = "ignoredups" in self.hc and key in self.since_kept
        r.allowed_mem = not hard
        r.allowed_disk = not hard and not err
        r.must = not (hard or soft or err or dup)
        if r.must:
            self.since_kept = [key]
        else:
            self.since_kept.append(key)
        if not r.must and r.allowed_mem:
            self.labels.add("soft-exclusion")
        if hard:
            self.labels.add("hard-exclusion")

    def _exact(self):
        return all(r.must == r.allowed_mem for r in self.sess)

    def _rec_of(self, ts, what):
        try:
            t0 = ts[0] if isinstance(ts, (list, tuple)) else ts
            r = self.recs.get(t0)
        except Exception:  # noqa: BLE001
            r = None
        if r is None:
            self.fail("invented", "%s yields an entry with start time %r that was never appended" % (what, ts))
        return r

    def _check_bounds(self, ids, what, disk=False):
        """definitely_kept is-subsequence-of ids is-subsequence-of allowed (current session)."""
        for a, b in zip(ids, ids[1:]):
            if b == a:
                self.fail("duplicate", "%s yields the command appended as #%d twice" % (what, a))
            if b < a:
                self.fail("order", "%s yields #%d before #%d (append order is the other way round)" % (what, a, b))
        if disk:
            allowed = {r.id for r in self.sess if r.allowed_disk and r.id in self.flushed}
            must = [r.id for r in self.sess if r.must and r.id in self.flushed]
        else:
            allowed = {r.id for r in self.sess if r.allowed_mem}
            must = [r.id for r in self.sess if r.must]
        have = set(ids)
        for i in ids:
            if i not in allowed:
                r = next((x for x in self.recs.values() if x.id == i), None)
                why = "is not part of the current session" if r not in self.sess else (
                    "is excluded by $HISTCONTROL / the ignore regex under every reading" if not disk
                    else "is excluded (or not yet flushed)")
                self.fail("not-allowed", "%s yields command #%d (%r) which %s" % (what, i, r.inp if r else None, why))
        for i in must:
            if i not in have:
                r = next(x for x in self.sess if x.id == i)
                self.fail("lost", "%s does not contain command #%d (%r, rtn %r) which no exclusion rule covers; "
                          "it yields #%r" % (what, i, r.inp, r.rtn, ids))

    def _text(self, r, stripped=False):
        return r.inp.rstrip() if (stripped or self.backend == "sqlite") else r.inp

    def _check_entry(self, e, r, what):
        """e: HistoryEntry; r: Rec"""
        if e.cmd != self._text(r):
            self.fail("text", "%s.cmd is %r, appended %r" % (what, e.cmd, r.inp))
        if e.rtn != r.rtn:
            self.fail("rtn", "%s.rtn is %r, appended %r" % (what, e.rtn, r.rtn))
        if e.ts is None or list(e.ts) != r.ts:
            self.fail("ts", "%s.ts is %r, appended %r" % (what, e.ts, r.ts))
        if e.out is not None and e.out != r.out:
            self.fail("out", "%s.out is %r, appended %r" % (what, e.out, r.out))
        if e.cwd is not None and e.cwd != r.cwd:
            self.fail("cwd", "%s.cwd is %r, appended %r" % (what, e.cwd, r.cwd))

    # -- views ---------------------------------------------------------------------------
    def _view_ids(self):
        """Reference view through xonsh itself: iterate h.tss (buffer + file reads through the index)."""
        ok, v = self._call(lambda: list(self.h.tss))
        if not ok:
            self.fail("exception", "iterating h.tss raised %s: %s" % (type(v).__name__, v))
        ids = [self._rec_of(t, "h.tss").id for t in v]
        self._check_bounds(ids, "iteration over h.tss")
        return ids

    def _expected(self, need_view=False):
        """-> list of Rec the session view must consist of right now.  Exact from the model when no
        soft exclusion is pending, else xonsh's own view (validated against the bounds)."""
        by_id = {r.id: r for r in self.sess}
        if self._exact():
            E = [r for r in self.sess if r.allowed_mem]
            if need_view:
                ids = self._view_ids()
                if ids != [r.id for r in E]:
                    self.fail("view", "iteration over h.tss yields commands #%r, appended and kept: #%r" % (
                        ids, [r.id for r in E]))
            return E
        ids = self._view_ids()
        return [by_id[i] for i in ids]

    def _disk_json(self):
        import xonsh.lib.lazyjson as xlj

        with open(self.h.filename, newline="\n", encoding="utf-8") as f:
            return xlj.LazyJSON(f).load()["cmds"]

    def _disk_sqlite(self):
        conn = sqlite3.connect(self.h.filename)
        try:
            try:
                return conn.execute("SELECT inp, rtn, tsb, tse, sessionid, out, cwd FROM xonsh_history "
                                    "ORDER BY rowid").fetchall()
            except sqlite3.OperationalError as e:
                if "no such table" in str(e):
                    return []
                raise
        finally:
            conn.close()

    def _quiescent(self):
        return not self.inflight

    def _check_disk(self, E=None):
        """Decode the store and compare with the model; returns the list of ids found."""
        if self.backend == "json":
            ok, cmds = self._call(self._disk_json)
            if not ok:
                self.fail("disk-unreadable", "LazyJSON(file).load() raised %s: %s" % (type(cmds).__name__, cmds))
            ids = []
            for c in cmds:
                r = self._rec_of(c.get("ts"), "the history file")
                ids.append(r.id)
                if c.get("inp") != r.inp:
                    self.fail("text", "the history file holds %r for command #%d, appended %r" % (
                        c.get("inp"), r.id, r.inp))
                if c.get("rtn") != r.rtn or c.get("ts") != r.ts:
                    self.fail("rtn", "the history file holds rtn=%r ts=%r for command #%d, appended rtn=%r ts=%r" % (
                        c.get("rtn"), c.get("ts"), r.id, r.rtn, r.ts))
                if c.get("out") is not None and c.get("out") != r.out:
                    self.fail("out", "the history file holds out=%r for #%d, appended %r" % (c.get("out"), r.id, r.out))
                if c.get("cwd") is not None and c.get("cwd") != r.cwd:
                    self.fail("cwd", "the history file holds cwd=%r for #%d, appended %r" % (c.get("cwd"), r.id, r.cwd))
            if ids[:len(self.prefix)] != self.prefix:
                self.fail("disk-prefix", "commands that were on the file when it was reopened (#%r) are no longer "
                          "its leading part: #%r" % (self.prefix, ids))
            mine = ids[len(self.prefix):]
            self._check_bounds(mine, "the history file", disk=True)
            if E is not None and self._quiescent() and not self.h.buffer:
                if mine != [r.id for r in E]:
                    self.fail("disk-vs-memory", "after flush + wait the file holds commands #%r, the in-memory "
                              "view is #%r" % (mine, [r.id for r in E]))
            return ids
        ok, rows = self._call(self._disk_sqlite)
        if not ok:
            self.fail("disk-unreadable", "SELECT raised %s: %s" % (type(rows).__name__, rows))
        ids = []
        for inp, rtn, tsb, tse, sid, out, cwd in rows:
            r = self._rec_of(tsb, "the table")
            ids.append(r.id)
            if inp != r.inp.rstrip() or rtn != r.rtn or [tsb, tse] != r.ts:
                self.fail("text", "the table holds inp=%r rtn=%r ts=%r for command #%d, appended %r / %r / %r" % (
                    inp, rtn, [tsb, tse], r.id, r.inp, r.rtn, r.ts))
            if sid != r.sid:
                self.fail("session", "the table files command #%d under session %r, appended by %r" % (r.id, sid, r.sid))
            if (out is not None and out != r.out) or (cwd is not None and cwd != r.cwd):
                self.fail("out", "the table holds out=%r cwd=%r for #%d, appended %r / %r" % (out, cwd, r.id, r.out, r.cwd))
        want_old = [r.id for r in self.others]
        if ids[:len(want_old)] != want_old:
            self.fail("disk-prefix", "rows of older sessions (#%r) are not the leading rows: #%r" % (want_old, ids))
        mine = ids[len(want_old):]
        self.flushed = {r.id for r in self.sess}
        self._check_bounds(mine, "the table", disk=True)
        if E is not None and mine != [r.id for r in E]:
            self.fail("disk-vs-memory", "the table holds commands #%r for this session, the in-memory view is #%r" % (
                mine, [r.id for r in E]))
        return ids

    # -- schedule ------------------------------------------------------------------------
    def _held_skips(self):
        return sum(e["skips"] for e in self.inflight if not e["thread"]._c12_done)

    def _adopt_started(self, held):
        """Register flusher threads the last xonsh call started."""
        for fl in self.started:
            ids = []
            for c in fl.buffer:
                r = self.recs.get(c["ts"][0])
                if r is not None:
                    ids.append(r.id)
            self.inflight.append({"thread": fl, "ids": ids, "held": held,
                                  "skips": _would_skip(fl.buffer, self.hc)})
            if held:
                self.labels.add("held-flush")
                self.labels.add("held-at-" + ("run" if held == "run" else "dump"))
        self.started = []

    def _finish(self, e):
        fl = e["thread"]
        fl.join(JOIN_TIMEOUT)
        if fl.is_alive():
            self.fail("hang", "a released background flusher did not finish within %.0f s; queue=%s" % (
                JOIN_TIMEOUT, self._queue_desc()))
        self.flushed.update(e["ids"])
        self.completed_flushes += 1

    def _settle(self):
        """Join, in queue order, every flusher that is free to run (run-to-completion, released,
        auto-released); stop at the first one that is still held - nothing behind it can run."""
        while self.inflight:
            e = self.inflight[0]
            fl = e["thread"]
            if fl._c12_gate.is_set() or fl._c12_auto or fl._c12_done or not fl.is_alive():
                self._finish(e)
                self.inflight.pop(0)
            else:
                break

    def _release(self, everything):
        for e in self.inflight:
            if not e["thread"]._c12_gate.is_set():
                e["thread"]._c12_gate.set()
                if not everything:
                    break
        self._settle()

    # -- operations ----------------------------------------------------------------------
    def do(self, op):
        self.ops.append(op)
        self.op_inflight_skips = self._held_skips() > 0
        if op["op"] in READ_OPS and any(not e["thread"]._c12_done for e in self.inflight):
            self.labels.add("read-while-flush-in-flight")
        try:
            self._guarded(self._do, op)
            self._guarded(self._post)
        except _Tolerated:
            try:
                self._guarded(self._settle)
                self._guarded(self._post)
            except _Tolerated:
                pass

    def _post(self):
        self._settle()
        if self.thread_excs:
            self.fail("flusher-exception", "a background flusher thread died: %s" % self.thread_excs[0])
        if self.gate_expired:
            raise common.HarnessError("a held flusher was never released (harness schedule bug)")
        if self.backend == "json":
            from xonsh.history.json import JsonCommandField, JsonHistoryFlusher

            h = self.h
            stale = [x for x in list(h._queue) if isinstance(x, JsonCommandField)]
            if stale:
                # no read is executing (we are outside xonsh): nothing can ever pop this entry.  Show the
                # consequence with xonsh's own flusher on an empty buffer.
                self.next_hold = False
                probe = JsonHistoryFlusher(h.filename, (), h._queue, h._cond)
                self.started = []
                probe.join(2.0)
                if probe.is_alive() and any(x is stale[0] for x in list(h._queue)):
                    self.fail("reader-left-in-queue",
                              "a %s reader entry stays in the flusher/reader queue after its read raised; "
                              "a flusher started afterwards never runs (queue=%s): every later flush and every "
                              "read through another field blocks forever" % (stale[0].field, self._queue_desc()))

    def _skip(self, fid):
        self.excluded.append(fid)

    def _do(self, op):
        name = op["op"]
        h = self.h
        if name == "append":
            return self._op_append(op)
        if name == "flush":
            if self.backend == "sqlite":
                self._call(h.flush)
                return
            hold = (op.get("hold") or False) if not op.get("at_exit") else False
            if F1 in self.exclude and not op.get("at_exit") and _would_skip(h.buffer, self.hc):
                hold = self._avoid_f1(hold)
            self.next_hold = hold
            buf_ids = [self.recs[c["ts"][0]].id for c in h.buffer if c["ts"][0] in self.recs]
            ok, hf = self._call(h.flush, at_exit=True) if op.get("at_exit") else self._call(h.flush)
            self.next_hold = False
            if not ok:
                self.fail("exception", "flush(%s) raised %s: %s" % (
                    "at_exit=True" if op.get("at_exit") else "", type(hf).__name__, hf))
            if op.get("at_exit"):
                self._settle()
                if hf is not None:
                    self.flushed.update(buf_ids)
                    self.completed_flushes += 1
                    self.labels.add("at-exit-flush")
            else:
                self._adopt_started(hold)
            return
        if name == "release":
            if self.inflight:
                self.labels.add("explicit-release")
            self._release(bool(op.get("all")))
            return
        if name == "wait":
            self._release(True)
            return
        if name == "clear":
            return self._op_clear(op)
        if name == "reopen":
            return self._op_reopen(op)
        # reads
        if self.backend == "json" and self.reopened_nonempty and F5 in self.exclude and name in MEM_READ_OPS:
            self._skip(F5)
            return
        if self.backend == "json" and len(self.flushed & {r.id for r in self.sess}) > 0 and h.buffer:
            self.nontrivial = True
            self.labels.add("read-across-split")
        getattr(self, "_rd_" + name)(op)

    def _op_append(self, op):
        h = self.h
        r, cmd = self._mkcmd(op["inp"], op["rtn"], op.get("dt", 1000), op.get("dur", 0.5), op.get("spc"),
                             op.get("out"), op.get("cwd"))
        r.sid = self.sid
        if any(ord(ch) > 127 for ch in r.inp):
            self.labels.add("non-ascii")
        if any(ord(ch) > 0xFFFF for ch in r.inp):
            self.labels.add("astral")
        if "\n" in r.inp.rstrip():
            self.labels.add("multi-line")
        if r.inp != r.inp.strip():
            self.labels.add("outer-blanks")
        self._classify_rec(r)
        self.sess.append(r)
        hold = (op.get("hold") or False) if self.backend == "json" else False
        if self.backend == "json" and F1 in self.exclude and len(h.buffer) + 1 >= h.buffersize and \
                _would_skip(list(h.buffer) + [cmd], self.hc):
            hold = self._avoid_f1(hold)
        self.next_hold = hold
        ok, hf = self._call(h.append, cmd)
        self.next_hold = False
        if not ok:
            self.fail("exception", "append(%r) raised %s: %s" % (r.inp, type(hf).__name__, hf))
        if self.backend == "json":
            self._adopt_started(hold)

    def _avoid_f1(self, hold):
        """Known finding F1: a flusher that will drop a command must not be in flight (held itself or
        queued behind a held one) while reads happen - let it run to completion instead."""
        if hold or self.inflight:
            self._skip(F1)
        if self.inflight:
            self._release(True)
        return False

    def _op_clear(self, op):
        h = self.h
        if self.backend == "json":
            pending = [e for e in self.inflight if not e["thread"]._c12_done]
            if pending and F3 in self.exclude:
                self._skip(F3)
                self._release(True)
                pending = []
            for e in pending:
                self.cleared_inflight.update(e["ids"])
        ok, v = self._call(h.clear)
        if not ok:
            self.fail("exception", "clear() raised %s: %s" % (type(v).__name__, v))
        self.labels.add("clear")
        self.sess = []
        self.prefix = []
        self.reopened_nonempty = False
        if self.backend == "json":
            self._settle()
            E = []
            if self._quiescent():
                self._check_disk(E)
        else:
            self._check_disk([])

    def _op_reopen(self, op):
        h = self.h
        self._release(True)
        if op.get("flush"):
            ok, v = self._call(h.flush, at_exit=True) if self.backend == "json" else (True, None)
            if not ok:
                self.fail("exception", "flush(at_exit=True) raised %s: %s" % (type(v).__name__, v))
            if self.backend == "json" and v is not None:
                self.flushed.update(r.id for r in self.sess)
                self.completed_flushes += 1
        ids = self._check_disk()
        self.labels.add("reopen")
        if self.backend == "json":
            self.prefix = ids
            self.reopened_nonempty = bool(ids)
            if ids:
                self.labels.add("reopen-nonempty")
            self.h = self._new_object(filename=h.filename)
        else:
            by_id = {r.id: r for r in self.recs.values()}
            self.others = [by_id[i] for i in ids]
            self.h = self._new_object()
        self.sess = []
        self.flushed = set()

    # reads ------------------------------------------------------------------------------
    def _len(self):
        ok, n = self._call(len, self.h)
        if not ok:
            self.fail("exception", "len(h) raised %s: %s" % (type(n).__name__, n))
        return n

    def _resolve(self, op, n):
        if self.backend == "json":
            split = n - len(self.h.buffer)
        else:
            split = n // 2
        base = {"start": 0, "split": split, "end": n, "abs": 0}[op.get("anchor", "abs")]
        i = base + int(op.get("k", 0))
        if op.get("neg"):
            i -= n
        return i

    def _rd_len(self, op):
        n = self._len()
        E = self._expected(need_view=bool(op.get("ref")))
        if n != len(E):
            self.fail("len", "len(h) is %d, the session view has %d commands (#%r)" % (n, len(E), [r.id for r in E]))

    def _index_common(self, op, getter, what_fmt, check):
        n = self._len()
        i = self._resolve(op, n)
        if self.backend == "json" and i < -n and F4 in self.exclude:
            self._skip(F4)
            return
        flags = ["neg-oob"] if i < -n else []
        ok, v = self._call(getter, i)
        what = what_fmt % i
        if not ok and not isinstance(v, IndexError):
            self.fail("exception", "%s raised %s: %s (len(h) was %d)" % (what, type(v).__name__, v, n), flags)
        E = self._expected(need_view=bool(op.get("ref")))
        m = len(E)
        if n != m:
            self.fail("len", "len(h) was %d just before %s, the session view has %d commands" % (n, what, m), flags)
        if -m <= i < m:
            if not ok:
                self.fail("exception", "%s raised %s: %s with %d commands in the session" % (
                    what, type(v).__name__, v, m), flags)
            check(v, E[i], what)
            if self.backend == "sqlite" and m >= 2:
                self.nontrivial = True
        else:
            if ok:
                self.fail("no-indexerror", "%s returned %r although the session has %d commands" % (
                    what, _short(v), m), flags)
            if not isinstance(v, IndexError):
                self.fail("exception", "%s raised %s: %s (IndexError expected: %d commands)" % (
                    what, type(v).__name__, v, m), flags)

    def _rd_index(self, op):
        self._index_common(op, lambda i: self.h[i], "h[%d]", self._check_entry)

    def _rd_field(self, op):
        field = op.get("field", "inps")
        seq = getattr(self.h, field)

        def check(v, r, what):
            if field == "inps":
                good = v == self._text(r)
            elif field == "rtns":
                good = v == r.rtn
            elif field == "tss":
                good = v is not None and list(v) == r.ts
            elif field == "outs":
                good = v is None or v == r.out
            else:
                good = v is None or v == r.cwd
            if not good:
                self.fail("field", "%s is %r; command #%d was appended with inp=%r rtn=%r ts=%r out=%r cwd=%r" % (
                    what, v, r.id, r.inp, r.rtn, r.ts, r.out, r.cwd))

        self._index_common(op, lambda i: seq[i], "h." + field + "[%d]", check)

    def _rd_slice(self, op):
        sl = slice(op.get("a"), op.get("b"), op.get("c"))
        ok, v = self._call(lambda: self.h[sl])
        what = "h[%s:%s:%s]" % tuple("" if x is None else x for x in (sl.start, sl.stop, sl.step))
        if not ok:
            self.fail("exception", "%s raised %s: %s" % (what, type(v).__name__, v))
        E = self._expected(need_view=bool(op.get("ref")))
        want = E[sl]
        if len(v) != len(want):
            self.fail("slice", "%s has %d entries, expected %d (#%r) of a session with %d commands" % (
                what, len(v), len(want), [r.id for r in want], len(E)))
        for j, (e, r) in enumerate(zip(v, want)):
            self._check_entry(e, r, "%s[%d]" % (what, j))
        if self.backend == "sqlite" and len(want) >= 2:
            self.nontrivial = True

    def _items_common(self, what, items, want):
        if len(items) != len(want):
            self.fail("items", "%s yields %d items (%r), the session view has %d commands (#%r)" % (
                what, len(items), [_short(x.get("inp")) for x in items][:12], len(want), [r.id for r in want]))
        for j, (it, r) in enumerate(zip(items, want)):
            if it.get("inp") != r.inp.rstrip() or it.get("ts") != r.ts[0]:
                self.fail("items", "%s item %d is inp=%r ts=%r; command #%d there was appended as %r at %r" % (
                    what, j, it.get("inp"), it.get("ts"), r.id, r.inp, r.ts[0]))
            if "rtn" in it and it["rtn"] != r.rtn:
                self.fail("rtn", "%s item %d has rtn %r, appended %r" % (what, j, it["rtn"], r.rtn))
            if it.get("cwd") is not None and it["cwd"] != r.cwd:
                self.fail("cwd", "%s item %d has cwd %r, appended %r" % (what, j, it["cwd"], r.cwd))

    def _rd_items(self, op):
        nf = bool(op.get("newest_first"))
        n = self._len()
        ok, v = self._call(lambda: list(self.h.items(newest_first=nf)))
        what = "items(newest_first=%s)" % nf
        if not ok:
            self.fail("exception", "%s raised %s: %s" % (what, type(v).__name__, v))
        E = self._expected(need_view=bool(op.get("ref")))
        if n != len(E):
            self.fail("len", "len(h) was %d just before %s, the session view has %d commands" % (n, what, len(E)))
        self._items_common(what, v, list(reversed(E)) if nf else E)

    def _rd_all_items(self, op):
        nf = bool(op.get("newest_first")) and self.backend == "sqlite"
        ok, v = self._call(lambda: list(self.h.all_items(newest_first=nf)))
        what = "all_items(newest_first=%s)" % nf
        if not ok:
            self.fail("exception", "%s raised %s: %s" % (what, type(v).__name__, v))
        E = self._expected(need_view=bool(op.get("ref")))
        want = self.others + E      # JSON: the file of the current session is listed last, through items()
        self._items_common(what, v, list(reversed(want)) if nf else want)

    def _rd_disk(self, op):
        if self.backend == "json":
            E = None
            if self._quiescent() and not self.h.buffer and not (self.reopened_nonempty and F5 in self.exclude):
                E = self._expected()
            self._check_disk(E)
            if E is not None:
                self.labels.add("disk-equals-memory-checked")
        else:
            self._check_disk(self._expected())

    def _rd_snapshot(self, op):
        h = self.h
        n = self._len()
        ok, items = self._call(lambda: list(h.items()))
        if not ok:
            self.fail("exception", "items() raised %s: %s" % (type(items).__name__, items))
        E = self._expected(need_view=True)
        m = len(E)
        if n != m:
            self.fail("len", "len(h) is %d, the session view has %d commands (#%r)" % (n, m, [r.id for r in E]))
        self._items_common("items()", items, E)
        for i in range(m):
            for j in (i, i - m):
                ok, e = self._call(lambda: h[j])
                if not ok:
                    self.fail("exception", "h[%d] raised %s: %s with %d commands in the session" % (
                        j, type(e).__name__, e, m))
                self._check_entry(e, E[j], "h[%d]" % j)
        outside = [m, m + 1]
        if not (self.backend == "json" and F4 in self.exclude):
            outside.append(-m - 1)
        else:
            self._skip(F4)
        for j in outside:
            ok, e = self._call(lambda: h[j])
            flags = ["neg-oob"] if j < 0 else []
            if ok:
                self.fail("no-indexerror", "h[%d] returned %r although the session has %d commands" % (
                    j, _short(e), m), flags)
            if not isinstance(e, IndexError):
                self.fail("exception", "h[%d] raised %s: %s (IndexError expected: %d commands)" % (
                    j, type(e).__name__, e, m), flags)
        if self.backend == "sqlite" and m >= 2:
            self.nontrivial = True

    # -- end -----------------------------------------------------------------------------
    def close(self):
        self.closed = True
        threads = [e["thread"] for e in self.inflight] + list(self.started)
        for fl in threads:
            fl._c12_gate.set()
        for fl in threads:
            fl.join(3.0)
        self.inflight = []
        if _cur["driver"] is self:
            _cur["driver"] = None
        shutil.rmtree(self.root, ignore_errors=True)


class _Tolerated(Exception):
    pass


READ_OPS = {"len", "index", "field", "slice", "items", "all_items", "disk", "snapshot"}
MEM_READ_OPS = READ_OPS - {"disk"}


def _short(x):
    s = repr(x)
    return s if len(s) < 160 else s[:160] + "..."


def _show(op):
    d = {k: v for k, v in op.items() if k != "op" and v not in (None, False)}
    return "%s(%s)" % (op.get("op"), ", ".join("%s=%s" % (k, _short(v)) for k, v in d.items()))


def check_history(case, exclude=()):
    """Re-execute {'backend','params','ops'} without Hypothesis.  -> (Failure | None, Driver)"""
    try:
        d = Driver(case["backend"], case["params"], exclude=exclude, tolerate=case.get("tolerate", ()))
    except Mismatch as e:
        return e.failure, None
    try:
        try:
            for op in case["ops"]:
                d.do(dict(op))
        except Mismatch as e:
            return e.failure, d
    finally:
        d.close()
    return None, d


def minimize_ops(failure, exclude=()):
    """Greedy one-at-a-time removal of operations while the same bucket still fails."""
    best = failure
    case = dict(failure.case)
    ops = list(case["ops"])
    changed, rounds = True, 0
    while changed and rounds < 4:
        changed = False
        rounds += 1
        i = len(ops) - 2
        while i >= 0:
            trial = dict(case, ops=ops[:i] + ops[i + 1:])
            g, _ = check_history(trial, exclude)
            if g is not None and g.bucket == failure.bucket and g.kind == failure.kind:
                ops = list(g.case["ops"])
                best = g
                changed = True
                i = min(i, len(ops) - 1)
            i -= 1
    return best


# ----------------------------------------------------------------------------------------
# the state machine

_ctx = {}


def make_machine(backend):
    from hypothesis import strategies as st
    from hypothesis.stateful import RuleBasedStateMachine, initialize, rule

    specials = SPECIALS + (SURROGATES if backend == "json" else [])
    piece = st.one_of(st.sampled_from(specials), st.sampled_from(POOL),
                      st.text(alphabet=st.characters(exclude_categories=("Cs",)), min_size=1, max_size=5))
    free = st.lists(piece, min_size=1, max_size=5).map("".join)
    pool = st.builds(lambda a, b, c: a + b + c, st.sampled_from(["", "", "", "", " ", "\t", "  "]),
                     st.sampled_from(POOL), st.sampled_from(["", "", "", " ", "\n", "  \n", "\t ", "\x0c"]))
    rtns = st.sampled_from([0, 0, 0, 0, 1, 2, 127, -1, 255])
    dts = st.integers(1, 2_000_000)
    durs = st.sampled_from([0.0, 0.001, 0.5, 12.25])
    outs = st.one_of(st.none(), st.none(), st.sampled_from(["out\n", "", "\u00e9\U0001F600\n", "a\x1b[0mb"]))
    cwds = st.one_of(st.none(), st.sampled_from(["/", "/tmp/x y", "/home/\u00e9"]))
    holds = st.sampled_from([False, False, "run", "dump"]) if backend == "json" else st.just(False)
    refs = st.sampled_from([False, True])
    anchors = st.sampled_from(["start", "split", "split", "end", "end"])
    ks = st.integers(-3, 2)
    params = st.fixed_dictionaries({
        "buffersize": st.integers(1, 8),
        "histcontrol": st.sampled_from(HISTCONTROLS),
        "regex": st.sampled_from(REGEXES),
        "store_stdout": st.booleans(),
        "save_cwd": st.booleans(),
        "prior": st.sampled_from([0, 0, 1, 2]),
    })
    bound = st.one_of(st.none(), st.integers(-12, 12))

    class HistMachine(RuleBasedStateMachine):
        def __init__(self):
            super().__init__()
            self.d = None
            self.last = None

        def teardown(self):
            d = self.d
            if d is None:
                return
            d.close()
            stats = _ctx["stats"]
            if _ctx.get("failed") or not d.ops:
                return
            labels = [backend + "-history"] + sorted(backend + ":" + x for x in d.labels)
            if d.nontrivial:
                labels.append(backend + ":nontrivial")
            if d.hc:
                labels.append(backend + ":histcontrol-set")
            stats.case(("hist", backend, json.dumps(d.params, sort_keys=True), json.dumps(d.ops, sort_keys=True)),
                       d.nontrivial, labels,
                       sample=({"backend": backend, "params": d.params, "ops": d.ops[:12], "of": len(d.ops)}
                               if d.nontrivial else None), max_per_label=2)
            stats.hist[backend + "-steps"] += len(d.ops)
            stats.hist[backend + ":auto-released-flushers"] += d.auto_released
            if d.stall_released:
                stats.hist[backend + ":stall-released-flushers"] += d.stall_released
            for fid in d.excluded:
                stats.excluded_known[fid] += 1

        def do(self, op):
            if self.d is None:
                self.d = Driver(backend, {"buffersize": 3, "histcontrol": [], "regex": None, "store_stdout": False,
                                          "save_cwd": True, "prior": 0}, exclude=_ctx["exclude"],
                                timeout=_ctx["timeout"])
            try:
                self.d.do(op)
            except Mismatch as e:
                _ctx["failed"] = True
                _ctx.setdefault("first", e.failure)
                if e.failure.kind == "hang":
                    _ctx["timeout"] = 3.0        # while shrinking; the result is confirmed with the full bound
                raise

        @initialize(p=params)
        def open(self, p):
            try:
                self.d = Driver(backend, p, exclude=_ctx["exclude"], timeout=_ctx["timeout"])
            except Mismatch:
                _ctx["failed"] = True
                raise

        def _append(self, inp, rtn, dt, dur, spc, out, cwd, hold):
            self.last = inp
            op = {"op": "append", "inp": inp, "rtn": rtn, "dt": dt, "dur": dur,
                  "spc": bool(spc or inp.startswith(" "))}
            if out is not None:
                op["out"] = out
            if cwd is not None:
                op["cwd"] = cwd
            if hold:
                op["hold"] = hold
            self.do(op)

        @rule(inp=pool, rtn=rtns, dt=dts, dur=durs, spc=st.sampled_from([False] * 5 + [True]), out=outs, cwd=cwds,
              hold=holds)
        def append_pool(self, inp, rtn, dt, dur, spc, out, cwd, hold):
            self._append(inp, rtn, dt, dur, spc, out, cwd, hold)

        @rule(inp=pool, rtn=rtns, dt=dts, hold=holds)
        def append_pool2(self, inp, rtn, dt, hold):
            self._append(inp, rtn, dt, 0.5, False, None, None, hold)

        @rule(inp=pool, rtn=rtns, dt=dts, hold=holds)
        def append_pool3(self, inp, rtn, dt, hold):
            self._append(inp, rtn, dt, 0.5, False, None, None, hold)

        @rule(inp=pool, dt=dts, hold=holds)
        def append_pool4(self, inp, dt, hold):
            self._append(inp, 0, dt, 0.5, False, None, None, hold)

        @rule(inp=free, rtn=rtns, dt=dts, hold=holds)
        def append_text2(self, inp, rtn, dt, hold):
            self._append(inp, rtn, dt, 0.5, False, None, None, hold)

        @rule(inp=free, dt=dts, hold=holds)
        def append_text3(self, inp, dt, hold):
            self._append(inp, 0, dt, 0.001, False, None, None, hold)

        @rule(tail=st.sampled_from(["", "", " ", "\n"]), dt=dts, hold=holds)
        def append_again2(self, tail, dt, hold):
            inp = (self.last if self.last is not None else "echo hi")
            if tail:
                inp = inp.rstrip() + tail
            self._append(inp, 0, dt, 0.5, False, None, None, hold)

        @rule(inp=free, rtn=rtns, dt=dts, dur=durs, spc=st.sampled_from([False] * 5 + [True]), out=outs, cwd=cwds,
              hold=holds)
        def append_text(self, inp, rtn, dt, dur, spc, out, cwd, hold):
            self._append(inp, rtn, dt, dur, spc, out, cwd, hold)

        @rule(tail=st.sampled_from(["", "", " ", "\n", " \t"]), rtn=rtns, dt=dts, hold=holds)
        def append_again(self, tail, rtn, dt, hold):
            inp = (self.last if self.last is not None else "ls")
            if tail:
                inp = inp.rstrip() + tail
            self._append(inp, rtn, dt, 0.5, False, None, None, hold)

        @rule(at_exit=st.sampled_from([False, False, True]), hold=holds)
        def flush(self, at_exit, hold):
            op = {"op": "flush"}
            if at_exit:
                op["at_exit"] = True
            elif hold:
                op["hold"] = hold
            self.do(op)

        @rule(everything=st.booleans())
        def release(self, everything):
            self.do({"op": "release", "all": everything} if not everything else {"op": "wait"})

        @rule(go=st.sampled_from([True, False, False, False, False, False]))
        def clear(self, go):
            self.do({"op": "clear"} if go else {"op": "len"})

        @rule(go=st.sampled_from([True, False, False, False, False, False]), fl=st.booleans())
        def reopen(self, go, fl):
            self.do({"op": "reopen", "flush": fl} if go else {"op": "disk"})

        @rule(ref=refs)
        def read_len(self, ref):
            self.do({"op": "len", "ref": ref})

        @rule(anchor=anchors, k=ks, neg=st.booleans(), ref=refs)
        def read_index(self, anchor, k, neg, ref):
            self.do({"op": "index", "anchor": anchor, "k": k, "neg": neg, "ref": ref})

        @rule(field=st.sampled_from(FIELDS), anchor=anchors, k=ks, neg=st.booleans(), ref=refs)
        def read_field(self, field, anchor, k, neg, ref):
            self.do({"op": "field", "field": field, "anchor": anchor, "k": k, "neg": neg, "ref": ref})

        @rule(a=bound, b=bound, c=st.sampled_from([None, None, 1, 2, 3, -1, -2]), ref=refs)
        def read_slice(self, a, b, c, ref):
            self.do({"op": "slice", "a": a, "b": b, "c": c, "ref": ref})

        @rule(nf=st.sampled_from([False, False, True]), ref=refs)
        def read_items(self, nf, ref):
            self.do({"op": "items", "newest_first": nf, "ref": ref})

        @rule(nf=st.sampled_from([False, False, True]))
        def read_all_items(self, nf):
            self.do({"op": "all_items", "newest_first": nf})

        @rule()
        def read_disk(self):
            self.do({"op": "disk"})

        @rule()
        def snapshot(self):
            self.do({"op": "snapshot"})

    HistMachine.__name__ = "HistMachine_" + backend
    return HistMachine


def _is_flaky(exc):
    import hypothesis.errors as he

    kinds = tuple(k for k in (getattr(he, n, None) for n in ("Flaky", "FlakyFailure", "FlakyStrategyDefinition",
                                                             "FlakyReplay")) if isinstance(k, type))
    return isinstance(exc, kinds)


def worker_machine(arg):
    backend, seed, n_examples, steps, batches, scratch, open_ids = arg
    _setup(scratch)
    stats = Stats()
    per = max(1, n_examples // batches)
    seen = set()
    for b in range(batches):
        _ctx.clear()
        _ctx.update(stats=stats, failed=False, exclude=set(open_ids), timeout=OP_TIMEOUT)
        exc = common.run_machine(make_machine(backend), seed * 31 + b, per, steps, shrink=True, shrink_seconds=20)
        flaky = exc is not None and not isinstance(exc, Mismatch) and _is_flaky(exc) and _ctx.get("first")
        if flaky:
            # the same operation list behaved differently when Hypothesis re-ran it: xonsh itself is
            # racing (never the case on a tree that keeps the flusher queue discipline).  The first
            # disagreement was really observed; report it, reproduced if it can be.
            f = _ctx["first"]
            stats.notes.append("%s history fails schedule-dependently (Hypothesis reported %s)" % (
                backend, type(exc).__name__))
            g = None
            for _ in range(3):
                g, _d = check_history(f.case, open_ids)
                if g is not None:
                    break
            if g is None:
                f.detail += "  [observed once; did not reproduce in 3 replays: depends on thread timing]"
                g = f
            if g.bucket not in seen:
                seen.add(g.bucket)
                stats.fail(g)
            continue
        f = common.machine_failure(exc, "C12 %s machine" % backend)
        if f is None:
            continue
        g, _ = check_history(f.case, open_ids)
        if g is None:
            stats.notes.append("shrunk %s history did not fail again on replay (kept the original failure): %s" % (
                backend, json.dumps(f.case)[:300]))
            g = f
        elif g.kind != "hang":
            g = minimize_ops(g, open_ids)
        if g.bucket not in seen:
            seen.add(g.bucket)
            stats.fail(g)
    return stats


# ----------------------------------------------------------------------------------------
# lazyjson round trip


def _same(a, b):
    """Equality with the type of every leaf (1 != True != 1.0), lists == tuples."""
    if isinstance(b, dict):
        return isinstance(a, dict) and set(a) == set(b) and all(_same(a[k], b[k]) for k in b)
    if isinstance(b, (list, tuple)):
        return isinstance(a, list) and len(a) == len(b) and all(_same(x, y) for x, y in zip(a, b))
    if isinstance(b, float):
        return isinstance(a, float) and repr(a) == repr(b)
    return type(a) is type(b) and a == b


def _depth(o):
    if isinstance(o, dict):
        return 1 + max([_depth(v) for v in o.values()] or [0])
    if isinstance(o, (list, tuple)):
        return 1 + max([_depth(v) for v in o] or [0])
    return 0


def _walk(node, orig, path, problems, slices):
    import xonsh.lib.lazyjson as xlj

    def bad(msg):
        problems.append("%s: %s" % (path or "<root>", msg))

    if isinstance(orig, (dict, list, tuple)):
        if not isinstance(node, xlj.LJNode):
            return bad("expected a node for a container, got %s" % _short(node))
        try:
            if len(node) != len(orig):
                bad("len() is %d, original has %d" % (len(node), len(orig)))
            whole = node.load()
            if not _same(whole, orig):
                bad("load() gives %s, original %s" % (_short(whole), _short(orig)))
        except Exception as e:  # noqa: BLE001
            return bad("len()/load() raised %s: %s" % (type(e).__name__, e))
    if isinstance(orig, dict):
        try:
            keys = list(node)
            if sorted(keys) != sorted(orig) or len(keys) != len(orig):
                bad("iteration yields keys %s, original %s" % (_short(sorted(keys)), _short(sorted(orig))))
            for k, v in orig.items():
                _walk(node[k], v, "%s[%r]" % (path, k), problems, slices)
        except Exception as e:  # noqa: BLE001
            bad("key access raised %s: %s" % (type(e).__name__, e))
    elif isinstance(orig, (list, tuple)):
        try:
            n = len(orig)
            for i, v in enumerate(orig):
                _walk(node[i], v, "%s[%d]" % (path, i), problems, slices)
            its = list(node)
            if len(its) != n:
                bad("iteration yields %d elements, original %d" % (len(its), n))
            for i, (x, v) in enumerate(zip(its, orig)):
                x = x.load() if isinstance(x, xlj.LJNode) else x
                if not _same(x, v):
                    bad("iteration element %d is %s, original %s" % (i, _short(x), _short(v)))
            for (a, b, c) in slices:
                sl = slice(a, b, c)
                got = [x.load() if isinstance(x, xlj.LJNode) else x for x in node[sl]]
                if not _same(got, list(orig[sl])):
                    bad("%sslice [%s:%s:%s] gives %s, original %s" % (
                        NEGSTEP if (c or 1) < 0 else "", a, b, c, _short(got), _short(list(orig[sl]))))
        except Exception as e:  # noqa: BLE001
            bad("index access raised %s: %s" % (type(e).__name__, e))
    else:
        v = node.load() if isinstance(node, xlj.LJNode) else node
        if not _same(v, orig):
            bad("value is %s, original %s" % (_short(v), _short(orig)))


_lj = {"n": 0}
NEGSTEP = "negative-step "


def check_lazyjson(case, exclude=()):
    """case = {'backend': 'lazyjson', 'obj':..., 'sort_keys': bool, 'slices': [[a,b,c],...]} -> Failure | None"""
    import xonsh.lib.lazyjson as xlj

    obj, sk = case["obj"], bool(case.get("sort_keys"))
    slices = [tuple(s) for s in case.get("slices") or [(None, None, None)]]
    if F6 in exclude:
        slices = [s for s in slices if (s[2] or 1) > 0]
    _lj["n"] += 1
    path = os.path.join(_state["scratch"], "lj%d.json" % _lj["n"])
    problems = []
    try:
        try:
            with open(path, "w", newline="\n", encoding="utf-8") as f:
                xlj.ljdump(obj, f, sort_keys=sk)
        except Exception as e:  # noqa: BLE001
            return Failure("lazyjson-dump", case, "ljdump raised %s: %s" % (type(e).__name__, e),
                           bucket="lazyjson:dump")
        for mode in ("path", "handle"):
            fh = None
            try:
                try:
                    if mode == "path":
                        lj = xlj.LazyJSON(path)
                    else:
                        fh = open(path, newline="\n", encoding="utf-8")
                        lj = xlj.LazyJSON(fh, reopen=False)
                    if isinstance(obj, (dict, list, tuple)):
                        _walk(lj, obj, "", problems, slices)
                    else:
                        v = lj.load()
                        if not _same(v, obj):
                            problems.append("<root>: load() gives %s, original %s" % (_short(v), _short(obj)))
                    # the data section as located by `locs`
                    with open(path, newline="\n", encoding="utf-8") as f2:
                        text = f2.read()
                    data = json.loads(text[lj.dloc:lj.dloc + lj.dlen])
                    if not _same(data, obj):
                        problems.append("<data section>: locs address %s, original %s" % (_short(data), _short(obj)))
                except Exception as e:  # noqa: BLE001
                    problems.append("LazyJSON(%s) raised %s: %s" % (mode, type(e).__name__, e))
            finally:
                if fh is not None:
                    fh.close()
            if problems:
                break
    finally:
        try:
            os.remove(path)
        except OSError:
            pass
    if problems:
        # narrow predicate of F6: nothing but negative-step slices disagrees
        fid = F6 if all((": " + NEGSTEP + "slice [") in p for p in problems) else None
        return Failure("lazyjson-roundtrip", case, "; ".join(problems[:4]), finding=fid,
                       bucket=fid or "lazyjson:roundtrip")
    return None


def lazyjson_strategy():
    from hypothesis import strategies as st

    piece = st.one_of(st.sampled_from(SPECIALS + SURROGATES), st.sampled_from(POOL[:6]),
                      st.text(alphabet=st.characters(exclude_categories=("Cs",)), min_size=0, max_size=4))
    text = st.lists(piece, min_size=0, max_size=3).map("".join)
    keys = st.one_of(st.sampled_from(["cmds", "inp", "ts", "rtn", "a", "b", "", "k y", "__total_", "total"]),
                     text).filter(lambda k: k != "__total__")
    leaf = st.one_of(st.none(), st.booleans(), st.integers(-2 ** 70, 2 ** 70), st.integers(-3, 3),
                     st.floats(allow_nan=False, allow_infinity=False), text)
    value = st.recursive(leaf, lambda ch: st.one_of(st.lists(ch, max_size=4),
                                                    st.dictionaries(keys, ch, max_size=4)), max_leaves=14)
    top = st.one_of(st.dictionaries(keys, value, max_size=5), st.dictionaries(keys, value, max_size=5),
                    st.lists(value, max_size=5), value)
    b = st.one_of(st.none(), st.integers(-6, 6))
    slices = st.lists(st.tuples(b, b, st.sampled_from([None, 1, 2, -1, -2])), min_size=1, max_size=3)
    return st.fixed_dictionaries({"backend": st.just("lazyjson"), "obj": top, "sort_keys": st.booleans(),
                                  "slices": slices.map(lambda xs: [list(x) for x in xs])})


def worker_lazyjson(arg):
    seed, n, scratch, open_ids = arg
    _setup(scratch)
    stats = Stats()

    def body(case):
        f = check_lazyjson(case, open_ids)
        if F6 in open_ids and any((s[2] or 1) < 0 for s in case["slices"]):
            stats.excluded_known[F6] += 1
        d = _depth(case["obj"])
        nonascii = any(ord(ch) > 127 for ch in json.dumps(case["obj"], ensure_ascii=False))
        labels = ["lazyjson", "lazyjson:depth-%d" % min(d, 4)]
        if nonascii:
            labels.append("lazyjson:non-ascii")
        if case["sort_keys"]:
            labels.append("lazyjson:sort_keys")
        stats.case(("lj", repr(case["obj"]), case["sort_keys"]), d >= 2, labels,
                   sample=case if d >= 2 else None, max_per_label=1)
        if f is not None:
            stats.fail(f)

    common.run_given(lazyjson_strategy(), body, seed, n)
    seen = {}
    for f in stats.failures:
        seen.setdefault(f.bucket, f)
    out = []
    for bkt, f in seen.items():
        def still(case, _b=bkt):
            g = check_lazyjson(case, open_ids)
            return g is not None and g.bucket == _b
        m = common.minimize(lazyjson_strategy(), still, seed, n, seconds=20)
        if m is not None:
            g = check_lazyjson(m, open_ids)
            if g is not None:
                f = g
        out.append(f)
    stats.failures = out
    return stats


# ----------------------------------------------------------------------------------------


def worker_any(task):
    kind, arg = task
    if kind == "sessions":
        from vlib import c12_exit

        return c12_exit.worker_sessions(arg)
    return worker_machine(arg) if kind == "machine" else worker_lazyjson(arg)


def check_case(case, exclude=()):
    if case.get("family") == "session":
        from vlib import c12_exit

        return c12_exit.check_session(case, _state["scratch"])[0]
    if case.get("backend") == "lazyjson":
        return check_lazyjson(case)
    f, _ = check_history(case, exclude)
    return f


def worker_replay(arg):
    cases, scratch = arg
    _setup(scratch)
    out = []
    for case in cases:
        f = check_case(case)
        out.append(None if f is None else f.to_json())
    return {"results": out}


def _replays_in_worker(run, cases):
    os.makedirs(os.path.join(run.scratch, "replay"), exist_ok=True)
    res = common.pool_map(run, __name__, "worker_replay", [(cases, os.path.join(run.scratch, "replay"))], procs=1,
                          timeout=600)
    return [None if r is None else Failure.from_json(r) for r in res[0]["results"]]


def main(run):
    import glob

    # committed replays run in a worker: a wedged history object may leave daemon threads behind
    files = [p for p in sorted(glob.glob(os.path.join(common.REPLAY_DIR, PROP, "*.json")))
             if not os.path.basename(p).startswith("violation-")]
    cases = []
    registered = {e.get("id") for e in run.known}
    cache = {}
    for p in files:
        with open(p) as f:
            body = json.load(f)
        c = body.get("case", body)
        fid = c.get("finding") if isinstance(c, dict) else None
        if fid and fid not in registered:
            # replay of a finding that is proposed but not (yet) listed in known_findings.json: its shape is
            # excluded from generation by its narrow predicate; say so instead of judging it
            run.stats.notes.append("replay of %s skipped: the finding is not listed in %s" % (fid, common.KNOWN_FILE))
            cache[json.dumps(c, sort_keys=True)] = None
            continue
        cases.append(c)
    if cases:
        for c, r in zip(cases, _replays_in_worker(run, cases)):
            cache[json.dumps(c, sort_keys=True)] = r
    common.replay_tier(run, lambda case: cache[json.dumps(case, sort_keys=True)])

    open_ids = sorted(run.known_open)
    quick = run.tier == "quick"
    nw_json, nw_sql, nw_lj = (4, 3, 1) if quick else (8, 6, 2)
    n_json = run.n(900, 24000)
    n_sql = run.n(600, 15000)
    n_lj = run.n(3000, 80000)
    steps = run.n(40, 60)
    batches = run.n(2, 8)
    tasks = []
    for w in range(nw_json):
        tasks.append(("machine", ("json", common.worker_seed(run.seed, w), n_json // nw_json, steps, batches,
                                  os.path.join(run.scratch, "j%d" % w), open_ids)))
    for w in range(nw_sql):
        tasks.append(("machine", ("sqlite", common.worker_seed(run.seed, 100 + w), n_sql // nw_sql, steps, batches,
                                  os.path.join(run.scratch, "s%d" % w), open_ids)))
    for w in range(nw_lj):
        tasks.append(("lazyjson", (common.worker_seed(run.seed, 200 + w), n_lj // nw_lj,
                                   os.path.join(run.scratch, "l%d" % w), open_ids)))
    for kind, a in tasks:
        os.makedirs(a[5] if kind == "machine" else a[2], exist_ok=True)
    # whole sessions in child interpreters (vlib/c12_exit.py); the children mostly sleep / start up, so these
    # workers go first and overlap with the machines
    from vlib import c12_exit

    tabledir = c12_exit.prepare_tables(run.scratch)
    fixed_ids = sorted(run.known_fixed)
    n_drv, n_xsh = run.n(90, 1400), run.n(30, 450)
    sess = []
    for w in range(2):
        sc = os.path.join(run.scratch, "x%d" % w)
        os.makedirs(sc, exist_ok=True)
        sess.append(("sessions", ("driver", common.worker_seed(run.seed, 300 + w), n_drv, sc, 3, tabledir, fixed_ids)))
    sc = os.path.join(run.scratch, "x2")
    os.makedirs(sc, exist_ok=True)
    sess.append(("sessions", ("xonsh", common.worker_seed(run.seed, 310), n_xsh, sc, 3, tabledir, fixed_ids)))
    tasks = sess + tasks
    try:
        cap = max(1, int(os.environ.get("VERIF_PROCS") or 16))
    except ValueError:
        cap = 16
    common.pool_map(run, __name__, "worker_any", tasks, procs=min(len(tasks), cap))

    h = run.stats.hist
    nj, ns = h.get("json-history", 0), h.get("sqlite-history", 0)

    def frac(k, n):
        return round(h.get(k, 0) / n, 3) if n else 0.0

    run.extra["json_histories"] = nj
    run.extra["sqlite_histories"] = ns
    run.extra["sessions_in_child_interpreters"] = {
        "driver (XSH.load + Shell('none') + BaseShell._append_history)": h.get("session-driver", 0),
        "real `python -m xonsh --no-rc -i` fed from a pipe": h.get("session-xonsh", 0),
        "ending with an empty buffer right after a periodic flush": h.get(
            "session:ends-with-empty-buffer-after-periodic-flush", 0),
        "of those with a delayed background flusher": h.get("session:boundary+delay", 0),
    }
    run.extra["fractions"] = {
        "json read across memory/disk split": frac("json:read-across-split", nj),
        "json read while a flush is held in dump()": frac("json:read-while-flush-in-flight", nj),
        "json with $HISTCONTROL set": frac("json:histcontrol-set", nj),
        "json with a soft (reading-dependent) exclusion": frac("json:soft-exclusion", nj),
        "json non-ASCII text": frac("json:non-ascii", nj),
        "json astral text": frac("json:astral", nj),
        "json reopen": frac("json:reopen", nj),
        "json clear": frac("json:clear", nj),
        "sqlite with $HISTCONTROL set": frac("sqlite:histcontrol-set", ns),
        "sqlite non-ASCII text": frac("sqlite:non-ascii", ns),
        "sqlite reopen": frac("sqlite:reopen", ns),
    }
    if not run.stats.failures:
        low = []
        if nj and h.get("json:read-across-split", 0) < 0.3 * nj:
            low.append("json histories with a read across the memory/disk split: %d of %d (< 30 %%)" % (
                h.get("json:read-across-split", 0), nj))
        if nj and h.get("json:read-while-flush-in-flight", 0) < 0.1 * nj:
            low.append("json histories with a read during a held flush: %d of %d (< 10 %%)" % (
                h.get("json:read-while-flush-in-flight", 0), nj))
        for k, floor in (("session-driver", 40), ("session-xonsh", 12),
                         ("session:ends-with-empty-buffer-after-periodic-flush", 20), ("session:boundary+delay", 8),
                         ("session-driver:sqlite", 5), ("session-driver:explicit-history-flush", 5)):
            if h.get(k, 0) < floor:
                low.append("%s=%d<%d" % (k, h.get(k, 0), floor))
        for e in ("unload", "exit", "atexit", "sysexit", "raise", "sigterm"):
            if h.get("session-driver:end-" + e, 0) < 2:
                low.append("session-driver:end-%s=%d<2" % (e, h.get("session-driver:end-" + e, 0)))
        for k in ("json:non-ascii", "json:astral", "json:soft-exclusion", "json:hard-exclusion", "json:clear",
                  "json:reopen", "json:at-exit-flush", "json:explicit-release", "json:disk-equals-memory-checked",
                  "sqlite:non-ascii", "sqlite:soft-exclusion", "sqlite:reopen", "sqlite:clear",
                  "lazyjson:non-ascii", "lazyjson:sort_keys"):
            if h.get(k, 0) < 5:
                low.append("%s=%d<5" % (k, h.get(k, 0)))
        if low:
            raise common.HarnessError("generator incomplete, under the floor: " + "; ".join(low))
    run.assumptions += [
        "flusher timing is controlled from the harness (JsonHistoryFlusher.start/dump wrapped inside the worker "
        "process, no hooks in the tree): a background dump() either completes before the operation that started "
        "it returns or is held at its entry until released / until the main thread queues behind it; "
        "interleavings inside dump() (between the skip accounting and os.replace) are not explored",
        "timestamps strictly increase (callers take them from the clock); rtn is an int; dict keys of history "
        "entries are the ones base_shell produces",
        "exclusion rules accept every reading: ignore-regex as re.match or re.search, ignorespace by the caller's "
        "`spc` flag or the text, ignoredups against any command since the last certainly-kept one (compared "
        "after rstrip), ignoreerr applied at append or at flush; `out` / `cwd` are only required not to be invented",
        "lone surrogates are generated for the JSON backend and lazyjson only (sqlite3 cannot bind them; they are "
        "not Unicode scalar values); the lazyjson domain excludes the reserved key '__total__', non-string keys, "
        "NaN/Infinity, and negative or out-of-range integer indices on LJNode (history code never passes them)",
        "SQLite connections opened by xonsh get PRAGMA synchronous=OFF from the harness (an append costs 0.4 ms "
        "instead of 20 ms; durability is the subject of C13, not of this property)",
        "session family: the child is a separate CPython started with PYTHONPATH=<tree> and a private data dir; the "
        "ways of ending are XSH.unload(), the exit alias, plain end of program (atexit handler only), sys.exit(), an "
        "unhandled exception and SIGTERM - SIGKILL / power loss belong to C13; the background flusher is delayed by "
        "0-400 ms at the entry of run() or dump() (driver) or at xonsh/_verif.py's schedule points (real xonsh); "
        "driver sessions hand xonsh the text, return code and time stamps of each command through "
        "BaseShell._append_history instead of executing it; in real xonsh sessions outer blanks of a command are "
        "not compared (the shell records deindent(src)); SQLite driver sessions record their first command after the "
        "start-up GC thread has finished (C12-F7)",
        "reopen happens on a quiescent object (all flushers joined), as at the start of a new session; "
        "all_items(newest_first=True) of the JSON backend is not compared (ordering across files is not part of "
        "the property)",
    ]


def replay(run, path):
    with open(path) as f:
        d = json.load(f)
    case = d.get("case", d)
    f = _replays_in_worker(run, [case])[0]
    if f is None:
        print("replay: property holds on this case")
        return 0
    print("VIOLATION property=%s replay=%s kind=%s %s" % (PROP, path, f.kind, common._oneline(f.detail)))
    return 1

"""Coverage-guided campaign (atheris / libFuzzer) for the termination clause of C03.

Run as a child process by checks/c03_bareline.py:

    python -m vlib.c03_atheris OUT.json RUNS SEED MAX_LEN SCRATCH [corpus-seed ...]

The target feeds decoded text to Execer.parse(text, ctx=set()) - the same entry and the same oracle
as the Hypothesis-driven fuzz family: a tree / None or a SyntaxError, within the CPU-time bound; every
other exception type is a failure.  Failures do NOT end the campaign (libFuzzer would stop at the
first crash and hide everything behind it): they are bucketed by (exception type, innermost xonsh
frame), the shortest input per bucket is kept, and the search goes on.  Results are written as JSON
when the run count is used up (atheris does not run atexit handlers, so the target itself writes the
file every 2000 executions and at the last one).

libFuzzer's -seed only pins a campaign approximately; the saved inputs are the reproducible unit and
are re-checked by the parent without atheris."""

import json
import os
import sys
import time


def main():
    out_path, runs, seed, max_len, scratch = sys.argv[1], int(sys.argv[2]), int(sys.argv[3]), int(sys.argv[4]), sys.argv[5]
    sys.path.insert(0, os.path.join(os.path.dirname(os.path.dirname(os.path.abspath(__file__))), ".deps"))
    import atheris

    from vlib import common

    common.pin_environment(scratch, hooks=False)
    from vlib import tables

    tables.install()
    with atheris.instrument_imports(include=["xonsh.execer", "xonsh.tools", "xonsh.parsers", "xonsh.parsers.base", "xonsh.parsers.lexer",
                                             "xonsh.parsers.tokenize", "xonsh.parsers.ast", "xonsh.parsers.v310", "xonsh.parsers.v313",
                                             "xonsh.parsers.v39", "xonsh.parsers.v38", "xonsh.parsers.v36",
                                             "xonsh.parsers.fstring_rules_llm", "xonsh.parsers.context_check"], enable_loader_override=False):
        import xonsh.execer  # noqa: F401
        import xonsh.tools  # noqa: F401
        import xonsh.parsers.lexer  # noqa: F401
        import xonsh.parsers.tokenize  # noqa: F401
        import xonsh.parsers.base  # noqa: F401
        import xonsh.parsers.ast  # noqa: F401
    import importlib.util

    spec = importlib.util.spec_from_file_location("c03", os.path.join(common.VERIF, "checks", "c03_bareline.py"))
    c03 = importlib.util.module_from_spec(spec)
    spec.loader.exec_module(c03)
    c03._setup(scratch)
    c03.fresh_session()
    os.chdir(common.VERIF)

    state = {"n": 0, "recovery": 0, "slow": 0, "buckets": {}, "t0": time.time(), "distinct": set(), "samples": []}

    def dump():
        body = {"executions": state["n"], "recovery": state["recovery"], "slow_unconfirmed": state["slow"],
                "distinct_recovery": len(state["distinct"]), "hashes": sorted(state["distinct"])[:20000], "samples": state["samples"][:6],
                "buckets": {k: {"text": v[0], "detail": v[1], "count": v[2]} for k, v in state["buckets"].items()},
                "wall_s": round(time.time() - state["t0"], 1)}
        tmp = out_path + ".tmp"
        with open(tmp, "w") as f:
            json.dump(body, f)
        os.replace(tmp, out_path)

    from vlib import pyoracle

    plain = pyoracle.get_parser()

    def one(data):
        state["n"] += 1
        try:
            text = data.decode("utf-8", "replace")       # lone surrogates are not text: CPython's compile() refuses them too
        except Exception:  # noqa: BLE001
            return
        if "\x00" in text:
            return
        try:
            plain.parse(text if text.endswith("\n") else text + "\n")
            first_fails = False
        except BaseException:  # noqa: BLE001
            first_fails = True
        if first_fails:
            state["recovery"] += 1
            h = common.h64(text)
            if h not in state["distinct"]:
                state["distinct"].add(h)
                if len(state["samples"]) < 6 and len(text) > 8:
                    state["samples"].append(text)
        r = c03.parse_only(text)
        if r is not None:
            kind, detail = r
            if kind == "hang":
                # the long confirmation bound is the parent's business (it re-runs saved inputs without atheris)
                state["slow"] += 1
            b = state["buckets"].get(kind)
            if b is None or len(text) < len(b[0]):
                state["buckets"][kind] = (text, detail, (b[2] if b else 0) + 1)
            else:
                state["buckets"][kind] = (b[0], b[1], b[2] + 1)
        if state["n"] % 250 == 0 or state["n"] >= runs:
            dump()

    corpus = os.path.join(scratch, "c03-atheris-corpus-%d" % os.getpid())
    os.makedirs(corpus, exist_ok=True)
    for i, s in enumerate(sys.argv[6:]):
        with open(os.path.join(corpus, "seed-%d" % i), "wb") as f:
            f.write(s.encode("utf-8", "surrogateescape"))
    dict_path = os.path.join(scratch, "c03-atheris-%d.dict" % os.getpid())
    with open(dict_path, "w") as f:
        for tok in c03.ALPHA:
            if tok and all(32 <= ord(ch) < 127 for ch in tok) and '"' not in tok and "\\" not in tok:
                f.write('"%s"\n' % tok)
        f.write('"\\x0a"\n"\\x5c\\x0a"\n"\\x22\\x22\\x22"\n"\\x5c"\n"\\x22"\n')
    dump()
    argv = [sys.argv[0], "-runs=%d" % runs, "-seed=%d" % (seed or 1), "-max_len=%d" % max_len, "-dict=" + dict_path, "-timeout=3600",
            "-rss_limit_mb=4096", "-print_final_stats=0", "-verbosity=0", corpus]
    atheris.Setup(argv, one)
    atheris.Fuzz()


if __name__ == "__main__":
    main()

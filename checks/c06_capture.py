"""C06 - captured output is complete, ordered and exactly what the command wrote.

Generator : payload built from segments (text incl. multi-byte UTF-8, newlines \\n / \\r\\n / \\r,
            well-formed escape sequences, hidden \\x01..\\x02 spans, raw binary for raw_out) with total sizes and
            alignments chosen to straddle the code's boundaries (1024-byte reader chunk, 4096, 64 KiB pipe
            buffer and multiples, +-1), with and without final newline; writer behaviour (chunk size, inter-chunk
            delay, linger after close, exit code); pipeline of 1-3 stages from {external vemit/vcat, threaded
            alias writer / passthrough}; capture kind ($(), !().out, iteration, .raw_out, @$()); configuration
            ($THREAD_SUBPROCS on/off -> Popen vs PopenThread+NonBlockingFDReader path, $XONSH_CAPTURE_ALWAYS);
            and - with the XONSH_XONSH_VERIF guard on - a seeded delay plan for the schedule points inside
            xonsh's reader / proxy / pipeline threads, several plans per case.
Oracle    : raw_out == payload byte for byte; text views match the decoded payload under one consistent
            newline reading (CR and CRLF -> LF; CRLF only; none), each escape segment present or absent as a
            whole, every text segment intact once and in order, one-line output may lose its final newline;
            .rtn == last stage's exit code; nothing of the payload reaches the shell's own stdout (fd 1 and
            sys.stdout are captured by the harness); stderr markers of the stages are not in the captured value.
"""

from __future__ import annotations

import io
import json
import os
import re
import signal
import sys
import tempfile

from vlib import common, helpers
from vlib.common import Failure, Stats

PROP = "C06"
LEVEL = "exploration"
HOOKS = True
RULE = ("payload (segments, boundary-straddling sizes) x writer chunking/delay/linger/exit code x pipeline of 1-3 external/alias stages x "
        "capture kind x $THREAD_SUBPROCS x seeded delay plan at xonsh's schedule points; non-trivial = payload > 1024 bytes or >= 2 stages "
        "or chunked/delayed writer; distinct = hash of (payload, writer, pipeline, capture kind, config, plan)")

HANG_S = 40
SIZES = [0, 1, 2, 80, 1023, 1024, 1025, 2047, 2048, 2049, 4095, 4096, 4097, 8192, 65535, 65536, 65537, 131072, 131073, 200000]
ESCAPES = [b"\x1b[31m", b"\x1b[0m", b"\x1b[1;32m", b"\x1b[K", b"\x1b[2J", b"\x1b[38;5;196m"]
_state = {}


class _Timeout(BaseException):
    pass


def _alarm(signum, frame):
    raise _Timeout()


def _setup(scratch):
    if _state:
        return _state
    from vlib import session

    helpers.ensure()
    d = os.path.join(scratch, "c06-%d" % os.getpid())
    os.makedirs(d, exist_ok=True)
    signal.signal(signal.SIGALRM, _alarm)
    import xonsh._verif as xv

    if not xv.ENABLED:
        raise common.HarnessError("schedule-point hooks are not enabled (XONSH_XONSH_VERIF=1 must be set before xonsh is imported)")
    _state.update(session=session, dir=d, scratch=scratch, xv=xv,
                  open={e["id"] for e in common.load_known(PROP) if e.get("status") == "open"})
    return _state


# ----------------------------------------------------------------------------------------
# payload


def gen_payload(rnd, binary_ok):
    """-> (list of segments [kind, bytes], payload bytes)."""
    target = SIZES[rnd.randrange(len(SIZES))] if rnd.randrange(3) else rnd.randrange(0, 3000)
    segs = []
    total = 0

    def add(kind, b):
        nonlocal total
        if not b:
            return
        if segs and segs[-1][0] == kind == "text":
            segs[-1][1] += b
        else:
            segs.append([kind, b])
        total += len(b)

    nls = [b"\n", b"\n", b"\n", b"\r\n", b"\r"]
    while total < target:
        c = rnd.randrange(12)
        room = target - total
        if c < 6:
            n = min(room, 1 + rnd.randrange(120) if rnd.randrange(4) else 1 + rnd.randrange(2000))
            alpha = [b"a", b"b", b"Z", b"0", b" ", b"\t", b"-", b"\xc3\xa9", b"\xe4\xb8\xad", b"\xf0\x9f\x98\x80", b".", b"x"]
            out = bytearray()
            while len(out) < n:
                ch = alpha[rnd.randrange(len(alpha))]
                if len(out) + len(ch) > n:
                    ch = b"q"
                out += ch
            add("text", bytes(out))
        elif c < 9:
            nl = nls[rnd.randrange(len(nls))]
            if room < 2:
                nl = b"\n"
            if segs and segs[-1][1].endswith(b"\r") and nl.startswith(b"\n"):
                add("text", b"j")       # a bare CR directly followed by LF would *be* a CRLF in the byte stream
            add("nl", nl)
        elif c == 9:
            e = ESCAPES[rnd.randrange(len(ESCAPES))]
            if len(e) <= room:
                add("esc", e)
            else:
                add("text", b"p" * room)
        elif c == 10:
            e = b"\x01" + b"hid" * (1 + rnd.randrange(2)) + b"\x02"
            if len(e) <= room:
                add("esc", e)
            else:
                add("text", b"p" * room)
        else:
            if binary_ok:
                n = min(room, 1 + rnd.randrange(64))
                add("bin", bytes(rnd.randrange(256) for _ in range(n)))
            else:
                add("text", b"w" * min(room, 5))
    # place a CRLF / multi-byte char / escape across a 1024 boundary sometimes
    if total > 1100 and rnd.randrange(2) == 0:
        pass  # random composition already produces straddles; counted by the caller
    if rnd.randrange(2) == 0 and segs and segs[-1][0] != "nl":
        add("nl", b"\n")
    # nl segments must stay separate entries (add() merges only text)
    payload = b"".join(s[1] for s in segs)
    return segs, payload


def straddles(segs):
    """Which segment kinds straddle a multiple of 1024 (reader chunk)."""
    out = set()
    off = 0
    for kind, b in segs:
        a, e = off, off + len(b)
        if kind in ("nl", "esc") and len(b) > 1 and (a // 1024) != ((e - 1) // 1024):
            out.add(kind)
        if kind == "text":
            # multi-byte char across boundary
            for m in range((a // 1024 + 1) * 1024, e, 1024):
                i = m - a
                if 0 < i < len(b) and (b[i] & 0xC0) == 0x80:
                    out.add("mbchar")
        off = e
    return out


READINGS = {
    "all": {b"\n": "\n", b"\r\n": "\n", b"\r": "\n"},
    "crlf": {b"\n": "\n", b"\r\n": "\n", b"\r": "\r"},
    "none": {b"\n": "\n", b"\r\n": "\r\n", b"\r": "\r"},
}


def expected_texts(segs, enc="utf-8"):
    """Expected text (escape segments removed) under each consistent newline reading, or None when
    the payload has raw binary segments."""
    out = {}
    for name, m in READINGS.items():
        parts = []
        for kind, b in segs:
            if kind == "text":
                parts.append(b.decode(enc))
            elif kind == "nl":
                parts.append(m[b])
            elif kind == "bin":
                return None
        out[name] = "".join(parts)
    return out


def cr_mixed_match(segs, got, enc="utf-8"):
    """True when `got` equals the payload text if every lone CR may *independently* be '\r' or '\n'
    (the recorded per-occurrence inconsistency, C06-F2) - everything else exact."""
    parts = []
    for kind, b in segs:
        if kind == "text":
            parts.append(re.escape(b.decode(enc)))
        elif kind == "nl":
            parts.append({b"\n": "\n", b"\r\n": "(?:\r\n|\n)", b"\r": "[\r\n]"}[b])
        elif kind == "bin":
            return False
    rx = "".join(parts)
    g = strip_escapes(segs, got, enc)
    return re.fullmatch(rx, g, re.S) is not None or re.fullmatch(rx, g + "\n", re.S) is not None


def strip_escapes(segs, got, enc="utf-8"):
    for e in sorted({b.decode(enc) for k, b in segs if k == "esc"}, key=len, reverse=True):
        got = got.replace(e, "")
    return got


def match_text(segs, got):
    """-> None when the text view is acceptable, else a description of the first difference against
    the closest reading.  Escape sequences may be kept or stripped (each as a whole)."""
    exp = expected_texts(segs)
    if exp is None:
        return None
    g = strip_escapes(segs, got)
    best = None
    for name, e in exp.items():
        # one-line output (under this reading) may lose its final newline
        one_line = e.count("\n") == 1 and e.endswith("\n")
        if g == e or (one_line and g + "\n" == e):
            return None
        n = 0
        for a, b in zip(g, e):
            if a != b:
                break
            n += 1
        if best is None or n > best[0]:
            best = (n, name, e)
    n, name, e = best
    return "first difference from the %r reading at char %d: got %r, expected %r (lengths %d vs %d)" % (
        name, n, g[max(0, n - 12):n + 12], e[max(0, n - 12):n + 12], len(g), len(e))


# ----------------------------------------------------------------------------------------
# case generation


def gen_case(rnd):
    kind = ["dollar", "out", "iter", "raw", "rtn", "atdollar"][rnd.randrange(6)]
    binary_ok = kind in ("raw", "rtn")
    segs, payload = gen_payload(rnd, binary_ok)
    if kind in ("dollar", "out", "iter") and "C06-F2" in _state.get("open", ()) and rnd.randrange(6) != 0 \
            and any(k == "nl" and b == b"\r" for k, b in segs):
        # recorded finding: lone CRs are normalised per occurrence; mostly avoided (counted by the caller)
        segs = [[k, (b"\n" if (k == "nl" and b == b"\r") else b)] for k, b in segs]
        payload = b"".join(b for _k, b in segs)
        _state["avoided_f2"] = _state.get("avoided_f2", 0) + 1
    if kind == "atdollar":
        # @$() splits on whitespace: keep to a small text payload of plain words
        words = ["w%d" % rnd.randrange(100) for _ in range(1 + rnd.randrange(5))]
        payload = (" ".join(words) + "\n").encode()
        segs = [["text", payload[:-1]], ["nl", b"\n"]]
    chunk = [0, 0, 1, 7, 512, 1023, 1024, 1025, 4096, 65536][rnd.randrange(10)]
    if len(payload) > 20000 and 0 < chunk < 512:
        chunk = 512
    delay = [0, 0, 0, 100, 1000, 5000][rnd.randrange(6)] if chunk and len(payload) // max(chunk, 1) < 60 else 0
    linger = [0, 0, 2000, 20000][rnd.randrange(4)]
    code = [0, 0, 1, 2, 127, 255][rnd.randrange(6)]
    nstage = 1 + (rnd.randrange(3) if rnd.randrange(2) else 0)
    thread = bool(rnd.randrange(2))
    # callable-alias stages read/write *text* streams (universal newlines on read): only LF payloads go through them
    text_only = all(k != "bin" for k, _ in segs) and not any(b"\r" in b for _k, b in segs)
    stages = []
    first = "vemit"
    if text_only and len(payload) < 70000 and rnd.randrange(4) == 0:
        first = "awrite"
    stages.append(first)
    if first == "awrite" and nstage > 1 and not thread:
        first = stages[0] = "vemit"        # unthreaded aliases are rejected in pipelines by design
    for _ in range(nstage - 1):
        opts = ["vcat", "vcat", "vcat7"]
        if text_only and len(payload) < 70000 and thread:
            opts.append("apass")
        stages.append(opts[rnd.randrange(len(opts))])
    return {
        "segs": [[k, b.hex()] for k, b in segs], "kind": kind, "chunk": chunk, "delay": delay, "linger": linger, "code": code,
        "stages": stages, "thread": thread, "capture_always": rnd.randrange(4) == 0,
        "plan": [rnd.randrange(1 << 30), [0.0, 0.05, 0.3][rnd.randrange(3)], [1.0, 3.0][rnd.randrange(2)]],
        "stderr_marker": rnd.randrange(3) == 0,
    }


# ----------------------------------------------------------------------------------------
# execution


def run_case(case):
    st = _state
    session, xv, d = st["session"], st["xv"], st["dir"]
    segs = [[k, bytes.fromhex(h)] for k, h in case["segs"]]
    payload = b"".join(b for _k, b in segs)
    pfile = os.path.join(d, "payload.bin")
    with open(pfile, "wb") as f:
        f.write(payload)
    XSH = session.load_session(st["scratch"], THREAD_SUBPROCS=case["thread"], XONSH_CAPTURE_ALWAYS=case["capture_always"],
                               XONSH_SUBPROC_RAISE_ERROR=False, XONSH_SUBPROC_CMD_RAISE_ERROR=False)
    text = payload.decode("utf-8", "surrogateescape")
    chunk = case["chunk"]

    def awrite(args, stdin=None, stdout=None, stderr=None):
        step = chunk or len(text) or 1
        for i in range(0, len(text), step):
            stdout.write(text[i:i + step])
        return int(args[0]) if args else 0

    def apass(args, stdin=None, stdout=None, stderr=None):
        data = stdin.read()
        stdout.write(data)
        return int(args[0]) if args else 0

    XSH.aliases["awrite"] = awrite
    XSH.aliases["apass"] = apass
    rec = []

    def recw(args, stdin=None):
        rec.append(list(args))
        return 0

    XSH.aliases["recw"] = recw
    stages = case["stages"]
    last = len(stages) - 1
    parts = []
    for i, s in enumerate(stages):
        code = case["code"] if i == last else [0, 3][i % 2]
        marker = " 0" if not case["stderr_marker"] else ""
        if s == "vemit":
            parts.append("vemit %s 1 %d %d %d %d" % (pfile, chunk, case["delay"], code, case["linger"]))
        elif s == "awrite":
            parts.append("awrite %d" % code)
        elif s == "vcat":
            parts.append("vcat 4096 %d%s" % (code, " STDERRMARK%d" % i if case["stderr_marker"] else ""))
        elif s == "vcat7":
            parts.append("vcat 7 %d" % code)
        elif s == "apass":
            parts.append("apass %d" % code)
        del marker
    cmd = " | ".join(parts)
    kind = case["kind"]
    if kind == "dollar":
        src = "R = $(" + cmd + ")\n"
    elif kind == "atdollar":
        src = "recw @$(" + cmd + ")\nR = None\n"
    else:
        src = "P = !(" + cmd + ")\n"
        src += {"out": "R = P.out\n", "iter": "R = [l for l in P]\n", "raw": "R = P.raw_out\n", "rtn": "R = P.rtn\n"}[kind]
        src += "RTN = P.rtn\nRAW = P.raw_out\n"
    XSH.ctx.clear()
    seed, prob, max_ms = case["plan"]
    xv.set_plan(seed, prob, max_ms)
    # capture the shell's own terminal: fd 1 / fd 2 and the Python-level streams
    sys.stdout.flush()
    sys.stderr.flush()
    t1 = tempfile.TemporaryFile(dir=d)
    t2 = tempfile.TemporaryFile(dir=d)
    save1, save2 = os.dup(1), os.dup(2)
    os.dup2(t1.fileno(), 1)
    os.dup2(t2.fileno(), 2)
    old_out, old_err = sys.stdout, sys.stderr
    py_out, py_err = io.StringIO(), io.StringIO()
    sys.stdout, sys.stderr = py_out, py_err
    exc = None
    signal.setitimer(signal.ITIMER_REAL, HANG_S, 2.0)
    try:
        try:
            session.xexec(src)
        except _Timeout:
            exc = "HANG"
        except BaseException as e:  # noqa: BLE001
            exc = "%s: %s" % (type(e).__name__, str(e)[:200])
    finally:
        signal.setitimer(signal.ITIMER_REAL, 0)
        sys.stdout, sys.stderr = old_out, old_err
        os.dup2(save1, 1)
        os.dup2(save2, 2)
        os.close(save1)
        os.close(save2)
    t1.seek(0)
    t2.seek(0)
    term1, term2 = t1.read(), t2.read()
    t1.close()
    t2.close()
    res = {"exc": exc, "term1": term1, "term2": term2, "py_out": py_out.getvalue(), "R": XSH.ctx.get("R"), "RTN": XSH.ctx.get("RTN"),
           "RAW": XSH.ctx.get("RAW"), "rec": rec, "payload": payload, "segs": segs, "cmd": cmd}
    try:
        P = XSH.ctx.get("P")
        res["cls"] = [getattr(s.cls, "__name__", str(s.cls)) for s in P.specs] if P is not None else []
    except Exception:  # noqa: BLE001
        res["cls"] = []
    return res


def classify(case, kind, detail):
    if kind == "split-char" and case["thread"] and case["kind"] in ("out", "iter"):
        return "C06-F1"
    if kind == "cr-inconsistent":
        return "C06-F2"
    return None


def check_case(case):
    r = run_case(case)
    payload, segs = r["payload"], r["segs"]
    kind = case["kind"]
    problems = []

    def short(x):
        s = repr(x)
        return s if len(s) < 160 else s[:70] + "...<%d>..." % len(s) + s[-70:]

    if r["exc"] == "HANG":
        problems.append(("deadlock", "capture did not return within %d s (%s)" % (HANG_S, r["cmd"])))
    elif r["exc"]:
        problems.append(("exception", "capture raised %s" % r["exc"]))
    else:
        R = r["R"]
        if kind == "raw":
            if R != payload:
                problems.append(("raw-differs", "raw_out has %d bytes, payload %d; first difference at %s" % (
                    len(R or b""), len(payload), _first_diff(R or b"", payload))))
        elif kind == "rtn":
            pass
        elif kind == "atdollar":
            want = payload.decode().split()
            if r["rec"] != [want]:
                problems.append(("atdollar-differs", "@$() delivered %s, expected %s" % (short(r["rec"]), short(want))))
        else:
            got = "".join(R) if kind == "iter" else R
            if not isinstance(got, str):
                problems.append(("type", "captured value is %s" % type(got).__name__))
            else:
                why = match_text(segs, got)
                if why:
                    # the recorded split-character defect: re-assembling the surrogate-escaped bytes gives the right text
                    try:
                        fixed = got.encode("utf-8", "surrogateescape").decode("utf-8")
                    except UnicodeError:
                        fixed = None
                    if fixed is not None and fixed != got and match_text(segs, fixed) is None:
                        problems.append(("split-char", "%s view: a multi-byte character split between two reads was decoded per chunk: %s" % (kind, why)))
                    elif any(k == "nl" and b == b"\r" for k, b in segs) and cr_mixed_match(segs, got):
                        problems.append(("cr-inconsistent", "%s view: lone CRs are normalised per occurrence (depending on where the reads fall), not uniformly: %s" % (kind, why)))
                    else:
                        problems.append(("text-differs", "%s view does not match the payload under any consistent reading: %s" % (kind, why)))
            if kind == "iter" and isinstance(R, list) and any(("\n" in ln[:-1]) for ln in R if ln):
                problems.append(("iter-lines", "an iterated line contains an interior newline: %s" % short(R)))
        if kind not in ("dollar", "atdollar"):
            if r["RTN"] != case["code"]:
                problems.append(("rtn-differs", "rtn %r, last stage exited with %d (%s)" % (r["RTN"], case["code"], r["cmd"])))
            if r["RAW"] != payload:
                problems.append(("raw-differs", "raw_out has %d bytes, payload %d; first difference at %s" % (
                    len(r["RAW"] or b""), len(payload), _first_diff(r["RAW"] or b"", payload))))
        # captured data must not be echoed to the shell's own stdout
        if len(payload) >= 4:
            probe = payload[:64]
            if probe in r["term1"] or (r["py_out"] and probe.decode("utf-8", "replace")[:32] in r["py_out"]):
                problems.append(("echoed", "captured output also reached the shell's stdout: %s" % short(r["term1"][:80] or r["py_out"][:80])))
        if case["stderr_marker"] and isinstance(r["R"], (str, bytes, list)):
            flat = "".join(r["R"]) if isinstance(r["R"], list) else r["R"]
            if (b"STDERRMARK" in flat) if isinstance(flat, bytes) else ("STDERRMARK" in flat):
                problems.append(("stderr-mixed", "a stage's stderr appears in the captured value"))
    if not problems:
        return None, r
    k = problems[0][0]
    detail = "; ".join(p[1] for p in problems) + " [cmd: %s; classes %s; thread=%s]" % (r["cmd"], r.get("cls"), case["thread"])
    fid = classify(case, k, detail)
    return Failure(k, case, detail, finding=fid, bucket=fid or (k + ":" + case["kind"] + ":" + ("thr" if case["thread"] else "nothr"))), r


def _first_diff(a, b):
    n = min(len(a), len(b))
    for i in range(n):
        if a[i] != b[i]:
            return "offset %d (%r vs %r)" % (i, a[max(0, i - 4):i + 6], b[max(0, i - 4):i + 6])
    return "offset %d (length)" % n


def worker(arg):
    seed, n, plans, scratch = arg
    from hypothesis import strategies as hs

    _setup(scratch)
    st = Stats()

    def body(rnd):
        case = gen_case(rnd)
        segs = [[k, bytes.fromhex(h)] for k, h in case["segs"]]
        size = sum(len(b) for _k, b in segs)
        for p in range(plans):
            c = dict(case)
            if p:
                c["plan"] = [case["plan"][0] + p, [0.05, 0.3][p % 2], case["plan"][2]]
            f, r = check_case(c)
            if f is not None and f.finding is None:
                # Only what reproduces is reported: the OS still owns the real interleaving, and the workers share
                # the machine.  Re-run the same case (same plan, then perturbed plans); a failure that never
                # shows again is counted as an unreproduced schedule anomaly (inconclusive), not a violation.
                again = None
                for t in range(6):
                    c2 = dict(c)
                    if t >= 2:
                        c2["plan"] = [c["plan"][0] + 1000 + t, 0.3, 3.0]
                    again, _r2 = check_case(c2)
                    if again is not None:
                        break
                if again is None:
                    st.inconclusive += 1
                    st.hist["unreproduced-schedule-anomaly:" + f.kind] += 1
                    st.notes.append("unreproduced (0 of 6 re-runs): %s | %s" % (f.kind, f.detail[:300]))
                    f = None
                else:
                    f = again
            nontrivial = size > 1024 or len(case["stages"]) >= 2 or (case["chunk"] and case["chunk"] < size) or case["delay"] > 0
            labels = ["kind:" + case["kind"], "thread:%s" % case["thread"], "stages:%d" % len(case["stages"]),
                      "size:" + ("0" if size == 0 else "<=1024" if size <= 1024 else "<=65536" if size <= 65536 else ">64K")]
            for s in straddles(segs):
                labels.append("straddle:" + s)
            for cl in set(r.get("cls") or []):
                labels.append("spec.cls:" + cl)
            key = (case["segs"], case["kind"], case["chunk"], case["delay"], case["linger"], tuple(case["stages"]), case["thread"], tuple(c["plan"]))
            st.case(key, bool(nontrivial), labels,
                    sample={k: v for k, v in c.items() if k != "segs"} | {"payload_bytes": size} if nontrivial else None, max_per_label=1)
            if f is not None:
                st.fail(f)
                break

    common.run_given(hs.randoms(use_true_random=False), body, seed, n)
    if _state.get("avoided_f2"):
        st.excluded_known["C06-F2"] += _state["avoided_f2"]
    best = {}
    for f in st.failures:
        b = best.get(f.bucket)
        size = sum(len(h) for _k, h in f.case["segs"])
        if b is None or size < sum(len(h) for _k, h in b.case["segs"]):
            best[f.bucket] = f
    st.failures = list(best.values())
    return st


def _replay_case(case):
    f, _r = check_case(case)
    return f


def main(run):
    _setup(run.scratch)
    common.replay_tier(run, _replay_case)
    nw = 16
    per = run.n(110, 1500)
    plans = run.n(2, 6)
    common.pool_map(run, __name__, "worker", [(common.worker_seed(run.seed, w), per, plans, run.scratch) for w in range(nw)], hooks=True)
    run.assumptions += [
        "schedules of xonsh's helper threads are perturbed by seeded delay injection at the guarded schedule points; they are sampled, not enumerated",
        "alternate-screen switches (ESC[?1049h etc.), which PopenThread deliberately passes to the terminal, are not generated",
        "text views may keep or strip each escape sequence as a whole, and may use any one consistent CR/CRLF reading; one-line output may lose its final newline",
    ]


def replay(run, path):
    with open(path) as f:
        d = json.load(f)
    case = d.get("case", d)
    _setup(run.scratch)
    fail = _replay_case(case)
    if fail is None:
        print("replay: property holds on this case")
        return 0
    print("VIOLATION property=%s replay=%s kind=%s %s" % (PROP, path, fail.kind, fail.detail))
    return 1

"""C09 - running a command leaves the shell session as it found it.

Generator : sequences of 1-5 command lines.  Each line is a pipeline of 1-4 stages drawn from a pool
            of stage kinds (external ok / failing / not found / 0644 file on $PATH / ./0644-file /
            big producer / `head -n 1` / stage that never reads stdin; callable alias ok / failing /
            raising / writing 200 kB / reading one line / never reading / unthreadable / running nested
            subprocesses / string (ExecAlias) / list alias), wrapped in a capture form (bare, ![..],
            $[..], $(..), @$(..), !(..) + .end(), !(..) + .rtn), optionally with a redirect (valid,
            missing directory / file, conflicting), under a configuration ($THREAD_SUBPROCS,
            $XONSH_CAPTURE_ALWAYS, $XONSH_SUBPROC_RAISE_ERROR) and a repetition count (1, 3, 30;
            thorough also 300).  A deterministic grid (every ordered pair of stage kinds, every single
            stage x form x threading) runs next to the Hypothesis-drawn cases.  Lines go through the
            real Execer in a real XonshSession; the children are real processes.
Oracle    : snapshots (vlib/c09_observe.py) of /proc/self/fd with link targets, /proc/self/task/*/children,
            threading.enumerate(), cwd, identity of sys.stdin/stdout/stderr, SIGINT/SIGTSTP/SIGQUIT/
            SIGWINCH handlers, the main thread's signal mask (children inherit it), the effective xonsh
            environment, os.environ.  Three strengths, reported
            separately:
              immediate - right after the command(s) (grace poll <= 2 s for helper threads / children):
                          equal to the snapshot before;
              steady    - nothing (descriptors, children, threads) has grown between "after 1 run" and
                          "after N runs";
              strict    - after one neutral alias command has displaced XSH.lastcmd (and the check's own
                          variables are dropped): equal to the snapshot before.
            A resource difference that disappears after gc.collect() is counted (label), not reported.
            Finally a self-sent SIGINT must surface as KeyboardInterrupt in the main thread.
            Thorough tier: the same cases in a worker that owns a pty (setsid + TIOCSCTTY,
            $XONSH_INTERACTIVE=True); tcgetpgrp and termios attributes are part of the snapshot.
Stage kinds added for the early-exit dimension: an endless producer (`vyes`: ends by SIGPIPE only, self-limited by alarm(45)),
            a slow 1 MB producer, 1 MB to stderr, cat(1) (predicted unthreadable: plain Popen + PrevProcCloser even with
            threads on), `wc -l` (needs EOF before it writes).  Family "early-exit matrix" (deterministic): producer first,
            an early-exiting stage at every later position of 3- and 4-stage pipelines, copy-until-EOF stages elsewhere,
            every capture form, threads on/off; the Hypothesis strategy has the same shape with 3-5 stages and up to two
            early exits.  A line that cannot end by itself (`vyes | vcat`, `vyes | wc -l | vexit 0`) is never generated
            (never_ends / make_finite); an endless producer is never given a file redirect.
Family jobctl (quick + thorough; vlib/c09_tty.py): histories of job-control operations in an interactive session that is
            session leader of its own pty (a fork of the worker; real Execer, $XONSH_INTERACTIVE=True, the signal dispositions
            of an interactive xonsh).  Operations: run a foreground job (sleep / 2-stage pipelines x bare, ![..], $[..], $(..));
            while it owns the terminal the "user" waits, types Ctrl-Z (0x1a at the pty master), types Ctrl-C (0x03), or the
            job's group gets SIGTERM / SIGKILL from outside; `fg` / `bg` (no argument, +, -, number) with the same user actions
            during `fg`; `cmd &`; kill a background / stopped job from outside; `jobs`; plain lines (alias, captured, pipelines,
            command not found behind a started stage); Ctrl-C at the prompt.  A deterministic core (every job form x threads x
            suspend->fg->exit | suspend->fg->suspend->fg->Ctrl-C | suspend->bg->fg->kill ...) runs next to Hypothesis-drawn
            histories.  Oracle, every time the prompt is back: os.tcgetpgrp(tty) == the shell's process group (as seen by the
            shell right at return, a little later, and by the driver through the master); every child of the shell (running,
            stopped or zombie, <= 2 s grace) belongs to a job of the job table; no job that is not a background job still has
            running processes; the line returned within 20 s of the user action.  When the history is over every job is killed,
            `jobs` and a neutral alias are run, and descriptors, threads, signal handlers, signal mask, cwd, sys.std* must equal the state
            after the warm-up command; then Ctrl-C typed during `sleep 30` must end it and Ctrl-C typed at the prompt must raise
            KeyboardInterrupt in the shell.  All waits are polls with bounds (precondition of a user action: the job's group
            owns the terminal, all its processes are exec'ed and not stopped, the shell sleeps, stable for 0.12 s); a
            precondition that is not reached is *inconclusive*; a violation is reported only if a second fresh session
            reproduces it.
"""

from __future__ import annotations

import gc
import json
import os
import signal
import sys
import time

from vlib import common, helpers
from vlib.common import Failure, Stats

PROP = "C09"
LEVEL = "exploration"
RULE = ("sequence of 1-5 command lines, each a pipeline of 1-5 stages (26 stage kinds: external/alias x ok/failing/not-found/"
        "permission-denied/raising/big, slow and endless producer/1 MB to stderr/early exit at every position/never reads/needs EOF/"
        "unthreadable (decorated or predicted)/nested) x capture form (7) x redirect "
        "(none/valid/missing/conflicting) x $THREAD_SUBPROCS x $XONSH_CAPTURE_ALWAYS x $XONSH_SUBPROC_RAISE_ERROR x repetitions "
        "(1,3,30[,300]); before/after process snapshots at three strengths (immediate, steady-state, strict after XSH.lastcmd is "
        "displaced) + SIGINT probe; non-trivial = some pipeline has >= 2 stages or a failing/not-found/permission-denied/raising "
        "stage or a redirect error; distinct = hash of (config, command sources, repetitions).  Family jobctl: history of 1-8 job-control "
        "operations (run fg job x form x {wait, Ctrl-Z, Ctrl-C, SIGTERM, SIGKILL}, fg/bg x argument, cmd &, kill job, jobs, plain lines, "
        "Ctrl-C at the prompt) in an interactive session on its own pty; after every return to the prompt: terminal foreground group == "
        "shell's, children subset of the job table, no running non-background job; at the end state == state after warm-up and Ctrl-C "
        "interrupts; every history is non-trivial; distinct = hash of (config, operations)")

HANG_S = 20.0
GRACE_S = 2.0
JOBCTL_TASK_S = 40.0        # wall budget of one task of generated job-control histories (quick tier)

# id -> (kind label, source text, is a callable alias)
STAGES = {
    "x0": ("ext-ok", "vexit 0", False),
    "cat": ("ext-ok", "vcat", False),
    "emit": ("ext-ok", "vemit small.txt 1 0 0 0", False),
    "x3": ("ext-fail", "vexit 3", False),
    "nf": ("not-found", "nosuchcmd-c09", False),
    "np": ("noexec-on-path", "noexecp", False),
    "nd": ("noexec-dot", "./noexec", False),
    "big": ("ext-big", "vemit big.txt 1 4096 0 0", False),
    "head": ("ext-early-exit", "head -n 1", False),
    "linger": ("ext-noread", "vemit small.txt 1 0 0 0 30000", False),
    "yes": ("ext-endless", "vyes", False),                          # endless producer, ends by SIGPIPE only (never generated last)
    "slow": ("ext-slow-producer", "vemit big.txt 1 4096 300 0", False),
    "ebig": ("ext-big-stderr", "vemit big.txt 2 4096 0 0", False),  # 1 MB to stderr
    "rcat": ("ext-cat-unthreadable", "cat", False),                 # cat(1): predicted unthreadable -> plain Popen as last stage
    "wc": ("ext-reads-all", "wc -l", False),                        # needs EOF on stdin before it writes anything
    "lal": ("alias-list", "lal", False),
    "aok": ("alias-ok", "aok", True),
    "acat": ("alias-ok", "acat", True),
    "afail": ("alias-fail", "afail", True),
    "araise": ("alias-raise", "araise", True),
    "abig": ("alias-big", "abig", True),
    "ahead": ("alias-early-exit", "ahead", True),
    "aign": ("alias-noread", "aignore", True),
    "aunth": ("alias-unthreadable", "aunth", True),
    "asub": ("alias-subproc", "asub", True),
    "sal": ("alias-exec", "sal", True),
}
STAGE_IDS = list(STAGES)
FAILING = {"x3", "nf", "np", "nd", "afail", "araise"}
NOSTART = {"nf", "np"}            # found out only when the stage is launched
PRODUCERS = {"big", "abig", "yes", "slow"}
ENDLESS = {"yes"}
COPIERS = {"cat", "acat", "rcat"}                 # stdout = stdin, end at EOF (or by SIGPIPE)
NEED_EOF = COPIERS | {"wc"}                       # do not end before their stdin does
NONREADERS = {"head", "ahead", "x0", "x3", "aign", "linger", "nf", "np", "aok", "afail", "araise", "emit", "lal"}
EARLY = ["head", "x0", "x3", "linger", "emit", "ahead", "aok"]     # stages that end without reading their stdin to the end
UNTHREADABLE_LAST = {"rcat", "aunth", "yes"}      # run without a reader thread as last stage even when $THREAD_SUBPROCS is on
PIPE_CAPACITY = 65536
VOLUME = {"big": 1060000, "slow": 1060000, "abig": 208000}      # bytes written to stdout by the producers
FORMS = ["bare", "hidden", "uncap", "cap", "inject", "obj-end", "obj-rtn"]
REDIRS = {
    "valid": [("last", " > out1.txt"), ("last", " >> out2.txt"), ("any", " e> err1.txt"), ("last", " a> all1.txt"),
              ("first", " < small.txt"), ("any", " e>o"), ("last", " o>e")],
    "missing": [("last", " > nodir/out.txt"), ("any", " e> nodir/err.txt"), ("first", " < nofile.txt"),
                ("last", " > out3.txt e> nodir/err.txt"), ("last", " a> nodir/all.txt")],
    "conflict": [("last", " > a.txt > b.txt"), ("nonfirst", " < small.txt"), ("nonlast", " > a.txt"),
                 ("any", " e> e1.txt e> e2.txt")],
}
OUTFILES = ["out1.txt", "out2.txt", "out3.txt", "err1.txt", "all1.txt", "a.txt", "b.txt", "e1.txt", "e2.txt"]
ENV_IGNORE = ("LAST_RETURN_CODE",)

ALIAS_SRC = """
def _c09_asub(args, stdin=None, stdout=None):
    ![vexit 0]
    _v = $(vemit small.txt 1 0 0 0)
    stdout.write(_v)
    return 0
aliases['asub'] = _c09_asub
aliases['sal'] = 'vexit 0 && aok'
aliases['lal'] = ['vexit', '0']
"""

_state = {}


class _Timeout(BaseException):
    """BaseException and re-armed every 2 s after the first expiry: xonsh has `except Exception` and
    `except BaseException: pass` around its waits; neither may swallow the hang bound for good."""


def _alarm(signum, frame):
    raise _Timeout()


# ----------------------------------------------------------------------------------------
# worker set-up


def _setup(scratch, tty=False):
    if _state:
        return _state
    helpers.ensure()
    try:
        if tty:
            os.setsid()
        else:
            os.setpgid(0, 0)    # a stale PopenThread SIGINT handler does killpg(): keep that inside this worker
    except OSError:
        pass
    tty_fd = None
    master = None
    if tty:
        import fcntl
        import pty
        import termios
        import threading

        master, slave = pty.openpty()
        fcntl.ioctl(slave, termios.TIOCSCTTY, 0)
        # stdin stays /dev/null (a first stage that reads stdin must see EOF, not wait for a keyboard);
        # xonsh hands the terminal over through fd 2 (jobs.give_terminal_to uses FD_STDERR)
        os.dup2(os.open(os.devnull, os.O_RDONLY), 0)
        for fd in (1, 2):
            os.dup2(slave, fd)
        os.close(slave)
        tty_fd = 2
        signal.signal(signal.SIGTTOU, signal.SIG_IGN)

        def drain():
            while True:
                try:
                    if not os.read(master, 65536):
                        return
                except OSError:
                    return

        t = threading.Thread(target=drain, name="c09-pty-drain", daemon=True)
        t.start()
    else:
        os.dup2(os.open(os.devnull, os.O_RDONLY), 0)
        w = os.open(os.devnull, os.O_WRONLY)
        os.dup2(w, 1)
        os.dup2(w, 2)
        os.close(w)
    from vlib import c09_observe as ob
    from vlib import session

    _start_exit_watchdog()
    mode = ob.self_test()
    if mode is None:
        raise common.HarnessError("C09: cannot observe child processes through /proc")
    cwd = _make_cwd(scratch)
    signal.signal(signal.SIGALRM, _alarm)
    signal.signal(signal.SIGINT, signal.default_int_handler)
    _state.update(
        ob=ob, session=session, scratch=scratch, cwd=cwd, tty_fd=tty_fd, master=master, children_mode=mode,
        std=(sys.stdin, sys.stdout, sys.stderr), handlers=ob.handlers(), tainted=None,
        open={e["id"] for e in common.load_known(PROP) if e.get("status") == "open"})
    return _state


def _make_cwd(scratch):
    cwd = os.path.join(scratch, "c09cwd-%d" % os.getpid())
    os.makedirs(os.path.join(cwd, "pathdir"), exist_ok=True)
    with open(os.path.join(cwd, "big.txt"), "w") as f:
        for i in range(20000):
            f.write("line %06d %s\n" % (i, "x" * 40))
    with open(os.path.join(cwd, "small.txt"), "w") as f:
        f.write("one\ntwo\n")
    for p in ("noexec", "pathdir/noexecp"):
        with open(os.path.join(cwd, p), "w") as f:
            f.write("#!/bin/sh\nexit 0\n")
        os.chmod(os.path.join(cwd, p), 0o644)
    os.chdir(cwd)
    return cwd


def _setup_files(scratch):
    """Set-up of a worker that only *drives* sessions on ptys (family jobctl): helper programs, the working
    directory with its data files, xonsh imported and the parser built once (every session is a fork of
    this process).  No thread is started and the worker's own descriptors 0/1/2 go to /dev/null."""
    if _state:
        return _state
    helpers.ensure()
    os.dup2(os.open(os.devnull, os.O_RDONLY), 0)
    w = os.open(os.devnull, os.O_WRONLY)
    os.dup2(w, 1)
    os.dup2(w, 2)
    os.close(w)
    from vlib import c09_observe as ob
    from vlib import session

    cwd = _make_cwd(scratch)
    ex = session.get_execer()
    # xonsh builds the yacc parser on a loader thread: a session forked before that thread is done would wait for it for ever
    loader = getattr(getattr(ex, "parser", None), "_yacc_loader", None)
    if loader is not None:
        loader.join(300)
    import threading

    t0 = time.monotonic()
    while threading.active_count() > 1 and time.monotonic() - t0 < 30:
        time.sleep(0.01)
    if threading.active_count() > 1:
        raise common.HarnessError("C09 jobctl: the worker still has helper threads (%s); forking sessions from it is not safe"
                                  % [t.name for t in threading.enumerate()])
    _state.update(ob=ob, session=session, scratch=scratch, cwd=cwd, tty_fd=None, interactive=True, master=None, tainted=None,
                  open={e["id"] for e in common.load_known(PROP) if e.get("status") == "open"})
    return _state


def _start_exit_watchdog():
    """ProcProxyThread is a non-daemon thread: one that is left blocked for ever (which is what the check
    is looking for) would also keep this worker from exiting after it has delivered its result.  A daemon
    thread ends the process once the main thread has finished."""
    import threading

    def watch():
        main = threading.main_thread()
        while main.is_alive():
            time.sleep(0.25)
        time.sleep(1.0)
        os._exit(0)

    threading.Thread(target=watch, name="c09-exit-watchdog", daemon=True).start()


def _aliases():
    from xonsh.tools import unthreadable

    def aok(args, stdin=None, stdout=None):
        stdout.write("ok\n")
        return 0

    def afail(args, stdin=None, stdout=None):
        return 3

    def araise(args, stdin=None, stdout=None):
        raise ValueError("c09 boom")

    def abig(args, stdin=None, stdout=None):
        line = "alias line %s\n" % ("y" * 40)
        for _ in range(4000):
            stdout.write(line)
        return 0

    def ahead(args, stdin=None, stdout=None):
        if stdin is not None:
            stdout.write(stdin.readline())
        return 0

    def acat(args, stdin=None, stdout=None):
        if stdin is not None:
            for ln in stdin:
                stdout.write(ln)
        return 0

    def aignore(args, stdin=None, stdout=None):
        stdout.write("ign\n")
        return 0

    def aneutral(args, stdin=None, stdout=None):
        return 0

    @unthreadable
    def aunth(args, stdin=None, stdout=None):
        stdout.write("unth\n")
        return 0

    return {f.__name__: f for f in (aok, afail, araise, abig, ahead, acat, aignore, aneutral, aunth)}


def fresh_session(cfg):
    st = _state
    session = st["session"]
    extra = {"THREAD_SUBPROCS": bool(cfg.get("thread", True)), "XONSH_SUBPROC_RAISE_ERROR": bool(cfg.get("raise", True))}
    if cfg.get("capture_always"):
        extra["XONSH_CAPTURE_ALWAYS"] = True
    if st["tty_fd"] is not None or st.get("interactive"):
        extra["XONSH_INTERACTIVE"] = True
    XSH = session.load_session(st["scratch"], path=[session.HELPER_DIR, os.path.join(st["cwd"], "pathdir"), "/usr/bin", "/bin"],
                               **extra)
    os.chdir(st["cwd"])
    XSH.env["PWD"] = st["cwd"]
    for f in OUTFILES:
        try:
            os.unlink(os.path.join(st["cwd"], f))
        except OSError:
            pass
    for k, v in _aliases().items():
        XSH.aliases[k] = v
    session.xexec(ALIAS_SRC)
    return XSH


# ----------------------------------------------------------------------------------------
# rendering


def render_pipeline(stages, redir):
    if not stages:
        return "aneutral"
    parts = [STAGES[s][1] for s in stages]
    if redir:
        _cls, idx, text = redir
        parts[idx] = parts[idx] + text
    return " | ".join(parts)


def render(cmd):
    p = render_pipeline(cmd["stages"], cmd.get("redir"))
    form = cmd["form"]
    if form == "bare":
        return p + "\n"
    if form == "hidden":
        return "![" + p + "]\n"
    if form == "uncap":
        return "$[" + p + "]\n"
    if form == "cap":
        return "_x = $(" + p + ")\n"
    if form == "inject":
        return "aneutral @$(" + p + ")\n"
    if form == "obj-end":
        return "_p = !(" + p + ")\n_p.end()\n"
    if form == "obj-rtn":
        return "_p = !(" + p + ")\n_r = _p.rtn\n"
    raise common.HarnessError("bad form %r" % form)


def mk_cmd(stages, form="bare", redir=None):
    cmd = {"stages": list(stages), "form": form, "redir": list(redir) if redir else None}
    cmd["src"] = render(cmd)
    return cmd


def case_labels(case):
    labels = []
    nontrivial = False
    cfg = case["cfg"]
    labels.append("thread:%s" % ("on" if cfg.get("thread", True) else "off"))
    if cfg.get("capture_always"):
        labels.append("capture-always")
    labels.append("raise:%s" % ("on" if cfg.get("raise", True) else "off"))
    labels.append("reps:%d" % case["reps"])
    labels.append("cmds:%d" % len(case["cmds"]))
    for cmd in case["cmds"]:
        stages = cmd["stages"]
        labels.append("stages:%d" % len(stages))
        labels.append("form:" + cmd["form"])
        for s in stages:
            labels.append("kind:" + STAGES[s][0])
        if len(stages) >= 2 or any(s in FAILING for s in stages):
            nontrivial = True
        for a, b in zip(stages, stages[1:]):
            if a in PRODUCERS and b in NONREADERS:
                labels.append("early-exit-under-producer")
        for k, x in enumerate(stages):
            if x in NONREADERS and any(y in PRODUCERS for y in stages[:k]):
                pos = "last" if k == len(stages) - 1 else "middle"
                labels.append("early-exit:%s-of-%d" % (pos, len(stages)))
                if pos == "middle" and any(y in NEED_EOF for y in stages[k + 1:]):
                    labels.append("early-exit:middle-then-reader-to-eof")
        if any(x in ENDLESS for x in stages):
            labels.append("endless-producer")
        if stages and (not cfg.get("thread", True) or stages[-1] in UNTHREADABLE_LAST):
            labels.append("last-stage:unthreaded")
        r = cmd.get("redir")
        if r:
            labels.append("redir:" + r[0])
            if r[0] != "valid":
                nontrivial = True
        else:
            labels.append("redir:none")
    return nontrivial, labels


def case_key(case):
    return (sorted(case["cfg"].items()), [c["src"] for c in case["cmds"]], case["reps"])


# ----------------------------------------------------------------------------------------
# known findings: narrow predicates on (case, level, group, problems)


def _threaded(case):
    return bool(case["cfg"].get("thread", True))


def shape_f1(case):
    """A stage that turns out not to be startable (not found / not executable) *after* an earlier stage
    of the same pipeline was started."""
    return any(s in NOSTART for cmd in case["cmds"] for s in cmd["stages"][1:])


def shape_f1_blocked_alias(case):
    """F1 shape where a threaded callable alias that has more than a pipe buffer to write (a big producer
    at or before it) precedes the stage that cannot start: its thread stays blocked in write() inside
    its stdout / SIGINT scope."""
    if not _threaded(case):
        return False
    for cmd in case["cmds"]:
        st = cmd["stages"]
        for k, s in enumerate(st):
            if s not in NOSTART:
                continue
            for j in range(k):
                if STAGES[st[j]][2] and st[j] != "aunth" and any(x in PRODUCERS for x in st[:j + 1]):
                    return True
    return False


def shape_f1_alias_before(case):
    """F1 shape where a threaded callable alias was started before the stage that cannot start: its thread is
    never joined, so it is still inside its stdout / SIGINT scope when the command returns and can overlap
    with the alias threads of the following commands."""
    if not _threaded(case):
        return False
    for cmd in case["cmds"]:
        st = cmd["stages"]
        for k, s in enumerate(st):
            if s in NOSTART and any(STAGES[x][2] and x != "aunth" for x in st[:k]):
                return True
    return False


def shape_f2(case):
    """Threaded callable alias that is not the last stage of its pipeline."""
    return _threaded(case) and any(STAGES[s][2] and s != "aunth" for cmd in case["cmds"] for s in cmd["stages"][:-1])


def shape_f3(case):
    """Two threaded callable aliases in one pipeline - their sys.stdout scopes overlap and end out of order."""
    if not _threaded(case):
        return False
    for cmd in case["cmds"]:
        n = sum(1 for s in cmd["stages"] if STAGES[s][2] and s != "aunth")
        if n >= 2:
            return True
    return False


def _alias_count(cmd):
    return sum(1 for s in cmd["stages"] if STAGES[s][2] and s != "aunth")


def shape_f4(case):
    """>= 3 stages with a big producer that has at least two stages after it."""
    return any(any(x in PRODUCERS for x in cmd["stages"][:-2]) for cmd in case["cmds"] if len(cmd["stages"]) >= 3)


def shape_f7(case):
    """Threaded callable alias that runs captured subprocesses itself, with $XONSH_SUBPROC_RAISE_ERROR on."""
    return _threaded(case) and case["cfg"].get("raise", True) and any("asub" in c["stages"] for c in case["cmds"])


def stdout_volume(stages, k):
    """Bytes stage k writes to its stdout (float('inf') for the endless producer), from the stage table."""
    s = stages[k]
    if s in ENDLESS:
        return float("inf")
    if s in COPIERS:
        return stdout_volume(stages, k - 1) if k > 0 else 0
    return VOLUME.get(s, 100)


def never_ends(stages):
    """The line is not a command that 'finishes': its last stage (the one the shell waits for) writes for ever (`vyes`,
    `vyes | vcat`), or some stage swallows an endless stream without ever writing (`vyes | wc -l | vexit 0`: wc is never
    sent SIGPIPE and keeps vyes alive - every shell leaves or waits for such a pair for ever).  Never generated."""
    inf = False                 # the stream that reaches the next stage is endless
    for s in stages:
        if s in ENDLESS:
            inf = True
        elif s in COPIERS:
            pass
        elif s == "wc":
            if inf:
                return True
            inf = False
        else:
            inf = False
    return inf


def make_finite(stages):
    """Repair of a drawn pipeline that would never end: an early-exiting stage goes behind the last endless producer."""
    stages = list(stages)
    while never_ends(stages):
        k = max(i for i, s in enumerate(stages) if s in ENDLESS)
        if k == len(stages) - 1:
            stages.append("head")
        else:
            stages[k + 1] = "head"
    return stages


def shape_f8_cmd(cmd, case):
    """`!(...)` whose last stage runs without a reader thread ($THREAD_SUBPROCS off, or a stage xonsh predicts / is told to be
    unthreadable) and gets more than one pipe capacity written into the stderr pipe `!()` gives it (its own stderr, or its
    stdout through `o>e`) - nobody drains that pipe while iterraw() waits for the process."""
    if cmd["form"] not in ("obj-end", "obj-rtn") or not cmd["stages"]:
        return False
    st = cmd["stages"]
    last = st[-1]
    if _threaded(case) and last not in UNTHREADABLE_LAST:
        return False
    if not _threaded(case) and len(st) > 1 and any(STAGES[x][2] for x in st):
        return False        # callable alias in a pipeline without threads: refused before anything is started
    r = cmd.get("redir")
    text = r[2] if r and r[1] == len(st) - 1 else ""
    if " e>" in text or " a>" in text:
        return False        # stderr goes to a file / to stdout: no stderr pipe
    to_stderr = 1060000 if last == "ebig" else 0
    if " o>e" in text:
        to_stderr += stdout_volume(st, len(st) - 1)
    return to_stderr > PIPE_CAPACITY


def shape_f8(case):
    return any(shape_f8_cmd(c, case) for c in case["cmds"])


def _avoid_f8(case):
    """Takes the recorded shape out by construction: the offending `!(...)` becomes `$(...)` (no stderr pipe)."""
    return dict(case, cmds=[mk_cmd(c["stages"], "cap", c.get("redir")) if shape_f8_cmd(c, case) else c for c in case["cmds"]])


def shape_f10_cmd(cmd, case):
    """`$[...]` (nothing captured) whose last stage is a threaded callable alias with `e>o` on it."""
    st = cmd["stages"]
    r = cmd.get("redir")
    return bool(_threaded(case) and cmd["form"] == "uncap" and st and STAGES[st[-1]][2] and st[-1] != "aunth"
                and r and r[1] == len(st) - 1 and " e>o" in r[2])


def shape_f10(case):
    return any(shape_f10_cmd(c, case) for c in case["cmds"])


def _avoid_f10(case):
    """Takes the recorded shape out by construction: the `e>o` goes."""
    return dict(case, cmds=[mk_cmd(c["stages"], c["form"], None) if shape_f10_cmd(c, case) else c for c in case["cmds"]])


def shape_f6_cmd(cmd, case):
    """Threaded callable alias inside a pipeline of >= 2 stages."""
    return _threaded(case) and len(cmd["stages"]) >= 2 and _alias_count(cmd) >= 1


def _f1_resource_problem(p, blocked_alias, redirected):
    if p.startswith(("fd-leak:", "fd-growth:")):
        return not any(k in p for k in (("->pty", "->socket", "->anon_inode") + (() if redirected else ("->file",))))
    if p.startswith(("child-unreaped:", "child-running:", "child-growth:")):
        return True
    if p.startswith(("thread-alive:", "thread-growth:")):
        return blocked_alias and "PopenThread" not in p and "Reader" not in p
    return False


def classify(case, level, group, probs, hang_cmd=None, also=(), prefer=()):
    """Id of the recorded finding this failure is an instance of (narrow predicate on the failing case), or None.
    A case can have the shape of several findings (`abig | noexecp` followed by `sal | acat` has F1's and F3's);
    when more than one predicate accepts the symptom, a finding that is still *open* (`prefer`) wins over a
    fixed one - a fixed finding must not claim (and thereby turn into a 'recurrence') what an open one explains."""
    cands = _candidates(case, level, group, probs, hang_cmd, also)
    for c in cands:
        if c in prefer:
            return c
    return cands[0] if cands else None


def _candidates(case, level, group, probs, hang_cmd, also):
    out = []
    if level == "hang":
        if hang_cmd is not None and _threaded(case) and case["cfg"].get("raise", True) and "asub" in hang_cmd["stages"]:
            out.append("C09-F7")
        if hang_cmd is not None and shape_f6_cmd(hang_cmd, case):
            out.append("C09-F6")
        if hang_cmd is not None and shape_f8_cmd(hang_cmd, case):
            out.append("C09-F8")
        return out
    if shape_f1(case):
        blocked = shape_f1_blocked_alias(case)
        redirected = any(cmd.get("redir") and cmd["redir"][0] == "valid" and any(s in NOSTART for s in cmd["stages"][cmd["redir"][1] + 1:])
                         for cmd in case["cmds"])     # a redirect file opened for an earlier stage of that pipeline
        if group == "resources" and all(_f1_resource_problem(p, blocked, redirected) for p in probs):
            out.append("C09-F1")
        if shape_f1_alias_before(case):
            if group == "std" and all(p.endswith("-> FileThreadDispatcher") for p in probs):
                out.append("C09-F1")
            if group == "sigint" and all("surfaced as None" in p and "ProcProxyThread._signal_int" in p for p in probs):
                out.append("C09-F1")
    if group == "resources" and level == "immediate" and shape_f4(case) and all(p.startswith("child-unreaped:") for p in probs):
        out.append("C09-F4")
    if group == "handler" and shape_f2(case):
        if all(p.startswith("handler SIGINT:") and p.endswith("-> ProcProxyThread._signal_int") for p in probs):
            out.append("C09-F2")
    if group == "sigint" and shape_f2(case):
        # every repetition nests one more saved handler (F2); a few hundred levels later the chain of
        # _signal_int -> _restore_sigint -> old handler calls exceeds the recursion limit
        if all("RecursionError" in p and "ProcProxyThread._signal_int" in p for p in probs):
            out.append("C09-F2")
    if group == "std" and shape_f3(case):
        if all(p.startswith(("sys.stdout replaced:", "sys.stderr replaced:")) and p.endswith("-> FileThreadDispatcher") for p in probs):
            out.append("C09-F3")
    if group == "std-closed" and shape_f3(case):
        if all(p.startswith(("closed sys.stdout:", "closed sys.stderr:")) for p in probs):
            out.append("C09-F5")
    if shape_f7(case):
        # the alias thread ends the *outer* pipeline (global XSH.lastcmd): PopenThread/ProcProxyThread clean-up runs off the main
        # thread, forgets the saved handlers without restoring them; the stale handler then swallows SIGINT
        # (which of the stale handlers are left depends on where the race ends the outer pipeline: those of the PopenThread of an
        # external stage, or only the SIGINT handler of the alias thread - _close_proc() gives that one back only when the thread
        # is no longer alive, and here the caller *is* that thread)
        if group == "handler" and all(p.startswith("handler ") and ("-> PopenThread._signal_" in p or p.endswith("-> ProcProxyThread._signal_int"))
                                      for p in probs):
            out.append("C09-F7")
        if group == "sigint" and all("surfaced as None" in p and ("PopenThread._signal_int" in p or "ProcProxyThread._signal_int" in p)
                                     for p in probs):
            out.append("C09-F7")
    if shape_f10(case):
        # iterraw() dies with AttributeError (safe_readable() on the integer that stands for `e>o`) before proc.wait():
        # the alias thread's SIGINT handler is never given back and swallows the next Ctrl-C
        if group == "handler" and all(p.startswith("handler SIGINT:") and p.endswith("-> ProcProxyThread._signal_int") for p in probs):
            out.append("C09-F10")
        if group == "sigint" and all("surfaced as None" in p and "ProcProxyThread._signal_int" in p for p in probs):
            out.append("C09-F10")
    if group == "sigint" and "std-closed" in also and shape_f3(case):
        # a non-last alias thread died printing to the closed stream: returncode None, its SIGINT handler (F2) swallows the signal
        if all("surfaced as None" in p and "ProcProxyThread._signal_int" in p for p in probs):
            out.append("C09-F5")
    return out


# ----------------------------------------------------------------------------------------
# execution


def _run_src(src):
    """-> None | 'HANG' | exception type name."""
    session = _state["session"]
    signal.setitimer(signal.ITIMER_REAL, HANG_S, 2.0)
    try:
        try:
            session.xexec(src)
            return None
        except _Timeout:
            return "HANG"
        except BaseException as e:  # noqa: BLE001
            return type(e).__name__
    finally:
        signal.setitimer(signal.ITIMER_REAL, 0)


def _group_of(problem):
    if problem.startswith(("fd-", "child-", "thread-")):
        return "resources"
    if problem.startswith("closed sys."):
        return "std-closed"
    if problem.startswith("sys."):
        return "std"
    if problem.startswith("handler "):
        return "handler"
    if problem.startswith("sigmask:"):
        return "sigmask"
    if problem.startswith("cwd:"):
        return "cwd"
    if problem.startswith("env $"):
        return "env"
    if problem.startswith("os.environ"):
        return "environ"
    if problem.startswith("terminal "):
        return "terminal"
    if problem.startswith("termios "):
        return "termios"
    return "other"


def _grouped(problems):
    out = {}
    for p in problems:
        out.setdefault(_group_of(p), []).append(p)
    return out


def _sigint_probe():
    got = None
    try:
        os.kill(os.getpid(), signal.SIGINT)
        for _ in range(400):
            time.sleep(0.005)
    except KeyboardInterrupt:
        got = "KeyboardInterrupt"
    except _Timeout:
        raise
    except BaseException as e:  # noqa: BLE001
        got = "%s: %s" % (type(e).__name__, str(e)[:80])
    return got


def _dirty():
    st = _state
    ob = st["ob"]
    out = []
    if ob.children():
        out.append("children")
    if _extra_threads():
        out.append("threads")
    if "base_fds" in st:
        cur = ob.fd_table()
        if cur != st["base_fds"]:
            out.append("descriptors %s" % sorted(set(cur.items()) ^ set(st["base_fds"].items()))[:6])
    return out


def _restore_baseline():
    """Bring the worker back to its pristine state after a case (std streams, handlers, cwd, no child,
    no helper thread, the descriptor table of the first case).  Returns a reason string when that is
    impossible; the worker then stops evaluating cases."""
    st = _state
    ob = st["ob"]
    if any(ob._is_closed(x) for x in st["std"]):
        _recreate_std()
    sys.stdin, sys.stdout, sys.stderr = st["std"]
    _neutralise_saved_handlers()
    for name, h in st["handlers"].items():
        try:
            signal.signal(getattr(signal, name), h)
        except (OSError, ValueError, TypeError):
            pass
    gc.collect()
    for name, h in st["handlers"].items():
        if signal.getsignal(getattr(signal, name)) is not h:
            signal.signal(getattr(signal, name), h)
    try:
        os.chdir(st["cwd"])
    except OSError:
        pass
    if st["tty_fd"] is not None:
        try:
            if os.tcgetpgrp(st["tty_fd"]) != os.getpgrp():
                os.tcsetpgrp(st["tty_fd"], os.getpgrp())
        except OSError:
            pass
    if not _dirty():
        return None
    # something was left behind: drop every holder xonsh has, close what xonsh still owns *through its
    # owner* (so that no later __del__ closes a recycled descriptor number), kill, reap, collect
    import subprocess

    try:
        from xonsh.built_ins import XSH
        from xonsh.procs.pipes import PipeChannel

        XSH.last = XSH.lastcmd = None
        if getattr(XSH, "interface", None) is not None:
            XSH.interface.lastcmd = None
        XSH.ctx.clear()
        XSH.all_jobs.clear()
        for o in gc.get_objects():
            if isinstance(o, PipeChannel):
                o.close()
    except Exception:  # noqa: BLE001
        pass
    gc.collect()
    t0 = time.monotonic()
    killed = False
    while time.monotonic() - t0 < 5.0:
        for pid in list(ob.children()):
            if killed or time.monotonic() - t0 > 0.3:
                try:
                    os.kill(pid, signal.SIGKILL)
                except OSError:
                    pass
            try:
                os.waitpid(pid, os.WNOHANG)
            except OSError:
                pass
        killed = killed or time.monotonic() - t0 > 0.3
        if not ob.children() and not _extra_threads():
            break
        time.sleep(0.02)
    try:
        subprocess._cleanup()
    except Exception:  # noqa: BLE001
        pass
    gc.collect()
    left = _dirty()
    if not left:
        return None
    return "could not restore a clean worker after a case (%s left behind)" % ",".join(left)


def _neutralise_saved_handlers():
    """ProcProxyThread.__del__ / PopenThread._clean_up re-install the handler the object saved when it was
    created - whenever the object happens to be finalised, also during a *later* case (finding C09-F2 leaves
    such objects behind, chained through their saved handlers).  Make every one of them forget its saved
    handlers so that a case cannot change the handlers of the cases after it."""
    try:
        from xonsh.procs.posix import PopenThread
        from xonsh.procs.proxies import ProcProxyThread
    except Exception:  # noqa: BLE001
        return
    for o in gc.get_objects():
        try:
            if isinstance(o, (ProcProxyThread, PopenThread)):
                for a in ("old_int_handler", "old_tstp_handler", "old_quit_handler", "old_winch_handler", "old_break_handler"):
                    if getattr(o, a, None) is not None:
                        setattr(o, a, None)
        except Exception:  # noqa: BLE001
            continue


def _recreate_std():
    """xonsh closed the Python object behind sys.stdout / sys.stderr (finding C09-F5).  A fresh process
    would have open ones: make new objects on the same descriptors and hand them to xonsh's dispatchers,
    which captured the originals at import time."""
    st = _state
    std = list(st["std"])
    modes = ("r", "w", "w")
    for i, x in enumerate(std):
        if st["ob"]._is_closed(x):
            std[i] = open(i, modes[i], closefd=False)
    st["std"] = tuple(std)
    try:
        import xonsh.procs.proxies as px

        px.STDOUT_DISPATCHER.default = std[1]
        px.STDERR_DISPATCHER.default = std[2]
        px.STDOUT_DISPATCHER.registry.clear()
        px.STDERR_DISPATCHER.registry.clear()
    except Exception:  # noqa: BLE001
        pass
    sys.__stdout__, sys.__stderr__ = std[1], std[2]


def _extra_threads():
    st = _state
    return [i for i in st["ob"].threads() if i not in st.get("base_threads", {})]


def check_case(case, tolerate=frozenset(), stats=None):
    """Runs one case.  -> list[Failure]  (empty when the property held at every strength)."""
    st = _state
    ob = st["ob"]
    if "base_threads" not in st:
        st["base_threads"] = ob.threads()
        st["base_fds"] = ob.fd_table()
    gc.enable()
    XSH = fresh_session(case["cfg"])
    tty_fd = st["tty_fd"]
    std0 = st["std"]
    pre = ob.snapshot(XSH, tty_fd=tty_fd, live=True)
    _run_src("aneutral\n")          # warm-up: lazy initialisations of xonsh happen here, not inside the measured window
    gc.collect()
    warm = [p for p in ob.diff_state(pre, ob.snapshot(XSH, tty_fd=tty_fd), env_ignore=ENV_IGNORE) if not p.startswith("termios ")]
    del pre
    gc.disable()

    def snap():
        return ob.snapshot(XSH, tty_fd=tty_fd)

    cmds = case["cmds"]
    failures = []
    notes = []
    found = {}          # (level, group) -> problems
    hang = None         # the command (dict) that did not return
    excs = []

    def run_sequence(record=False):
        """One pass over the command lines.  -> 'hang' | 'std-closed' | None"""
        nonlocal hang
        for cmd in cmds:
            r = _run_src(cmd["src"])
            if record:
                excs.append(r)
            if r == "HANG":
                hang = cmd
                return "hang"
            if any(ob._is_closed(x) for x in std0):
                return "std-closed"     # nothing after this point can be trusted to print; stop repeating
        return None

    def compare(level, base):
        cur, _w = ob.settle(base, snap, GRACE_S)
        res = ob.diff_resources(base, cur)
        if res:
            gc.collect()
            cur2, _w = ob.settle(base, snap, 0.2)
            res2 = ob.diff_resources(base, cur2)
            if not res2:
                notes.append("released-only-by-gc:" + level)
            res, cur = res2, cur2
        probs = res + ob.diff_state(base, cur, env_ignore=ENV_IGNORE)
        for g, ps in _grouped(probs).items():
            if g == "termios":
                # the property names terminal *ownership*; attribute changes (e.g. VSUSP left disabled) are only counted
                notes.append("termios-attributes-changed:" + level)
                continue
            found[(level, g)] = ps
        return cur

    try:
        s0 = ob.snapshot(XSH, tty_fd=tty_fd, live=True)
        stop = run_sequence(record=True)
        if stop != "hang":
            s1 = compare("immediate", s0)
            if case["reps"] > 1 and stop is None:
                for _ in range(case["reps"] - 1):
                    stop = run_sequence()
                    if stop is not None:
                        break
                if stop != "hang":
                    sn, _w = ob.settle(s0, snap, GRACE_S)
                    growth = ob.diff_counts(s1, sn)
                    if growth:
                        gc.collect()
                        sn, _w = ob.settle(s0, snap, 0.2)
                        growth2 = ob.diff_counts(s1, sn)
                        if not growth2:
                            notes.append("released-only-by-gc:steady")
                        growth = growth2
                    if growth:
                        found[("steady", "resources")] = growth
        if stop != "hang":
            r = _run_src("_p = None\n_x = None\n_r = None\naneutral\n")
            if r == "HANG":
                hang = {"src": "aneutral\n", "stages": ["aneutral"], "form": "bare", "redir": None}
                stop = "hang"
            elif r is not None and stop is None:
                found[("strict", "other")] = ["the neutral alias command raised %s" % r]
        if stop != "hang":
            compare("strict", s0)
            got = _sigint_probe()
            if got != "KeyboardInterrupt":
                found[("sigint", "sigint")] = ["a self-sent SIGINT surfaced as %r instead of KeyboardInterrupt (handler was %s)" % (
                    got, ob.describe_handler(signal.getsignal(signal.SIGINT)))]
    except _Timeout:
        hang = hang or {"src": "<harness step>", "stages": [], "form": "bare", "redir": None}
    finally:
        signal.setitimer(signal.ITIMER_REAL, 0)
        gc.enable()

    for exc in excs:
        notes.append("exc:%s" % exc)
    if warm:
        # the neutral one-stage alias command used as warm-up changed the session state all by itself
        failures.append(Failure("strict:" + _group_of(warm[0]), dict(case, cmds=[mk_cmd([], "bare")], reps=1),
                                "[neutral command `aneutral` alone] " + "; ".join(warm)[:900], bucket="warmup:" + _group_of(warm[0])))
    if hang is not None:
        closed = [n for n, x in zip(("stdin", "stdout", "stderr"), std0) if ob._is_closed(x)]
        fid = classify(case, "hang", "hang", [], hang_cmd=hang if hang.get("stages") else None, prefer=tolerate or st["open"])
        if fid is not None and fid in tolerate:
            if stats is not None:
                stats.excluded_known[fid] += 1
        else:
            failures.append(Failure("hang", case, "command did not return within %.0f s: %r%s" % (
                HANG_S, hang["src"], (" (the shell's own sys.%s object is closed)" % "/".join(closed)) if closed else ""),
                finding=fid, bucket=fid or "hang"))
        if stats is not None:
            stats.hist["hang"] += 1
    # a strict failure implies the immediate one; report the strongest only
    for (level, group), probs in sorted(found.items()):
        if level == "immediate" and ("strict", group) in found and _same_classes(found[("strict", group)], probs):
            continue
        fid = classify(case, level, group, probs, also={g for (_l, g) in found}, prefer=tolerate or st["open"])
        if fid is not None and fid in tolerate:
            if stats is not None:
                stats.excluded_known[fid] += 1
            continue
        classes = sorted({p.split(":")[0] if group not in ("env", "sigint") else group for p in probs})
        failures.append(Failure("%s:%s" % (level, group), case, "[%s] %s" % (level, "; ".join(probs)[:900]), finding=fid,
                                bucket=fid or "%s:%s:%s" % (level, group, "+".join(classes))))
    reason = _restore_baseline()
    if reason and not st["tainted"]:
        st["tainted"] = "%s after %r" % (reason, [c["src"] for c in cmds])
    if stats is not None:
        for n in notes:
            stats.hist[n] += 1
    return failures


def _same_classes(a, b):
    return {p.split(":")[0] for p in a} == {p.split(":")[0] for p in b}


# ----------------------------------------------------------------------------------------
# generators


def grid_cases():
    """Deterministic family: every single stage x form x threading, every ordered pair of stage kinds
    (form / threading / repetitions rotate with the index), each failing kind behind a 2-stage prefix."""
    i = 0
    for s in STAGE_IDS:
        for form in FORMS:
            for thread in (True, False):
                yield {"cfg": {"thread": thread, "capture_always": False, "raise": i % 3 != 0}, "cmds": [mk_cmd(make_finite([s]), form)],
                       "reps": 3 if i % 5 == 0 else 1}
                i += 1
    for a in STAGE_IDS:
        for b in STAGE_IDS:
            form = FORMS[i % len(FORMS)]
            yield {"cfg": {"thread": i % 4 != 0, "capture_always": i % 11 == 0, "raise": i % 3 != 0}, "cmds": [mk_cmd(make_finite([a, b]), form)],
                   "reps": 3 if i % 7 == 0 else 1}
            i += 1
    for s in STAGE_IDS:
        for pre in (["emit", "cat"], ["big", "acat"], ["abig", "cat"]):
            yield {"cfg": {"thread": True, "capture_always": False, "raise": i % 2 == 0}, "cmds": [mk_cmd(make_finite(pre + [s]), FORMS[i % len(FORMS)])],
                   "reps": 1}
            i += 1
    yield from early_exit_matrix(i)
    for cls, lst in REDIRS.items():
        for where, text in lst:
            for stages in (["emit"], ["emit", "cat"], ["aok"], ["abig", "acat"], ["big", "head"]):
                idx = _redir_index(where, len(stages))
                if idx is None:
                    continue
                yield {"cfg": {"thread": i % 2 == 0, "capture_always": False, "raise": True},
                       "cmds": [mk_cmd(stages, FORMS[i % len(FORMS)], [cls, idx, text])], "reps": 3 if i % 4 == 0 else 1}
                i += 1


def early_exit_matrix(i0=0):
    """Deterministic family: pipelines of 3 and 4 stages with a long / slow / endless producer in front and an
    early-exiting stage at *every* position behind it (all other stages copy stdin to stdout until EOF, the last one may
    need EOF before it writes), in every capture form, with and without threads.  Producer, early-exit kind and reader
    kind rotate with the index; at most one callable alias per pipeline (two are the recorded race F3/F5/F6)."""
    producers = ["yes", "big", "slow", "yes", "abig"]
    earlies = ["head", "x0", "linger", "x3", "emit", "ahead", "aok"]
    readers = ["cat", "rcat", "cat", "acat"]
    lasts = ["cat", "rcat", "wc", "acat", "cat"]
    j = i0
    for n in (3, 4):
        for e in range(1, n):                       # position of the early-exiting stage
            for form in FORMS:
                for thread in (True, False):
                    for _rot in (0, 1):
                        j += 1
                        prod = producers[j % len(producers)]
                        if STAGES[prod][2] and not thread:
                            prod = "big"
                        early = earlies[(j // 2) % len(earlies)]
                        if STAGES[early][2] and (not thread or STAGES[prod][2]):
                            early = "head"
                        alias_used = STAGES[prod][2] or STAGES[early][2]
                        stages = [prod]
                        for k in range(1, n):
                            if k == e:
                                x = early
                            else:
                                x = lasts[(j + k) % len(lasts)] if k == n - 1 else readers[(j + k) % len(readers)]
                                if STAGES[x][2] and (alias_used or not thread):
                                    x = "cat"
                                alias_used = alias_used or STAGES[x][2]
                            stages.append(x)
                        stages = make_finite(stages)
                        yield {"cfg": {"thread": thread, "capture_always": j % 13 == 0, "raise": j % 3 != 0}, "cmds": [mk_cmd(stages, form)],
                               "reps": 3 if j % 9 == 0 else 1}


def _redir_index(where, n, pick=0):
    if where == "last":
        return n - 1
    if where == "first":
        return 0
    if where == "any":
        return pick % n
    if where == "nonfirst":
        return None if n < 2 else 1 + pick % (n - 1)
    if where == "nonlast":
        return None if n < 2 else pick % (n - 1)
    return None


def case_strategy(tier):
    from hypothesis import strategies as hs

    stage = hs.sampled_from(STAGE_IDS)
    reps = hs.sampled_from([1] * 20 + [3] * 16 + [30] * 4 + ([300] if tier == "thorough" else []))

    @hs.composite
    def pipeline(draw):
        shape = draw(hs.sampled_from(["free"] * 3 + ["producer", "early"]))
        if shape == "producer":
            pre = draw(hs.lists(stage, max_size=1))
            post = draw(hs.lists(stage, max_size=1))
            stages = pre + [draw(hs.sampled_from(sorted(PRODUCERS))), draw(hs.sampled_from(sorted(NONREADERS)))] + post
        elif shape == "early":
            # producer, then copy stages with an early-exiting stage at any position among them, optionally a second one
            n = draw(hs.sampled_from([3, 3, 4, 4, 5]))
            stages = [draw(hs.sampled_from(sorted(PRODUCERS)))]
            stages += [draw(hs.sampled_from(sorted(NEED_EOF))) for _ in range(n - 1)]
            stages[draw(hs.integers(1, n - 1))] = draw(hs.sampled_from(EARLY))
            if draw(hs.booleans()):
                stages[draw(hs.integers(1, n - 1))] = draw(hs.sampled_from(EARLY))
        else:
            n = draw(hs.sampled_from([1, 1, 1, 2, 2, 2, 2, 3, 3, 4]))
            stages = [draw(stage) for _ in range(n)]
        stages = make_finite(stages)
        form = draw(hs.sampled_from(FORMS))
        redir = None
        if draw(hs.integers(0, 9)) < 3:
            cls = draw(hs.sampled_from(["valid", "missing", "conflict"]))
            where, text = draw(hs.sampled_from(REDIRS[cls]))
            idx = _redir_index(where, len(stages), draw(hs.integers(0, 3)))
            if idx is not None and stages[idx] not in ENDLESS:      # an endless producer is never pointed at a file
                redir = [cls, idx, text]
        return mk_cmd(stages, form, redir)

    @hs.composite
    def cases(draw):
        cfg = {"thread": draw(hs.sampled_from([True, True, False])),
               "capture_always": draw(hs.sampled_from([False] * 6 + [True])),
               "raise": draw(hs.booleans())}
        n = draw(hs.sampled_from([1, 1, 1, 2, 3, 4, 5]))
        cmds = [draw(pipeline()) for _ in range(n)]
        r = draw(reps)
        if r == 300 and n > 2:
            r = 30
        if r == 30 and n > 3:
            r = 3
        return {"cfg": cfg, "cmds": cmds, "reps": r}

    return cases()


# ----------------------------------------------------------------------------------------
# family jobctl: histories of job-control operations on a real terminal (vlib/c09_tty.py)


def run_history_case(case, log=None):
    """One history in one fresh session (a fork of this worker on a fresh pty).  -> result dict of c09_tty.run_history"""
    from vlib import c09_tty as tt

    st = _state
    cfg = case["cfg"]

    def fork_session(ctl_r, res_w):
        tt.session_main(ctl_r, res_w, lambda: fresh_session(cfg), st["ob"])

    return tt.run_history(fork_session, case["ops"], log=log)


def shape_f9(case):
    """`$[...]` job suspended with Ctrl-Z (then resumed with fg / bg)."""
    return any(op["op"] == "run" and op.get("form") == "uncap" and op.get("during") == "suspend" for op in case["ops"])


def shape_f11(case):
    """Background pipeline (`&`) whose stages do not end together by themselves: the last stage needs EOF from the first
    (`sleep 0.3 | vcat &`), or the first is still writing when the last has ended (`vemit big.txt ... | sleep 0.3 &`)."""
    return any(op["op"] == "amp" and op["job"] in ("sc", "bs") and op["dur"] == "short" for op in case["ops"])


def _avoid_f11(case):
    return dict(case, ops=[dict(op, job="ss") if (op["op"] == "amp" and op["job"] in ("sc", "bs") and op["dur"] == "short") else op
                           for op in case["ops"]])


def classify_jobctl(case, bucket, text):
    if bucket.startswith("fg-child-running:") and "created by `$[" in text and shape_f9(case):
        return "C09-F9"
    if bucket.split(":")[0] in ("child-running", "child-unreaped", "final-children", "final-fds", "final-jobs") and shape_f11(case):
        return "C09-F11"
    return None


def history_labels(case):
    labels = ["jobctl", "thread:%s" % ("on" if case["cfg"].get("thread") else "off"), "ops:%d" % len(case["ops"])]
    return labels


def history_key(case):
    return ("jobctl", sorted(case["cfg"].items()), json.dumps(case["ops"], sort_keys=True))


def grid_histories():
    """Deterministic core: every job form x threading x {suspend -> fg -> exits | suspend -> fg -> suspend -> fg -> Ctrl-C |
    suspend -> bg -> fg -> killed | & -> fg -> suspend -> bg -> killed from outside}, the multi-stage jobs, plain lines in between."""
    def run(job="s", dur="long", form="bare", during="suspend"):
        return {"op": "run", "job": job, "dur": dur, "form": form, "during": during}

    def fg(during="wait", arg=""):
        return {"op": "fg", "arg": arg, "during": during}

    bg = {"op": "bg", "arg": ""}
    i = 0
    for thread in (False, True):
        for form in ("bare", "hidden", "cap", "uncap"):
            seqs = [
                [run(dur="short", form=form), fg("wait")],
                [run(form=form), fg("suspend"), fg("ctrlc")],
                [run(form=form), bg, {"op": "plain", "cmd": "pipe"}, fg("kill")],
                [run(form=form, during="ctrlc"), run(form=form, during="term"), run(dur="short", form=form, during="wait")],
            ]
            for ops in seqs:
                yield {"cfg": {"thread": thread, "capture_always": False, "raise": i % 2 == 0}, "ops": ops}
                i += 1
        seqs = [
            [{"op": "amp", "job": "s", "dur": "long"}, fg("suspend"), bg, {"op": "killjob", "which": 0, "sig": "SIGTERM"}, {"op": "jobs"}],
            [{"op": "amp", "job": "s", "dur": "short"}, {"op": "amp", "job": "s", "dur": "long"}, fg("ctrlc", "-"), fg("wait", "+")],
            [run(), run(), fg("kill", "-"), {"op": "ctrlc-prompt"}, fg("ctrlc")],
            [run(), {"op": "killjob", "which": 0, "sig": "SIGKILL"}, {"op": "plain", "cmd": "ok"}, {"op": "ctrlc-prompt"}],
            [run(), {"op": "killjob", "which": 0, "sig": "SIGHUP"}, {"op": "jobs"}],
            [{"op": "amp", "job": "s", "dur": "long"}, {"op": "plain", "cmd": "ok"}, {"op": "plain", "cmd": "pipe-notfound"},
             {"op": "plain", "cmd": "cap"}, {"op": "killjob", "which": 0, "sig": "SIGKILL"}, {"op": "plain", "cmd": "pipe-fail"}],
            [run(form="uncap"), {"op": "plain", "cmd": "early"}, {"op": "killjob", "which": 0, "sig": "SIGTERM"}, {"op": "plain", "cmd": "cap-fail"}],
            [{"op": "objlive"}, {"op": "ctrlc-prompt"}, run(dur="short"), {"op": "objlive"}, fg("wait")],
        ]
        for job in ("es", "sc", "ss", "bs"):
            seqs.append([run(job=job, dur="short"), fg("wait")])
            seqs.append([run(job=job), bg, fg("ctrlc")])
            seqs.append([{"op": "amp", "job": job, "dur": "long"}, fg("suspend"), fg("term")])
        for ops in seqs:
            yield {"cfg": {"thread": thread, "capture_always": False, "raise": i % 2 == 0}, "ops": ops}
            i += 1


def history_strategy(tier):
    from hypothesis import strategies as hs

    from vlib import c09_tty as tt

    job = hs.sampled_from(["s"] * 5 + ["es", "sc", "ss", "bs"])
    dur = hs.sampled_from(["short", "long", "long"])
    form = hs.sampled_from(["bare", "bare", "hidden", "uncap", "cap"])
    during = hs.sampled_from(["wait", "suspend", "suspend", "ctrlc", "term", "kill"])
    arg = hs.sampled_from(["", "", "", "+", "-", "1", "2"])
    run = hs.builds(lambda j, d, f, a: {"op": "run", "job": j, "dur": d, "form": f, "during": a}, job, dur, form, during)
    suspend = hs.builds(lambda j, d, f: {"op": "run", "job": j, "dur": d, "form": f, "during": "suspend"}, job, dur, form)
    amp = hs.builds(lambda j, d: {"op": "amp", "job": j, "dur": d}, job, dur)
    fg = hs.builds(lambda a, w: {"op": "fg", "arg": a, "during": w}, arg, during)
    bg = hs.builds(lambda a: {"op": "bg", "arg": a}, arg)
    kill = hs.builds(lambda w, s: {"op": "killjob", "which": w, "sig": s}, hs.integers(0, 2), hs.sampled_from(["SIGKILL", "SIGTERM", "SIGHUP"]))
    plain = hs.builds(lambda c: {"op": "plain", "cmd": c}, hs.sampled_from(sorted(tt.PLAIN)))
    other = hs.one_of(plain, plain, hs.just({"op": "jobs"}), hs.just({"op": "ctrlc-prompt"}), kill, run, hs.just({"op": "objlive"}))
    phrase = hs.one_of(
        hs.tuples(suspend, hs.one_of(fg, fg, bg)).map(list),
        hs.tuples(suspend, other, hs.one_of(fg, bg)).map(list),
        hs.tuples(amp, hs.one_of(fg, fg, kill, other)).map(list),
        hs.tuples(suspend, bg, fg).map(list),
        other.map(lambda o: [o]),
        fg.map(lambda o: [o]),
    )

    @hs.composite
    def histories(draw):
        cfg = {"thread": draw(hs.booleans()), "capture_always": False, "raise": draw(hs.booleans())}
        ops = []
        for ph in draw(hs.lists(phrase, min_size=1, max_size=3)):
            ops += ph
        return {"cfg": cfg, "ops": ops[:8]}

    return histories()


def shape_f9_resumed(case):
    """... and an fg / bg later in the history (which may resume it)."""
    seen = False
    for op in case["ops"]:
        if op["op"] == "run" and op.get("form") == "uncap" and op.get("during") == "suspend":
            seen = True
        elif seen and op["op"] in ("fg", "bg"):
            return True
    return False


def _avoid_f9(case):
    """The recorded shape is taken out by construction: once a `$[...]` job has been suspended no fg / bg follows
    (`jobs` instead); suspending it, and killing it while it is stopped, stay in."""
    ops = []
    seen = False
    for op in case["ops"]:
        if op["op"] == "run" and op.get("form") == "uncap" and op.get("during") == "suspend":
            seen = True
        elif seen and op["op"] in ("fg", "bg"):
            op = {"op": "jobs"}
        ops.append(op)
    return dict(case, ops=ops)


def check_history(case, tolerate=frozenset(), stats=None, confirm=True):
    """-> list[Failure].  Anything timing-dependent is reproduced in a second fresh session before it is reported."""
    res = run_history_case(case)
    if stats is not None:
        for lb in set(res["labels"]):
            stats.hist["jobctl:" + lb] += 1
        stats.hist["jobctl-seconds"] += int(round(res.get("seconds", 0)))
    if res["inconclusive"]:
        if stats is not None:
            stats.inconclusive += 1
            stats.hist["jobctl-inconclusive"] += 1
            if len(stats.notes) < 5:
                stats.notes.append("jobctl inconclusive: %s" % res["inconclusive"][:300])
        return []
    if not res["problems"]:
        return []
    buckets = {b for b, _t in res["problems"]}
    if confirm:
        again = run_history_case(case)
        if stats is not None:
            stats.hist["jobctl-seconds"] += int(round(again.get("seconds", 0)))
        if {b for b, _t in again["problems"]} != buckets:
            if stats is not None:
                stats.hist["jobctl-not-reproduced"] += 1
                stats.inconclusive += 1
                if len(stats.notes) < 5:
                    stats.notes.append("jobctl: not reproduced in a second session: %s on %s" % (
                        res["problems"][0][1][:200], [_describe(o) for o in case["ops"]]))
            return []
    fails = []
    for bucket, text in res["problems"]:
        fid = classify_jobctl(case, bucket, text)
        if fid is not None and fid in tolerate:
            if stats is not None:
                stats.excluded_known[fid] += 1
            continue
        detail = "[jobctl, $THREAD_SUBPROCS=%s] %s | history: %s" % (case["cfg"].get("thread"), text, " ; ".join(res["trace"]))
        fails.append(Failure("jobctl:" + bucket.split(":")[0], dict(case, family="jobctl"), detail[:1800], finding=fid, bucket=fid or "jobctl:" + bucket))
    return fails


def _describe(op):
    from vlib import c09_tty as tt

    return tt.describe_op(op)


def _shrink_history(f, budget=6):
    """Drop operations (last first) while the same bucket is still reported."""
    cur = f
    steps = 0
    progress = True
    while progress and steps < budget and len(cur.case["ops"]) > 1:
        progress = False
        for i in reversed(range(len(cur.case["ops"]))):
            steps += 1
            if steps > budget:
                break
            cand = dict(cur.case, ops=cur.case["ops"][:i] + cur.case["ops"][i + 1:])
            got = [g for g in check_history(cand, confirm=False) if g.bucket == cur.bucket]
            if got:
                cur = got[0]
                progress = True
                break
    return cur


def _evaluate_history(case, st, family):
    s = _state
    if s.get("failing_cases", 0) >= MAX_FAILING_CASES:
        st.discards += 1
        return
    open_ids = s["open"]
    if "C09-F9" in open_ids and shape_f9_resumed(case):
        st.excluded_known["C09-F9"] += 1
        case = _avoid_f9(case)
    if "C09-F11" in open_ids and shape_f11(case):
        st.excluded_known["C09-F11"] += 1
        case = _avoid_f11(case)
    fails = check_history(case, tolerate=open_ids, stats=st)
    st.case(history_key(case), True, [family] + history_labels(case),
            sample={"cfg": case["cfg"], "ops": [_describe(o) for o in case["ops"]]}, max_per_label=2)
    for f in fails:
        st.fail(f)
    if any(not (f.finding and f.finding in open_ids) for f in fails):
        # a hang costs the full bound twice (it is confirmed in a second session): one is enough for one task
        s["failing_cases"] = s.get("failing_cases", 0) + (MAX_FAILING_CASES if any(f.kind == "jobctl:hang" for f in fails) else 2)


def _finish_histories(st):
    best = {}
    for f in st.failures:
        b = best.get(f.bucket)
        if b is None or len(f.case["ops"]) < len(b.case["ops"]):
            best[f.bucket] = f
    out = []
    for n, f in enumerate(best.values()):
        if n < 2 and f.kind != "jobctl:hang" and not (f.finding and f.finding in _state["open"]):
            f = _shrink_history(f)
        out.append(f)
    st.failures = out


def worker_jobctl(arg):
    kind, a, b, scratch, tier = arg
    _setup_files(scratch)
    st = Stats()
    if kind == "grid":
        shard, nshards = a, b
        for i, case in enumerate(grid_histories()):
            if i % nshards == shard:
                _evaluate_history(case, st, "jobctl-grid")
    else:
        seed, n = a, b
        deadline = time.monotonic() + (JOBCTL_TASK_S if tier == "quick" else 10 * JOBCTL_TASK_S)

        def body(case):
            if time.monotonic() > deadline:
                st.hist["jobctl-budget-skipped"] += 1
                return
            _evaluate_history(case, st, "jobctl-generated")

        common.run_given(history_strategy(tier), body, seed, n)
        if st.hist["jobctl-budget-skipped"]:
            st.inconclusive += 1
            st.notes.append("jobctl: a task hit its wall budget, %d drawn histories were not run" % st.hist["jobctl-budget-skipped"])
    _finish_histories(st)
    return st


# ----------------------------------------------------------------------------------------
# workers


def _keep(case, one_in):
    return int(common.h64(case_key(case)), 16) % one_in == 0


MAX_FAILING_CASES = 8       # per task: enough evidence; every further failing case costs grace periods and restores


def _evaluate(case, st, family):
    s = _state
    if s["tainted"]:
        st.discards += 1
        return
    if s.get("failing_cases", 0) >= MAX_FAILING_CASES:
        if not s.get("stopped_note"):
            st.notes.append("task stopped evaluating after %d failing cases" % MAX_FAILING_CASES)
            s["stopped_note"] = True
        st.discards += 1
        return
    open_ids = s["open"]
    # Shapes of open findings are thinned out (not removed): each instance costs seconds (full grace period, the
    # 3 s stall of F4, a 30 s hang for the races F5/F6) and adds nothing once the finding is recorded.
    if "C09-F1" in open_ids and shape_f1(case) and not _keep(case, 8):
        st.excluded_known["C09-F1"] += 1
        return
    if "C09-F4" in open_ids and shape_f4(case) and not _keep(case, 8):
        st.excluded_known["C09-F4"] += 1
        return
    racy = [f for f in ("C09-F3", "C09-F5", "C09-F6") if f in open_ids]
    if racy and shape_f3(case):
        if not _keep(case, 3):
            for f in racy:
                st.excluded_known[f] += 1
            return
        if case["reps"] > 3:
            case = dict(case, reps=3)
    if "C09-F8" in open_ids and shape_f8(case):
        st.excluded_known["C09-F8"] += 1
        case = _avoid_f8(case)
    if "C09-F10" in open_ids and shape_f10(case):
        st.excluded_known["C09-F10"] += 1
        case = _avoid_f10(case)
    if "C09-F7" in open_ids and shape_f7(case) and case["reps"] > 3:
        st.excluded_known["C09-F7"] += 1
        case = dict(case, reps=3)
    if case["reps"] > 3 and (("C09-F1" in open_ids and shape_f1(case)) or ("C09-F4" in open_ids and shape_f4(case))):
        case = dict(case, reps=3 if shape_f1(case) and not shape_f4(case) else 1)    # F4: every repetition stalls 3 s per stage
    nontrivial, labels = case_labels(case)
    fails = check_case(case, tolerate=open_ids, stats=st)
    st.case(case_key(case), nontrivial, [family] + labels, sample={"cfg": case["cfg"], "src": [c["src"] for c in case["cmds"]],
                                                                   "reps": case["reps"]} if nontrivial else None, max_per_label=2)
    for f in fails:
        st.fail(f)
    if any(not (f.finding and f.finding in open_ids) for f in fails):
        # an unattributed hang costs the full bound (and leaves a worker that is hard to clean): one is enough for one task
        s["failing_cases"] = s.get("failing_cases", 0) + (MAX_FAILING_CASES if any(f.kind == "hang" for f in fails) else 1)


def _dedupe(st):
    best = {}
    for f in st.failures:
        b = best.get(f.bucket)
        size = (len(f.case["cmds"]), sum(len(c["stages"]) for c in f.case["cmds"]), f.case["reps"])
        if b is None or size < b[0]:
            best[f.bucket] = (size, f)
    st.failures = [f for _sz, f in best.values()]


def _shrink(st, tier, seed):
    """Minimise one representative per bucket (structure shrink: drop commands, stages, redirects,
    repetitions; keep the same bucket)."""
    out = []
    t0 = time.monotonic()
    for n, f in enumerate(st.failures):
        if _state["tainted"] or f.kind == "hang" or (f.finding and f.finding in _state["open"]) or n >= 3 or \
                time.monotonic() - t0 > 20 or not f.case["cmds"][0]["stages"]:
            out.append(f)
            continue
        out.append(_shrink_one(f, budget=12))
    st.failures = out


def _variants(case):
    cmds = case["cmds"]
    if case["reps"] > 1:
        yield dict(case, reps=1)
        if case["reps"] > 3:
            yield dict(case, reps=3)
    if len(cmds) > 1:
        for i in range(len(cmds)):
            yield dict(case, cmds=cmds[:i] + cmds[i + 1:])
    for i, c in enumerate(cmds):
        if c.get("redir"):
            yield dict(case, cmds=cmds[:i] + [mk_cmd(c["stages"], c["form"], None)] + cmds[i + 1:])
        if len(c["stages"]) > 1 and not c.get("redir"):
            for j in range(len(c["stages"])):
                yield dict(case, cmds=cmds[:i] + [mk_cmd(c["stages"][:j] + c["stages"][j + 1:], c["form"], None)] + cmds[i + 1:])
        if c["form"] != "bare":
            yield dict(case, cmds=cmds[:i] + [mk_cmd(c["stages"], "bare", c.get("redir"))] + cmds[i + 1:])
    cfg = case["cfg"]
    if cfg.get("capture_always"):
        yield dict(case, cfg=dict(cfg, capture_always=False))


def _shrink_one(f, budget=40):
    cur = f
    steps = 0
    progress = True
    while progress and steps < budget and not _state["tainted"]:
        progress = False
        for cand in _variants(cur.case):
            steps += 1
            if steps > budget:
                break
            got = [g for g in check_case(cand) if g.bucket == cur.bucket or (cur.finding and g.finding == cur.finding)]
            if got:
                cur = got[0]
                progress = True
                break
    return cur


def worker_grid(arg):
    shard, nshards, scratch, tier = arg
    _setup(scratch)
    st = Stats()
    for i, case in enumerate(grid_cases()):
        if i % nshards != shard:
            continue
        _evaluate(case, st, "grid")
    _dedupe(st)
    _shrink(st, tier, 0)
    if _state["tainted"]:
        st.notes.append("worker stopped early: %s" % _state["tainted"])
        st.inconclusive += 1
    return st


def worker_random(arg):
    seed, n, scratch, tier, tty = arg
    _setup(scratch, tty=tty)
    st = Stats()
    family = "tty" if tty else "generated"

    def body(case):
        _evaluate(case, st, family)

    common.run_given(case_strategy(tier), body, seed, n)
    _dedupe(st)
    _shrink(st, tier, seed)
    if _state["tainted"]:
        st.notes.append("worker stopped early: %s" % _state["tainted"])
        st.inconclusive += 1
    if tty:
        st.hist["tty-worker-ran"] += 1
    return st


def worker_one(arg):
    """Replay of a single case in a fresh process.  -> {'failures': [...]}"""
    case, scratch = arg
    if "ops" in case:
        _setup_files(scratch)
        fails = check_history(case)
    else:
        _setup(scratch)
        fails = check_case(case)
    return {"failures": [f.to_json() for f in fails]}


def worker_any(arg):
    """One pool for everything, so that the slow replays (a hang costs the full bound) overlap with the campaign."""
    kind, payload = arg
    t0 = time.time()
    if kind == "replay":
        res = worker_one(payload)
        res["seconds"] = time.time() - t0
        return res
    st = worker_grid(payload) if kind == "grid" else worker_jobctl(payload) if kind == "jobctl" else worker_random(payload)
    st.hist["worker-seconds:" + kind] += int(time.time() - t0)
    return st


# ----------------------------------------------------------------------------------------


def _replay_in_worker(run, case):
    res = common.pool_map(run, __name__, "worker_one", [(case, run.scratch)], procs=1)[0]
    return [Failure.from_json(d) for d in res["failures"]]


def _normalise(case):
    case = dict(case)
    case.setdefault("cfg", {})
    case.setdefault("reps", 1)
    cmds = []
    if "ops" in case:
        case.setdefault("cfg", {})
        return case
    for c in case["cmds"]:
        c = dict(c)
        c.setdefault("form", "bare")
        c.setdefault("redir", None)
        if "src" not in c:
            c["src"] = render(c)
        cmds.append(c)
    case["cmds"] = cmds
    return case


def _pool_map(run, funcname, args, procs):
    """common.pool_map with one fresh process per task (max_tasks_per_child=1): a worker that could not be brought
    back to a clean state after a case (an unkillable helper thread spinning after a hang) stops evaluating; with a
    process per task that costs the rest of one small task, not the rest of the campaign."""
    import concurrent.futures as cf
    import multiprocessing as mp

    out = []
    with cf.ProcessPoolExecutor(max_workers=procs, mp_context=mp.get_context("spawn"), max_tasks_per_child=1) as ex:
        futs = []
        for i, a in enumerate(args):
            sc = os.path.join(run.scratch, "w%d" % i)
            os.makedirs(sc, exist_ok=True)
            futs.append(ex.submit(common._pool_entry, (__name__, funcname, a, sc, False)))
        for fu in futs:
            out.append(fu.result())
    for d in out:
        if isinstance(d, dict) and "evaluations" in d and "nontrivial" in d:
            run.stats.merge(d)
    return out


def _committed_replays():
    import glob

    out = []
    for path in sorted(glob.glob(os.path.join(common.REPLAY_DIR, PROP, "*.json"))):
        if os.path.basename(path).startswith("violation-"):
            continue
        with open(path) as f:
            body = json.load(f)
        out.append(_normalise(body.get("case", body)))
    return out


def main(run):
    helpers.ensure()
    nw = max(1, min(16, int(os.environ.get("C09_WORKERS") or os.environ.get("VERIF_PROCS") or 16)))
    per = int(os.environ.get("C09_PER") or run.n(60, 250))      # C09_PER: development override only
    replays = _committed_replays()
    tasks = [("replay", (c, run.scratch)) for c in replays]
    # job-control histories on ptys: mostly waiting (polling), started first so that they overlap with the CPU-bound families
    nj = 8
    tasks += [("jobctl", ("grid", i, nj, run.scratch, run.tier)) for i in range(nj)]
    tasks += [("jobctl", ("random", common.worker_seed(run.seed, 200000 + w), run.n(10, 30), run.scratch, run.tier)) for w in range(nj)]
    tasks += [("grid", (i, 16, run.scratch, run.tier)) for i in range(16)]
    chunk = 60 if run.tier == "quick" else 200
    nrandom = max(1, (per * 16) // chunk)
    tasks += [("random", (common.worker_seed(run.seed, w), chunk, run.scratch, run.tier, False)) for w in range(nrandom)]
    results = _pool_map(run, "worker_any", tasks, nw)
    stash = {json.dumps(c, sort_keys=True): [Failure.from_json(d) for d in r["failures"]] for c, r in zip(replays, results)}

    def replay_fn(case):
        fails = stash.get(json.dumps(_normalise(case), sort_keys=True))
        if fails is None:
            fails = _replay_in_worker(run, _normalise(case))
        if not fails:
            return None
        # the committed replay of a finding must fail *as that finding*; anything else it shows is reported too
        known = [f for f in fails if f.finding]
        for f in fails:
            if not f.finding:
                run.stats.fail(f)
        return known[0] if known else fails[0]

    common.replay_tier(run, replay_fn)
    if run.tier == "thorough":
        try:
            _pool_map(run, "worker_random",
                      [(common.worker_seed(run.seed, 100000 + w), min(per, 125), run.scratch, run.tier, True) for w in range(8)], 4)
            run.extra["terminal_ownership"] = "covered: pty-owning workers, tcgetpgrp + termios attributes in every snapshot"
        except common.HarnessError as e:
            run.extra["terminal_ownership"] = "NOT covered: pty worker failed (%s)" % str(e)[-300:]
    else:
        run.extra["terminal_ownership"] = ("covered by family jobctl (interactive sessions on their own ptys: tcgetpgrp after every return to the "
                                           "prompt); the pty-owning worker for the pipeline-shape cases runs in the thorough tier only")
    run.extra["strengths"] = {
        "immediate": "after the command(s), grace poll <= %.0f s" % GRACE_S,
        "steady": "counts after N repetitions <= counts after 1 repetition",
        "strict": "after one neutral alias command displaced XSH.lastcmd and the check's own variables were dropped"}
    run.assumptions += [
        "helper threads and children get a grace period of %.0f s after the command returns before they count as left behind" % GRACE_S,
        "a hang is a command that does not return within %.0f s (typical cost 5-50 ms; xonsh's own internal waits add up to 9 s)" % HANG_S,
        "!(...) objects are always ended (.end() / .rtn); an un-ended !(...) is a still-running pipeline, outside the property",
        "background (&) pipelines are not generated (the property speaks of foreground children)",
        "the environment is compared by effective value; 'unset' becoming 'set to its default' after env.swap() is C11-F1, recorded there",
        "shell stdin is /dev/null, stdout/stderr go to /dev/null (quick) or to a harness pty (thorough, pty workers)",
        "a threading.enumerate() entry without an OS thread behind it (CPython's immortal _DummyThread) is not a running thread",
        "while a finding is open its shape is thinned out (1 in 8 for F1/F4, 1 in 3 for pipelines with two threaded aliases) and its "
        "repetitions capped at 3 (F4: 1); the exact symptom of the finding is tolerated on that shape and counted in excluded_known",
        "after every case the worker is brought back to its pristine state (std streams, handlers incl. the saved handlers of left-over "
        "xonsh thread objects, cwd, no child, no thread, descriptor table); a worker that cannot be restored stops (inconclusive, noted)",
        "a task stops evaluating after %d cases with unattributed failures (bounded cost on a badly broken tree)" % MAX_FAILING_CASES,
        "termios attributes of the harness pty are recorded but only counted (the property names terminal ownership)",
        "a command line whose last stage cannot end by itself (endless producer last, or feeding a stage that needs EOF) is not a command "
        "that finishes; never generated.  The endless producer is a helper that is killed by SIGPIPE like yes(1) and by alarm(45) at the latest",
        "jobctl: Ctrl-Z / Ctrl-C are bytes typed at the pty master (what a user can do); SIGTSTP sent from outside to a *threaded* captured "
        "command (whose suspend character xonsh disables by design) is outside the domain; when Ctrl-Z is ignored the user presses Ctrl-C",
        "jobctl: the user acts only on a stable state (job owns the terminal, processes exec'ed, shell asleep, 0.12 s): a signal that arrives "
        "between fork and exec of a stage, or before the SIGCONT xonsh sends to a freshly started pipeline, is lost by design of the kernel / "
        "of issue #2999's fix; Ctrl-Z is pressed again (<= 3 times) while a part of the job still runs",
        "jobctl: a precondition that is not reached within 8 s is inconclusive; a violation is reported only when a second fresh session "
        "shows the same failure classes; job-table entries of finished jobs may stay until the next table-touching command (C20's business)",
        "jobctl: Ctrl-C at the prompt is asked only of a session without suspended jobs; the final comparison is made after all jobs were "
        "killed, `jobs` and one neutral alias command",
        "while C09-F8 is open `!(...)` lines of its shape are run as `$(...)`; while C09-F9 is open no fg/bg follows the suspension of a "
        "`$[...]` job in a history; while C09-F10 is open `$[... alias e>o]` loses its `e>o`; while C09-F11 is open a short-lived background "
        "pipeline whose stages do not end together is replaced by `sleep 0.3 | sleep 0.3 &` (all counted in excluded_known)",
        "background pipelines are exercised by family jobctl only (cmd &, on a terminal); the pipeline-shape families generate foreground lines",
    ]


def replay(run, path):
    with open(path) as f:
        d = json.load(f)
    case = _normalise(d.get("case", d))
    fails = _replay_in_worker(run, case)
    if not fails:
        print("replay: property holds on this case")
        return 0
    for f in fails:
        print("VIOLATION property=%s replay=%s kind=%s %s" % (PROP, path, f.kind, f.detail))
    return 1

"""C08 - command lookup equals a POSIX $PATH search and never goes stale.

Generator : a Hypothesis RuleBasedStateMachine over a scratch tree (2-5 command directories d0..d4,
            a directory `pool` that is normally not on $PATH, a symlink `ld0` -> d0).  Rules create /
            delete / chmod files (sh scripts, ELF copies of helpers/vself, text without shebang) under a
            3-name pool so that shadows occur, replace entries by directories, plant symlinks (to a file,
            to a directory, dangling, self loop, 2-cycles), remove / recreate / symlink / swap whole PATH
            directories, optionally restore or age the directory mtime afterwards (what tar / rsync -t /
            cp -p do), edit $PATH through every EnvPath entry point (assign list / string, append,
            insert, prepend, remove, add, del, item assignment, +=) with absolute, relative, empty,
            `.`, trailing-slash, dotted, symlinked and non-existent entries and duplicates, chdir, and
            run a command for real.  No rule sleeps.
            Symlinked directories: every command directory has a nested directory `in` and a link `lk` to the `in` of
            the next one (relative / absolute link text), the root has `lt`, `la`; explicit spellings with `link/..`,
            `link/../dir/..`, `./link/../x`, absolute, doubled and trailing separators are looked up and run, $PATH
            entries `link/..`, and the cwd is reached through such links with the logical spelling in $PWD (as `cd`
            does).  The reference for a path is what the kernel resolves.
            Concurrent modification (rule `concurrent`, vlib/c08_intrude.py): during ONE lookup (`in`, locate_binary,
            all_commands, locate_executable, SubprocSpec.build) an entry of a $PATH directory is created / installed by
            rename / deleted / chmod-ed / renamed / moved out at a generated point of xonsh's own reading of that
            directory: before the directory is opened, after the listing was read, after the k-th entry was handed out,
            after the last one, when the iterator is closed, before / after the j-th stat of the directory (the
            mtime read is one of them) or of one of its entries.  Deterministic, no threads.  An earlier ordinary
            change of the same directory (file `vqt`) makes the lookup re-list it.
Oracle    : after *every* step every bare name of the pool (plus names with a separator) is looked up
            through locate_executable, SubprocSpec.build (binary_loc, or the script path when xonsh
            rewrote the command line to `<interpreter> <script>`), CommandsCache.locate_binary,
            `name in commands_cache`, commands_cache.all_commands (complete map) and - in `run` steps -
            by really executing `$(name)` and reading which file answered.  Expected: a pure-Python
            execvp search (first $PATH entry - empty entry = cwd - holding a regular file, after symlink
            resolution, with an x bit [root] / access(X_OK)), cross-checked at every step against
            `/bin/sh -c 'command -v name'` (dash) under the same PATH and cwd; a disagreement between the
            two references is a HarnessError.  Results are compared by realpath.  A name with a separator
            must resolve to exactly that path or to nothing.
            Concurrent step: the overlapping lookup may answer from the state before or after the change; then the
            ordinary observation phase follows with no further change - staleness that persists is the violation.
Config    : per history $ENABLE_COMMANDS_CACHE on/off and $COMMANDS_CACHE_SAVE_INTERMEDIATE (cache file) on/off are
            drawn; `restart` steps start a new session in the same place (the cache file, if any, survives).
            Which cache view is asked first after a step rotates, so each must refresh by itself.
Findings  : the CommandsCache views are additionally compared with a replica of the directory-mtime keyed
            cache algorithm of the unchanged tree ("shadow"); an answer that is wrong but exactly what the
            shadow predicts is attributed to C08-F1 (stale directory listing) / C08-F2 (merged map not
            rebuilt).  C08-F3 (`'./x' in commands_cache` answers for the basename), C08-F4 ($PATH = [] runs a
            file of the cwd) and C08-F5 ($PATH entry 'missing/../d0' is searched) have equally narrow
            predicates; so have C08-F6 (`./x/` with a trailing separator is answered for ./x) and C08-F7 (explicit
            path to a non-executable file: SubprocSpec runs os.path.abspath(word), another file after `link/..`).
            A finding is tolerated (and counted in excluded_known) only while it is listed as
            open in known_findings.json; otherwise it is reported.  Anything else is a violation.
"""

from __future__ import annotations

import os
import shutil
import stat
import subprocess
import tempfile

from vlib import common
from vlib.common import Failure, HarnessError, Mismatch, Stats

PROP = "C08"
LEVEL = "exploration"
RULE = ("state-machine histories (create/delete/chmod/replace-by-dir/symlink/dir removal+swap/mtime restore, "
        "$PATH edits through all EnvPath entry points, chdir incl. through symlinks, real runs, entry changes made "
        "DURING a lookup at a generated point of xonsh's reading of the directory) over 2-5 PATH directories with "
        "nested and symlinked directories and a 3-name pool, every name (plus explicit paths incl. `link/..` "
        "spellings) looked up through every view after every step; non-trivial = lookup of a name "
        "directly after a mutating step (file system, $PATH or cwd changed since the previous lookup of that "
        "name); distinct = hash of (tree layout, $PATH list, cwd, cache setting, name); samples are whole histories")
HOOKS = False

NAMES = ["vqa", "vqb", "vqc"]
DIRS = ["d0", "d1", "d2", "d3", "d4", "pool"]
NCMD = 5                      # d0..d4 are the command directories, DIRS[5] is the pool
MODES = [0o644, 0o755, 0o700, 0o111, 0o000, 0o100, 0o010, 0o001, 0o600]
KINDS = ["script", "script", "script", "elf", "elf", "plain"]

# symbolic PATH entries ({R} = root of the scratch tree); meaning of the relative ones depends on cwd
PATH_ENTRIES = (["{R}/d%d" % i for i in range(NCMD)] * 3 +
                ["{R}/d0/", "{R}/d1/", "d0", "d1", "./d2", "../d0", "../d1", "", "", ".", "{R}/ld0", "{R}/ld0/",
                 "{R}/nope", "nope", "{R}/d1/../d0", "{R}/d0/../d1/.", "{R}/pool", "{R}/d0/vqa", "{R}", "..",
                 "{R}//d1", "{R}/d2/./", "{R}/nope/../d0", "{R}/d0/vqa/../../d1",
                 # `..` after a symlinked directory: the kernel goes to the parent of the link's target
                 "{R}/lt/..", "{R}/d0/lk/..", "lt/..", "{R}/la/../"])
CWDS = ["{R}", "{R}/d0", "{R}/d1", "{R}/pool", "{R}/ld0", "{R}/d2",
        "{R}/lt", "{R}/d0/lk", "{R}/d1/in", "{R}/la"]       # the last four: a cwd reached through a symlink / nested
LINK_TARGETS = ["../d0/{N}", "../d1/{N}", "../d2/{N}", "{R}/d0/{N}", "{R}/d1/{N}", "../pool/{N}", "{R}/pool/{N}",
                "../pool/vqa", "nope", "../nope/{N}", "{N}", "vqa", "vqb", "vqc", ".", "../pool", "{R}/d1",
                "../ld0/{N}", "lk/../{N}", "{R}/lt/../{N}"]
# Symlinked directories of the tree (made by init): every command directory d<i> holds a directory `in` and a link
# `lk` -> in-directory of the next command directory (relative link text for even i, absolute for odd i); the root
# has lt -> d1/in (relative) and la -> {R}/d0/in (absolute).  So `d0/lk/..` IS d1 for the kernel and d0 for code that
# normalises the text; both hold files of the name pool.
EXPLICIT_PLAIN = ["./{N}", "d0/{N}", "d1/{N}", "{R}/d0/{N}", "{R}/d1/{N}", "../d0/{N}", "pool/{N}", "./d1/../d0/{N}",
                  "d0//{N}", "{R}/ld0/{N}", "../{N}", "nope/{N}", "{R}/pool/{N}", "d0/in/../{N}", "./../{N}"]
EXPLICIT_DOTS = ["lk/../{N}", "./lk/../{N}", "d0/lk/../{N}", "d1/lk/../{N}", "{R}/d0/lk/../{N}", "{R}/d1/lk/../{N}",
                 "{R}/d2/lk/../{N}", "lt/../{N}", "./lt/../{N}", "{R}/lt/../{N}", "la/../{N}", "{R}/la/../{N}",
                 "../lt/../{N}", "../d0/lk/../{N}",
                 # link/../dir/.. , two links, link/../.. back into the tree
                 "d0/lk/../in/../{N}", "{R}/lt/../../d0/lk/../{N}", "ld0/lk/../{N}", "{R}/la/../lk/../{N}",
                 "lk/../lk/../{N}", "{R}/lt/../../d0/{N}",
                 # spelling variants of the same
                 "lk/..//{N}", "d0/lk/.././{N}", "{R}/d0/lk/../{N}/", "./{N}/", "lk/../{N}/"]
EXPLICIT = EXPLICIT_PLAIN + EXPLICIT_DOTS
RUN_FORMS = (["{N}"] * 6 + ["./{N}", "d0/{N}", "lk/../{N}", "./lk/../{N}", "d0/lk/../{N}", "{R}/d1/lk/../{N}", "lt/../{N}",
                            "{R}/la/../{N}", "../{N}", "d0/lk/../in/../{N}"])
TRIG = "vqt"             # a fourth command name, only used to make a directory "changed since it was listed"

F_MTIME = "C08-F1"       # listing of a directory cached under its mtime: chmod / change behind a symlink / restored mtime
F_MERGE = "C08-F2"       # merged name->path map not rebuilt after a $PATH edit (or chdir) that adds no new/modified dir
F_INSEP = "C08-F3"       # `"./x" in commands_cache` answers for the basename on $PATH
F_DOTS = "C08-F5"        # $PATH entry "missing/../d0": unusable for the OS, searched by xonsh (realpath normalises it lexically)
F_EMPTY = "C08-F4"       # $PATH = [] : execution searches the current directory although every lookup says "not found"
F_SLASH = "C08-F6"       # "./x/" (trailing separator, x a regular file): ENOTDIR for the kernel, xonsh finds and runs ./x
F_GONE = "C08-F8"        # a $PATH directory disappears between the cache's existence test and its listing: the lookup raises
F_ABSP = "C08-F7"        # explicit path to a NON-executable file: SubprocSpec inspects / runs os.path.abspath(word), which
#                          is another file when the word has `..` after a symlinked directory

# set to False to stop demanding that `<name with separator> in commands_cache` refers to that path only
CHECK_IN_WITH_SEPARATOR = True


# ----------------------------------------------------------------------------------------
# reference model (pure Python, from the property text / POSIX execvp)

_ROOT = (os.geteuid() == 0)


def _is_exec_file(path):
    """regular file after symlink resolution that this process may execute"""
    try:
        st = os.stat(path)
    except OSError:
        return False
    if not stat.S_ISREG(st.st_mode):
        return False
    if _ROOT:
        return bool(st.st_mode & 0o111)     # root: any x bit grants execute permission
    m = st.st_mode
    if st.st_uid == os.geteuid():
        return bool(m & 0o100)
    if st.st_gid == os.getegid() or st.st_gid in os.getgroups():
        return bool(m & 0o010)
    return bool(m & 0o001)


def ref_lookup(name, entries):
    """What execvp(name) would run: `entries` is the $PATH list, cwd is the process cwd."""
    if "/" in name:
        return name if _is_exec_file(name) else None
    for e in entries:
        cand = "./" + name if e == "" else e + "/" + name
        if _is_exec_file(cand):
            return cand
    return None


def effective_dirs(entries):
    """The directories a POSIX search visits, as (realpath) strings without repetitions, in order."""
    out = []
    for e in entries:
        p = e if e != "" else "."
        if not os.path.isdir(p):        # the OS decides (a missing component makes "missing/../d0" unusable)
            continue
        r = os.path.realpath(p)
        if r not in out:
            out.append(r)
    return out


def lenient_entries(entries):
    """The $PATH list as read by code that normalises an entry lexically (os.path.realpath, non-strict) before
    asking whether it is a directory: differs from `entries` only for an entry the OS cannot resolve."""
    out = []
    for e in entries:
        p = e if e != "" else "."
        if not os.path.isdir(p) and os.path.isdir(os.path.realpath(p)):
            out.append(os.path.realpath(p))
        else:
            out.append(e)
    return out


def list_exec(d):
    try:
        names = sorted(os.listdir(d))
    except OSError:
        return ()
    return tuple(n for n in names if _is_exec_file(os.path.join(d, n)))


def ref_all(eff):
    """name -> path for every command a $PATH search can find (front of PATH wins)."""
    out = {}
    for d in eff:
        for n in list_exec(d):
            out.setdefault(n, os.path.join(d, n))
    return out


def sh_lookup(names, entries):
    """`command -v` of dash for each bare name under PATH=':'.join(entries) in the current cwd."""
    script = 'for n in "$@"; do command -v "$n" || echo "-"; done'
    r = subprocess.run(["/bin/sh", "-c", script, "sh"] + list(names), env={"PATH": ":".join(entries)},
                       capture_output=True, text=True, timeout=30)
    lines = r.stdout.split("\n")[:-1]
    if len(lines) != len(names):
        raise HarnessError("sh reference printed %r for %r" % (r.stdout, names))
    return [None if ln == "-" else ln for ln in lines]


def sh_run(word):
    """What running the word `word` (a path with a separator) prints when /bin/sh hands it to the kernel."""
    r = subprocess.run(["/bin/sh", "-c", '"$1"', "sh", word], capture_output=True, text=True, timeout=30,
                       stdin=subprocess.DEVNULL)
    out = r.stdout.strip()
    return out if (out.startswith("vid:") or out.startswith("exe:")) else None


def rp(p):
    return None if p is None else os.path.realpath(p)


# ----------------------------------------------------------------------------------------
# replica of the cache algorithm of the unchanged tree (used only to *attribute* wrong answers
# of the CommandsCache views to the recorded findings, never to excuse anything else)


class Shadow:
    def __init__(self, enabled=True):
        self.enabled = enabled      # $ENABLE_COMMANDS_CACHE
        self.per_dir = {}           # realpath dir -> (mtime, exec names, entry snapshot)
        self.merged = None          # name -> path
        self.merged_paths = None

    @staticmethod
    def _snapshot(d):
        out = []
        try:
            for n in sorted(os.listdir(d)):
                try:
                    s = os.lstat(os.path.join(d, n))
                    out.append((n, s.st_ino, stat.S_IFMT(s.st_mode)))
                except OSError:
                    out.append((n, None, None))
        except OSError:
            pass
        return tuple(out)

    def update(self, eff):
        updated = self.merged is None     # first call: alias checksum changes from None
        for d in reversed(eff):
            try:
                mt = os.path.getmtime(d)
            except OSError:
                continue
            if (not self.enabled) or d not in self.per_dir or self.per_dir[d][0] != mt:
                updated = True
                self.per_dir[d] = (mt, list_exec(d), self._snapshot(d))
        if updated:
            self.merged = self.merge(eff)
            self.merged_paths = tuple(eff)

    def merge(self, eff):
        m = {}
        for d in reversed(eff):
            if d not in self.per_dir:
                continue
            for n in self.per_dir[d][1]:
                m[n] = os.path.join(d, n)
        return m

    def cause(self, eff):
        """Which recorded defect makes the shadow differ from the truth right now."""
        fresh = self.merge(eff)
        stale_dirs = [d for d in eff if d in self.per_dir and self.per_dir[d][1] != list_exec(d)]
        if stale_dirs:
            sub = "entries-same" if all(self.per_dir[d][2] == self._snapshot(d) for d in stale_dirs) \
                else "entries-changed-mtime-same"
            return F_MTIME, sub
        if fresh != self.merged:
            return F_MERGE, "merge-not-rebuilt"
        return None, None


# ----------------------------------------------------------------------------------------
# the world: scratch tree + xonsh session + step/observe


def test_build_frame(SubprocSpec, line):
    return SubprocSpec.build(line)


class World:
    def __init__(self, base, tolerate=(), stats=None, ignore=(), seen=None):
        self.base = base
        self.seen = seen
        self.tolerate = set(tolerate)
        self.stats = stats
        self.ignore = ignore if isinstance(ignore, set) else set(ignore)
        self.home = None
        try:
            self.home = os.getcwd()
        except OSError:
            self.home = base
        os.makedirs(base, exist_ok=True)
        self.R = os.path.realpath(tempfile.mkdtemp(prefix="t", dir=base))
        self.ops = []
        self.serial = 0
        self.XSH = None
        self.shadow = None
        self.cache_on = True
        self.closed = False
        self.save = False
        self.last = None
        self._rpc = {}
        self.ndirs = NCMD

    # -- helpers -----------------------------------------------------------------------
    def sub(self, s, name=None):
        s = s.replace("{R}", self.R)
        if name is not None:
            s = s.replace("{N}", name)
        return s

    def dpath(self, d):
        return os.path.join(self.R, DIRS[d])

    def close(self):
        if self.closed:
            return
        self.closed = True
        st = self.stats
        if st is not None and len(self.ops) > 3:
            lab = "history:%s" % ("cache-disabled" if not self.cache_on else
                                  "cache-file" if getattr(self, "save", False) else "default")
            lst = st.samples.setdefault(lab, [])
            smp = common.jsonable({"ops": self.ops, "after_last_step": self.last})
            if len(lst) < 2 and smp not in lst:
                lst.append(smp)
        try:
            os.chdir(self.home)
        except OSError:
            os.chdir(common.VERIF)
        shutil.rmtree(self.R, ignore_errors=True)

    def _cwd_inside(self, path):
        try:
            cwd = os.path.realpath(os.getcwd())
        except OSError:
            return True
        p = os.path.realpath(path)
        return cwd == p or cwd.startswith(p + "/")

    @staticmethod
    def _remove(path):
        if os.path.islink(path) or not os.path.isdir(path):
            try:
                os.unlink(path)
            except FileNotFoundError:
                pass
        else:
            shutil.rmtree(path)

    def _mkdir(self, path, cmd_index=None):
        """mkdir + a distinct old mtime: fresh directories made in the same kernel tick would otherwise share
        one coarse timestamp by accident (equal mtimes are produced on purpose by mt=keep instead).
        A command directory d<i> also gets its nested directory `in` and its link `lk` (see EXPLICIT_DOTS)."""
        os.mkdir(path)
        if cmd_index is not None:
            os.mkdir(os.path.join(path, "in"))
            nxt = DIRS[(cmd_index + 1) % max(2, self.ndirs)]
            os.symlink("../%s/in" % nxt if cmd_index % 2 == 0 else "%s/%s/in" % (self.R, nxt),
                       os.path.join(path, "lk"))
        self.serial += 1
        t = 1_500_000_000 + self.serial
        if cmd_index is not None:
            os.utime(os.path.join(path, "in"), (t, t))
        os.utime(path, (t, t))

    def _write(self, path, kind, mode):
        self.serial += 1
        if kind == "elf":
            from vlib import helpers

            shutil.copyfile(helpers.path("vself"), path)
        elif kind == "plain":
            with open(path, "w") as f:
                f.write("echo vid:%d\n" % self.serial)
        else:
            with open(path, "w") as f:
                f.write("#!/bin/sh\necho vid:%d\n" % self.serial)
        os.chmod(path, mode)

    # -- applying one operation -------------------------------------------------------------
    def apply(self, op):
        """Returns the label of what happened ('noop' when the operation was not applicable)."""
        k = op["op"]
        if k == "init":
            return self._init(op)
        if self.XSH is None:
            raise HarnessError("first operation must be init")
        if k in ("create", "delete", "chmod", "mkentry", "symlink"):
            return self._fs_entry(op)
        if k == "rmdir":
            p = self.dpath(op["d"])
            if not os.path.lexists(p) or self._cwd_inside(p) and not os.path.islink(p):
                return "noop"
            self._remove(p)
            return "rmdir"
        if k == "mkdir":
            p = self.dpath(op["d"])
            if os.path.lexists(p):
                return "noop"
            self._mkdir(p, cmd_index=op["d"] if op["d"] < NCMD else None)
            return "mkdir"
        if k == "linkdir":
            p = self.dpath(op["d"])
            if os.path.lexists(p) or op["d"] == op["to"]:
                return "noop"
            os.symlink(DIRS[op["to"]], p)
            return "linkdir"
        if k == "swapdir":
            a, b = self.dpath(op["a"]), self.dpath(op["b"])
            if op["a"] == op["b"] or not os.path.lexists(a) or not os.path.lexists(b):
                return "noop"
            tmp = os.path.join(self.R, "stage", "swap")
            os.rename(a, tmp)
            os.rename(b, a)
            os.rename(tmp, b)
            return "swapdir"
        if k.startswith("path_"):
            return self._path_edit(op)
        if k == "chdir":
            p = self.sub(op["to"])
            if not os.path.isdir(p):
                return "noop"
            os.chdir(p)
            # `cd` of xonsh stores the path as typed (logical, symlinks kept) in $PWD; the process cwd is physical
            self.XSH.env["PWD"] = os.path.abspath(p) if op.get("logical") else os.getcwd()
            return "chdir-logical-pwd" if op.get("logical") and os.path.realpath(p) != os.path.abspath(p) else "chdir"
        if k in ("lookup", "run"):
            return k
        if k == "restart":
            # a new shell session started in the same place: with $COMMANDS_CACHE_SAVE_INTERMEDIATE the per-directory
            # listings survive in the cache file, the merged map never does
            self._session([str(x) for x in self.XSH.env["PATH"]])
            self.shadow.merged = None
            self.shadow.merged_paths = None
            if not self.save:
                self.shadow.per_dir = {}
            return "restart"
        raise HarnessError("unknown op %r" % (op,))

    def _init(self, op):
        from vlib import helpers, session

        helpers.ensure()
        self.ndirs = op["ndirs"]
        for i in range(op["ndirs"]):
            self._mkdir(self.dpath(i), cmd_index=i)
        self._mkdir(self.dpath(NCMD))
        self._mkdir(os.path.join(self.R, "stage"))
        os.symlink("d0", os.path.join(self.R, "ld0"))
        os.symlink("d1/in", os.path.join(self.R, "lt"))                 # relative link text
        os.symlink(self.R + "/d0/in", os.path.join(self.R, "la"))       # absolute link text
        os.chdir(self.R)
        entries = [self.sub(e) for e in op["path"]]
        self.cache_on = bool(op.get("cache", True))
        self.save = bool(op.get("save", False))
        self._session(entries)
        self.shadow = Shadow(self.cache_on)
        for d, n, kind, mode in op.get("files", []):
            if not os.path.isdir(self.dpath(d)):
                continue
            path = os.path.join(self.dpath(d), n)
            if os.path.lexists(path):
                self._remove(path)
            self._write(path, kind, mode)
        return "init"

    def _session(self, entries):
        """a new xonsh session (fresh Env, aliases, CommandsCache) with the given $PATH in the current cwd"""
        from vlib import session

        self.XSH = session.load_session(self.base, path=entries, ENABLE_COMMANDS_CACHE=self.cache_on,
                                        COMMANDS_CACHE_SAVE_INTERMEDIATE=self.save,
                                        XONSH_CACHE_DIR=os.path.join(self.R, "xc"), PWD=os.getcwd())

    def _existing(self, regular_only):
        out = []
        for i in range(len(DIRS)):
            d = self.dpath(i)
            if os.path.islink(d) or not os.path.isdir(d):
                continue
            for n in sorted(os.listdir(d)):
                q = os.path.join(d, n)
                if n not in NAMES or (regular_only and not os.path.isfile(q)):
                    continue
                out.append((i, n))
        return out

    def _fs_entry(self, op):
        k = op["op"]
        if "pick" in op:
            # chmod / delete address the k-th existing entry (keeps these rules from being no-ops)
            ex = self._existing(regular_only=(k == "chmod"))
            if not ex:
                return "noop"
            op["d"], op["n"] = ex[op["pick"] % len(ex)]
        d = self.dpath(op["d"])
        if not os.path.isdir(d):
            return "noop"
        path = os.path.join(d, op["n"])
        try:
            before = os.stat(d)
        except OSError:
            return "noop"
        lab = k
        if k == "create":
            if op.get("rename"):
                tmp = os.path.join(self.R, "stage", "new")
                self._write(tmp, op["kind"], op["mode"])
                if os.path.isdir(path) and not os.path.islink(path):
                    self._remove(path)
                os.rename(tmp, path)
                lab = "create-rename"
            else:
                existed = os.path.lexists(path)
                if existed:
                    self._remove(path)
                self._write(path, op["kind"], op["mode"])
                lab = "create-over" if existed else "create"
        elif k == "delete":
            if not os.path.lexists(path):
                return "noop"
            self._remove(path)
        elif k == "chmod":
            try:
                st = os.stat(path)
            except OSError:
                return "noop"
            mode = op["mode"]
            if mode == "flip":
                mode = 0o644 if st.st_mode & 0o111 else 0o755
            if not stat.S_ISREG(st.st_mode) or stat.S_IMODE(st.st_mode) == mode:
                return "noop"
            os.chmod(path, mode)
            lab = "chmod+x" if (mode & 0o111 and not st.st_mode & 0o111) else \
                "chmod-x" if (st.st_mode & 0o111 and not mode & 0o111) else "chmod"
        elif k == "mkentry":
            if os.path.lexists(path):
                self._remove(path)
            self._mkdir(path)
        elif k == "symlink":
            if os.path.lexists(path):
                self._remove(path)
            os.symlink(self.sub(op["target"], op["n"]), path)
        mt = op.get("mt")
        try:
            after = os.stat(d)
            if mt == "keep":
                os.utime(d, ns=(before.st_atime_ns, before.st_mtime_ns))
                lab += "+mtime-restored"
            elif mt == "older":
                os.utime(d, ns=(before.st_atime_ns, before.st_mtime_ns - 100 * 10 ** 9))
                lab += "+mtime-older"
            elif k != "chmod" and after.st_mtime_ns == before.st_mtime_ns and self.stats is not None:
                self.stats.hist["fs:entry-change-without-mtime-advance"] += 1
        except OSError:
            pass
        return lab

    def _path_edit(self, op):
        env = self.XSH.env
        k = op["op"]
        cur = env["PATH"]
        n = len(cur)
        e = self.sub(op["e"]) if "e" in op else None
        if k == "path_assign":
            env["PATH"] = [self.sub(x) for x in op["es"]]
        elif k == "path_assign_str":
            env["PATH"] = ":".join(self.sub(x) for x in op["es"])
        elif k == "path_append":
            cur.append(e)
        elif k == "path_insert":
            cur.insert(op["i"] % (n + 1), e)
        elif k == "path_prepend":
            cur.prepend(e)
        elif k == "path_add":
            cur.add(e, front=op["front"], replace=op["replace"])
        elif k == "path_iadd":
            env["PATH"] = cur + [e]
        elif k == "path_remove":
            if n == 0:
                return "noop"
            cur.remove(list(cur)[op["i"] % n])
        elif k == "path_del":
            if n == 0:
                return "noop"
            del cur[op["i"] % n]
        elif k == "path_setitem":
            if n == 0:
                return "noop"
            cur[op["i"] % n] = e
        elif k == "path_reverse":
            env["PATH"] = list(reversed(list(cur)))
        else:
            raise HarnessError("unknown op %r" % (op,))
        return k

    # -- one step ---------------------------------------------------------------------------
    def step(self, op):
        self.ops.append(op)
        try:
            what = self._conc(op) if op["op"] == "conc" else self.apply(op)
        except (HarnessError, Mismatch):
            raise
        except Exception as e:  # noqa: BLE001
            if op["op"].startswith("path_"):
                self.mismatch("exception", "path-edit", "%s raised %s: %s" % (op["op"], type(e).__name__, e),
                              bucket="exception:path-edit:" + type(e).__name__)
                return
            raise HarnessError("operation %r failed in the harness: %s: %s" % (op, type(e).__name__, e))
        self.observe(op, what)

    # -- a change made by "another process" WHILE one xonsh call is reading the directory ----
    def _cop(self, op, d):
        """the concurrent operation on an entry of directory d; returns its label"""
        k = op["cop"]
        if k == "dirgone":
            # the whole directory is moved away (what `rm -rf venv`, a package upgrade or an unmount do)
            if os.path.dirname(d) == self.R and os.path.basename(d) in DIRS[:NCMD] and not self._cwd_inside(d):
                self.serial += 1
                os.rename(d, os.path.join(self.R, "stage", "gone%d" % self.serial))
                return k
            k = "delete"
        have = [x for x in NAMES if os.path.lexists(os.path.join(d, x))]
        if k in ("delete", "chmod", "rename", "moveout"):
            reg = [x for x in have if os.path.isfile(os.path.join(d, x))] if k == "chmod" else have
            if not reg:
                k = "create"
            else:
                n = reg[op["pick"] % len(reg)]
        if k in ("create", "install"):
            n = op["n"]
        path = os.path.join(d, n)
        if k == "create":
            if os.path.lexists(path):
                self._remove(path)
            self._write(path, op["kind"], op["mode"])
        elif k == "install":                      # written elsewhere, renamed into place (what package managers do)
            tmp = os.path.join(self.R, "stage", "new")
            self._write(tmp, op["kind"], op["mode"])
            if os.path.isdir(path) and not os.path.islink(path):
                self._remove(path)
            os.rename(tmp, path)
        elif k == "delete":
            self._remove(path)
        elif k == "chmod":
            m = stat.S_IMODE(os.stat(path).st_mode)
            os.chmod(path, 0o644 if m & 0o111 else 0o755)
        elif k == "rename":
            others = [x for x in NAMES if x != n]
            to = os.path.join(d, others[op["pick"] // 3 % len(others)])
            if os.path.lexists(to) and any(os.path.isdir(q) and not os.path.islink(q) for q in (path, to)):
                self._remove(to)        # rename(2) replaces file by file only
            os.rename(path, to)
        elif k == "moveout":
            tmp = os.path.join(self.R, "stage", "out")
            if os.path.lexists(tmp):
                self._remove(tmp)
            os.rename(path, tmp)
        else:
            raise HarnessError("unknown concurrent operation %r" % (op,))
        return k

    def _conc(self, op):
        """One lookup during which an entry of a $PATH directory is changed at a generated point of xonsh's own
        reading of that directory (vlib/c08_intrude.py).  The answer of that lookup may come from the state before
        or after the change; the lookups that follow (observe) must agree with the file system."""
        from vlib.c08_intrude import Intruder
        from xonsh.procs.executables import locate_executable
        from xonsh.procs.specs import SubprocSpec
        from xonsh.tools import XonshError

        if self.XSH is None:
            raise HarnessError("first operation must be init")
        XSH = self.XSH
        cc = XSH.commands_cache
        st = self.stats
        R = self.R
        entries = [str(x) for x in XSH.env["PATH"]]
        eff = effective_dirs(entries)
        cands = [d for d in eff if d == R or d.startswith(R + "/")]
        if not cands:
            return "noop"
        d = cands[op["dsel"] % len(cands)]
        if op.get("pre"):
            # an ordinary earlier change of the same directory: the lookup below has to list it again
            t = os.path.join(d, TRIG)
            if os.path.lexists(t):
                self._remove(t)
            else:
                self._write(t, "script", 0o755)
        lenient = lenient_entries(entries)
        eff_x = effective_dirs(lenient) if lenient != entries else eff
        names = NAMES + [TRIG]
        view = op["view"]
        cache_view = view in ("in", "lb", "all")
        ask = op["ask"]

        def truths():
            return ({n: ref_lookup(n, entries) for n in names}, {n: ref_lookup(n, lenient) for n in names})

        before = truths()
        old_merged = dict(self.shadow.merged or {})
        if cache_view:
            self.shadow.update(eff_x)       # the replica validates its listings where xonsh is about to
        box = {}

        def action():
            b = os.stat(d)
            lab = self._cop(op, d)
            if lab == "dirgone":
                return lab
            a = os.stat(d)
            if a.st_mtime_ns == b.st_mtime_ns:
                # chmod never moves the directory timestamp, and an entry change in the kernel tick of the previous
                # one need not either.  Staleness behind an unchanged timestamp is C08-F1 and is measured by the
                # sequential steps; here the directory is touched as well, so that "stale afterwards" can only mean
                # that the change was covered by a timestamp read too late.
                os.utime(d, ns=(a.st_atime_ns, a.st_mtime_ns + 1_000_000))
                box["bumped"] = True
            return lab

        ans = err = None
        intr = Intruder(d, op["point"], action)
        try:
            with intr:
                if view == "in":
                    ans = ask in cc
                elif view == "lb":
                    ans = cc.locate_binary(ask)
                elif view == "all":
                    ans = {k: v[0] for k, v in cc.all_commands.items() if not v[1]}
                elif view == "le":
                    ans = locate_executable(ask)
                elif view == "spec":
                    try:
                        sp = test_build_frame(SubprocSpec, [ask])
                        ans = sp.binary_loc if list(sp.cmd) == [ask] else (sp.cmd[-1] if sp.cmd else None)
                    except XonshError as e:
                        ans = None
                        box["refused"] = str(e)
                else:
                    raise HarnessError("unknown view %r" % (view,))
        except HarnessError:
            raise
        except Exception as e:  # noqa: BLE001
            err = e
        if intr.error is not None:
            raise HarnessError("the concurrent operation %r failed in the harness: %r" % (op, intr.error))
        fired = intr.fired
        if not intr.done:
            intr.fire("late")               # the point did not occur in this call: an ordinary sequential change
            fired = "late"
            if intr.error is not None:
                raise HarnessError("the operation %r failed in the harness: %r" % (op, intr.error))
        lab = intr.result
        after = truths()
        # the change can alter what a $PATH entry denotes (the directory itself is gone, or the entry is a link named
        # like a command inside the directory)
        path_changed = lab == "dirgone" or effective_dirs(entries) != eff
        self._rpc = {}
        rp = self._rp
        where = "PATH %r, cwd %r" % (_shortl(entries, R), _shortp(os.getcwd(), R))
        how = "while %s was changed (%s) at %s of xonsh's reading of it" % (_shortp(d, R), lab, fired)
        if view == "spec" and fired != "late" and (
                (err is None and "refused" in box) or
                (isinstance(err, OSError) and isinstance(getattr(err, "filename", None), str) and
                 os.path.dirname(err.filename) == d)):
            # building the command found the file and lost it (or its x bit) before it could inspect it: the error
            # ("permission denied" / ENOENT naming that file) is what execve() tells any shell that loses this race -
            # neither state is misreported
            if st is not None:
                st.hist["conc:spec-lost-the-file-after-locating-it:" + (type(err).__name__ if err else "XonshError")] += 1
            if path_changed:
                self._fresh_session(entries)
            return "conc:" + lab
        if err is not None:
            if lab == "dirgone" and cache_view and isinstance(err, (FileNotFoundError, NotADirectoryError)) and \
                    getattr(err, "filename", None) == d and fired in ("scan:before-open", "stat:after", "stat:before"):
                self.mismatch("exception-directory-vanished", "concurrent:" + view,
                              "%s: %s - the $PATH directory %s was moved away between the existence test and the "
                              "os.scandir() of CommandsCache (executables_in only expects PermissionError); %s" % (
                                  type(err).__name__, err, _shortp(d, R), where), finding=F_GONE)
                # the interrupted refresh left the cache half updated (alias checksum stored, merged map not rebuilt):
                # what it answers next is a consequence of the same defect
                self._fresh_session(entries)
                return "conc:" + lab
            self.mismatch("exception", "concurrent:" + view, "%s: %s %s (%s)" % (type(err).__name__, err, how, where),
                          bucket="exception:concurrent:%s:%s" % (view, type(err).__name__))
            return "conc:" + lab

        # the answer given during the change: from the state before or from the state after (or what the recorded
        # cache findings make of one of them)
        maps = []
        if cache_view:
            sh = self.shadow
            maps = [sh.merged or {}, sh.merge(eff_x), old_merged]
            if d in sh.per_dir:
                keep = sh.per_dir[d]
                sh.per_dir[d] = (keep[0], list_exec(d), keep[2])
                maps.append(sh.merge(eff_x))
                sh.per_dir[d] = keep

        def acceptable(n):
            acc = {rp(t[n]) for t in before + after}
            for m in maps:
                acc.add(rp(m.get(n)))
            return acc

        def bad(text):
            self.mismatch("view-differs", "concurrent:" + view, "%s %s - neither the answer before nor the one after "
                          "the change (%s)" % (text, how, where))

        if view == "in":
            if ans not in {x is not None for x in acceptable(ask)}:
                bad("`%r in commands_cache` was %r" % (ask, ans))
        elif view == "all":
            for n in names:
                if rp(ans.get(n)) not in acceptable(n):
                    bad("all_commands had %r -> %s" % (n, _shortp(ans.get(n), R)))
        elif rp(ans) not in acceptable(ask):
            bad("%s(%r) gave %s" % (view, ask, _shortp(ans, R)))
        if st is not None:
            st.hist["conc:at:" + fired] += 1
            st.hist["conc:op:" + lab] += 1
            st.hist["conc:view:" + view] += 1
            if intr.counts["scan"]:
                st.hist["conc:directory-was-relisted-by-this-call"] += 1
            if box.get("bumped"):
                st.hist["conc:directory-touched-because-its-mtime-did-not-move"] += 1
            if fired != "late" and (before[0][ask] is None) != (after[0][ask] is None):
                known = (ask in ans) if view == "all" else ans not in (None, False)
                st.hist["conc:answer-of-that-call:from-the-%s-state" % (
                    "new" if known == (after[0][ask] is not None) else "old")] += 1
        if path_changed:
            # what the cache says after a $PATH directory vanished is C08-F2 (sequential rmdir steps measure it); the
            # point of this operation is the lookup that overlapped it, so the history goes on in a new session
            if st is not None:
                st.hist["conc:new-session-because-the-change-removed-a-path-directory"] += 1
            self._fresh_session(entries)
        return "conc:" + lab

    def _fresh_session(self, entries):
        try:
            os.unlink(os.path.join(self.R, "xc", "path-commands-cache.json"))
        except OSError:
            pass
        self._session(entries)
        self.shadow = Shadow(self.cache_on)

    def mismatch(self, kind, view, detail, finding=None, bucket=None, count=True):
        bucket = bucket or (finding or "%s:%s" % (kind, view))
        if finding is not None and finding in self.tolerate:
            if self.stats is not None and count:
                self.stats.excluded_known[finding] += 1
            return
        if bucket in self.ignore:
            if self.stats is not None:
                self.stats.hist["already-reported:" + bucket] += 1
            return
        f = Failure(kind, {"ops": [dict(o) for o in self.ops]}, "[view %s] %s" % (view, detail),
                    finding=finding, bucket=bucket)
        if self.seen is not None and len(self.seen) < 200:
            self.seen.append(f)
        raise Mismatch(f)

    def _ident(self, path):
        """What a run of `path` prints."""
        with open(path, "rb") as f:
            data = f.read(200)
        if data.startswith(b"\x7fELF"):
            return "exe:" + os.path.realpath(path)
        for ln in data.decode("latin-1").split("\n"):
            if ln.startswith("echo vid:"):
                return ln[5:]
        raise HarnessError("file %s has no identity" % path)

    def _rp(self, p):
        """realpath with a memo that lives for one observation phase (the tree is static there)"""
        if p is None:
            return None
        r = self._rpc.get(p)
        if r is None:
            r = self._rpc[p] = os.path.realpath(p)
        return r

    def _same_map(self, a, b):
        return set(a) == set(b) and all(self._rp(a[k]) == self._rp(b[k]) for k in a)

    def observe(self, op, what):
        from xonsh.procs.executables import locate_executable
        from xonsh.procs.specs import SubprocSpec
        from xonsh.tools import XonshError

        XSH = self.XSH
        cc = XSH.commands_cache
        st = self.stats
        R = self.R
        self._rpc = {}
        rp = self._rp
        entries = [str(x) for x in XSH.env["PATH"]]
        cwd = os.getcwd()
        mutated = what not in ("noop", "lookup", "run", "restart")
        empty_path = (len(entries) == 0)
        where = "PATH %r, cwd %r" % (_shortl(entries, R), _shortp(cwd, R))

        # ---- references
        eff = effective_dirs(entries)
        truth_all = ref_all(eff)
        truth = {n: ref_lookup(n, entries) for n in NAMES}
        for n in NAMES:
            if rp(truth[n]) != rp(truth_all.get(n)):
                raise HarnessError("reference self-check: search gives %r, listing gives %r (%s)" % (
                    truth[n], truth_all.get(n), where))
        if not empty_path:
            shres = sh_lookup(NAMES, entries)
            for n, s in zip(NAMES, shres):
                if rp(s) != rp(truth[n]):
                    raise HarnessError("references disagree for %r: python model %r, dash %r (%s, ops %r)" % (
                        n, truth[n], s, where, self.ops))
        # C08-F5 reading: an entry the OS cannot resolve ("missing/../d0") but whose lexical normal form exists
        lenient = lenient_entries(entries)
        f5 = lenient != entries
        if f5:
            eff_x = effective_dirs(lenient)
            truth_all_x = ref_all(eff_x)
            if st is not None:
                st.hist["path:os-unresolvable-entry-with-existing-normal-form"] += 1
        else:
            eff_x, truth_all_x = eff, truth_all

        def lenient_exp(name):
            return ref_lookup(name, lenient) if (f5 and "/" not in name) else ref_lookup(name, entries)

        exported = XSH.env.detype().get("PATH")
        if exported != ":".join(entries) and not (empty_path and exported in (None, "")):
            self.mismatch("path-export-differs", "detype", "children get PATH=%r, $PATH is %r" % (exported, entries))

        # ---- cache views (xonsh refreshes once per observation phase; the shadow refreshes at the same point)
        self.shadow.update(eff_x)
        sh_m = self.shadow.merged
        cause = self.shadow.cause(eff_x) if not self._same_map(sh_m, truth_all_x) else (None, None)
        counted = [False]

        def stale(view, detail):
            """the cache view gave exactly the answer of the mtime-keyed algorithm, which is wrong now"""
            if cause[0] is None:
                raise HarnessError("shadow differs from the truth without a cause (%s; %s)" % (view, detail))
            if st is not None and not counted[0]:
                st.hist["stale:%s:%s" % cause] += 1
            self.mismatch("stale-cache", view, "%s [%s]" % (detail, cause[1]), finding=cause[0], count=not counted[0])
            counted[0] = True

        def unresolvable(view, detail):
            self.mismatch("unresolvable-path-entry-used", view,
                          detail + " - a $PATH entry that the OS cannot resolve (a missing/non-directory component "
                          "followed by ..) was searched in its lexically normalised form", finding=F_DOTS,
                          count=not counted[0])
            counted[0] = True

        # every cache view must refresh by itself: rotate which of them is asked first after the step
        first = {}
        turn = len(self.ops) % 3
        n0 = NAMES[(len(self.ops) // 3) % len(NAMES)]
        try:
            if turn == 1:
                first["lb", n0] = cc.locate_binary(n0)
            elif turn == 2:
                first["in", n0] = n0 in cc
        except Exception as e:  # noqa: BLE001
            self.mismatch("exception", "commands_cache", "%s: %s (%s)" % (type(e).__name__, e, where),
                          bucket="exception:commands_cache:" + type(e).__name__)
        try:
            allc = {k: v[0] for k, v in cc.all_commands.items() if not v[1]}
        except Exception as e:  # noqa: BLE001
            allc = None
            self.mismatch("exception", "all_commands", "%s: %s (%s)" % (type(e).__name__, e, where),
                          bucket="exception:all_commands:" + type(e).__name__)
        if allc is not None and not self._same_map(allc, truth_all):
            detail = "commands_cache.all_commands lists %r, the file system has %r (%s)" % (
                _short(allc, R), _short(truth_all, R), where)
            if f5 and self._same_map(allc, truth_all_x):
                unresolvable("all_commands", detail)
            elif allc == sh_m:
                stale("all_commands", detail)
            else:
                self.mismatch("view-differs", "all_commands", detail)

        probes = list(NAMES)
        if op.get("probe"):
            probes.append(self.sub(op["probe"][0], op["probe"][1]))
            if st is not None and op["probe"][0] in EXPLICIT_DOTS:
                pr = probes[-1]
                hit = ref_lookup(pr, entries)
                textual = os.path.normpath(os.path.join(cwd, pr))
                st.hist["explicit-dotdot-after-symlink:" + (
                    "not-a-command" if hit is None else
                    "command,other-file-at-textual-path" if (os.path.lexists(textual) and rp(textual) != rp(hit)) else
                    "command,nothing-at-textual-path" if not os.path.lexists(textual) else
                    "command,same-file-textually")] += 1
        for name in probes:
            explicit = "/" in name
            exp = truth[name] if not explicit else ref_lookup(name, entries)
            exp_x = lenient_exp(name)
            ctx = "name %r, the $PATH search selects %s; %s" % (_shortp(name, R), _shortp(exp, R), where)
            tag = ":explicit" if explicit else ""

            def judge(view, obs, text):
                if rp(obs) == rp(exp):
                    return
                if f5 and rp(obs) == rp(exp_x):
                    unresolvable(view, "%s %s; %s" % (text, _shortp(obs, R), ctx))
                elif explicit and self._explicit_finding(name, exp, view, obs=obs):
                    pass
                else:
                    self.mismatch("view-differs", view + tag, "%s %s; %s" % (text, _shortp(obs, R), ctx))

            # V1 locate_executable
            try:
                judge("locate_executable", locate_executable(name), "locate_executable gave")
            except Mismatch:
                raise
            except Exception as e:  # noqa: BLE001
                self.mismatch("exception", "locate_executable" + tag, "%s: %s; %s" % (type(e).__name__, e, ctx),
                              bucket="exception:locate_executable:" + type(e).__name__)
            # V2 SubprocSpec.build: binary_loc, or the script when xonsh rewrote the line to `<interpreter> <script>`
            try:
                try:
                    sp = test_build_frame(SubprocSpec, [name])
                    if sp.alias is not None:
                        raise HarnessError("name %r hit an alias" % name)
                    got = sp.binary_loc if list(sp.cmd) == [name] else (sp.cmd[-1] if sp.cmd else None)
                except XonshError:
                    got = None          # "permission denied" for an explicit path that is not executable
                judge("spec", got, "SubprocSpec.build resolved")
            except (Mismatch, HarnessError):
                raise
            except Exception as e:  # noqa: BLE001
                if not (explicit and self._explicit_finding(name, exp, "spec", exc=e)):
                    self.mismatch("exception", "spec" + tag, "%s: %s; %s" % (type(e).__name__, e, ctx),
                                  bucket="exception:spec:" + type(e).__name__)
            # V3 locate_binary, V4 `in`
            try:
                lb = first["lb", name] if ("lb", name) in first else cc.locate_binary(name)
                inn = first["in", name] if ("in", name) in first else (name in cc)
            except Exception as e:  # noqa: BLE001
                self.mismatch("exception", "commands_cache" + tag, "%s: %s; %s" % (type(e).__name__, e, ctx),
                              bucket="exception:commands_cache:" + type(e).__name__)
                continue
            if not explicit:
                if rp(lb) != rp(exp):
                    text = "locate_binary gave %s; %s" % (_shortp(lb, R), ctx)
                    if f5 and rp(lb) == rp(exp_x):
                        unresolvable("locate_binary", text)
                    elif lb == sh_m.get(name):
                        stale("locate_binary", text)
                    else:
                        self.mismatch("view-differs", "locate_binary", text)
                if inn != (exp is not None):
                    text = "`%r in commands_cache` is %r; %s" % (name, inn, ctx)
                    if f5 and inn == (exp_x is not None):
                        unresolvable("in", text)
                    elif inn == (name in sh_m):
                        stale("in", text)
                    else:
                        self.mismatch("view-differs", "in", text)
            else:
                # a name with a separator refers only to that path
                if lb is not None and (not os.path.isfile(name) or rp(lb) != rp(name)):
                    self.mismatch("view-differs", "locate_binary:explicit",
                                  "locate_binary gave %s; %s" % (_shortp(lb, R), ctx))
                if lb is None and exp is not None:
                    self.mismatch("view-differs", "locate_binary:explicit", "locate_binary gave None; %s" % ctx)
                if CHECK_IN_WITH_SEPARATOR and inn != (exp is not None):
                    base = os.path.basename(name)
                    if inn and self._explicit_finding(name, exp, "in", obs=name.rstrip("/")):
                        pass
                    elif inn == (base in sh_m):
                        if st is not None:
                            st.hist["in-with-separator-wrong"] += 1
                        self.mismatch("in-explicit", "in:explicit",
                                      "`%r in commands_cache` is %r although that path %s (it is the answer for the "
                                      "bare name %r on $PATH); %s" % (
                                          _shortp(name, R), inn,
                                          "is an executable file" if exp else "is not an executable file", base, where),
                                      finding=F_INSEP)
                    else:
                        self.mismatch("view-differs", "in:explicit", "`%r in commands_cache` is %r; %s" % (
                            _shortp(name, R), inn, ctx))

        # ---- really run it
        if op["op"] == "run":
            name = self.sub(op["name"][0], op["name"][1])
            exp = ref_lookup(name, entries)
            for alt in op.get("alt", []):
                if exp is not None:
                    break
                name = self.sub(op["name"][0], alt)
                exp = ref_lookup(name, entries)
            exp_x = lenient_exp(name)
            got, err = self._run(name)
            want = None if exp is None else self._ident(exp)
            if "/" in name:
                ref = sh_run(name)
                if ref != want:
                    raise HarnessError("references disagree for the explicit path %r: python model runs %r, "
                                       "/bin/sh runs %r (%s, ops %r)" % (name, want, ref, where, self.ops))
                if st is not None and any(x in name for x in ("lk/..", "lt/..", "la/..")):
                    st.hist["run:explicit-dotdot-after-symlink:" + ("found" if want else "notfound")] += 1
            if got != want:
                text = "running `%s` was answered by %r, the $PATH search selects %s = %r (%s; %s)" % (
                    _shortp(name, R), got, _shortp(exp, R), want, where, err)
                if empty_path and "/" not in name and want is None and _is_exec_file("./" + name) \
                        and got == self._ident("./" + name):
                    self.mismatch("runs-cwd-file", "run",
                                  "$PATH is the empty list, every lookup says %r is not a command, but running it "
                                  "executed ./%s of the current directory (children get PATH='' which POSIX reads as "
                                  "'search the current directory')" % (name, name), finding=F_EMPTY)
                elif f5 and rp(exp) != rp(exp_x) and got in (None, self._ident(exp_x) if exp_x else None):
                    unresolvable("run", text)
                elif "/" in name and self._explicit_finding(name, exp, "run", ran=got):
                    pass
                else:
                    self.mismatch("run-differs", "run", text)
            if st is not None:
                st.hist["run:" + ("found" if want else "notfound")] += 1

        # ---- statistics
        if st is not None:
            self.last = {"PATH": _shortl(entries, R), "cwd": _shortp(cwd, R),
                         "selected_by_path_search": {n: _shortp(truth[n], R) for n in NAMES}}
            lay = self._layout()
            cwd_rel = _shortp(cwd, R)
            flags = self._flags(entries, eff, truth)
            for n in NAMES:
                labels = ["after:" + what, "expect:" + ("found" if truth[n] else "none")]
                labels += flags[n]
                st.case((lay, tuple(_shortl(entries, R)), cwd_rel, self.cache_on, n), mutated, labels)
            if mutated and len(self.ops) > 1:
                st.hist["step-mutating"] += 1
            if not self.cache_on:
                st.hist["step-with-cache-disabled"] += 1
            if self.save:
                st.hist["step-with-cache-file"] += 1

    def _explicit_finding(self, name, exp, view, obs=None, ran=None, exc=None):
        """Narrow predicates of the recorded defects of the explicit-path branch, evaluated on the failing lookup.
        Reports (or tolerates and counts, while the finding is open) and returns True when one of them applies."""
        R = self.R
        if exp is not None:
            return False
        # C08-F6: the word ends in a separator and, without it, is an executable regular file; xonsh answered for that
        stripped = name.rstrip("/")
        if name.endswith("/") and "/" in stripped and _is_exec_file(stripped) and view != "locate_binary" and (
                (obs is not None and self._rp(obs) == self._rp(stripped)) or
                (ran is not None and ran == self._ident(stripped))):
            self.mismatch("trailing-separator-ignored", view,
                          "the word %r ends in a path separator and %r is a regular file: the kernel (execve, stat) "
                          "and /bin/sh answer ENOTDIR / 'not found', xonsh's %s answered for %s (pathlib drops the "
                          "trailing separator in locate_relative_path)" % (
                              _shortp(name, R), _shortp(stripped, R), view, _shortp(stripped, R)), finding=F_SLASH)
            return True
        # C08-F7: the word denotes a regular file without execute permission and its textual normal form is another path
        textual = os.path.abspath(name)
        if view in ("spec", "run") and os.path.isfile(name) and self._rp(textual) != self._rp(name) and (
                (obs is not None and self._rp(obs) == self._rp(textual)) or
                (ran is not None and _is_exec_file(textual) and ran == self._ident(textual)) or
                (isinstance(exc, IsADirectoryError) and os.path.isdir(textual))):
            self.mismatch("nonexecutable-explicit-path-normalised-textually", view,
                          "the word %r is %s for the kernel - a regular file without execute permission (sh: permission "
                          "denied) - but SubprocSpec.resolve_executable_commands falls back to os.path.abspath(word) = %s, "
                          "a different path because `..` follows a symlinked directory, and %s" % (
                              _shortp(name, R), _shortp(os.path.realpath(name), R), _shortp(textual, R),
                              "crashed with IsADirectoryError" if exc is not None else
                              "ran that file (%r)" % ran if ran is not None else "resolved the command to that file"),
                          finding=F_ABSP)
            return True
        return False

    def _run(self, name):
        from vlib import session

        XSH = self.XSH
        XSH.ctx.pop("__c08", None)
        err = ""
        try:
            session.xexec("__c08 = $(%s)\n" % name)
        except KeyboardInterrupt:
            raise
        except BaseException as e:  # noqa: BLE001
            err = "%s: %s" % (type(e).__name__, str(e)[:200])
        out = XSH.ctx.get("__c08")
        XSH.lastcmd = None
        if not out:
            return None, err
        out = str(out).strip()
        return (out if (out.startswith("vid:") or out.startswith("exe:")) else "<%s>" % out[:80]), err

    def _layout(self):
        out = []
        for dn in sorted(os.listdir(self.R)):
            p = os.path.join(self.R, dn)
            if dn in ("stage", "xc"):
                continue
            if os.path.islink(p):
                out.append((dn, "->" + os.readlink(p)))
                continue
            if not os.path.isdir(p):
                out.append((dn, stat.S_IMODE(os.lstat(p).st_mode)))
                continue
            for n in sorted(os.listdir(p)):
                q = os.path.join(p, n)
                s = os.lstat(q)
                if stat.S_ISLNK(s.st_mode):
                    out.append((dn, n, "->" + _shortp(os.readlink(q), self.R)))
                elif stat.S_ISDIR(s.st_mode):
                    out.append((dn, n, "dir"))
                else:
                    out.append((dn, n, stat.S_IMODE(s.st_mode)))
            out.append((dn,))
        return tuple(out)

    def _flags(self, entries, eff, truth):
        """Situation labels for the evidence histogram (what the generator really produced)."""
        flags = {}
        pe = []
        if len(set(entries)) != len(entries) or len(eff) < len([e for e in entries if os.path.isdir(e or ".")]):
            pe.append("path:duplicate-dir")
        if any(e == "" for e in entries):
            pe.append("path:empty-entry")
        if any(e and not e.startswith("/") for e in entries):
            pe.append("path:relative-entry")
        if any(not os.path.isdir(e or ".") for e in entries):
            pe.append("path:missing-or-nondir-entry")
        if any(e and os.path.islink(e.rstrip("/")) for e in entries):
            pe.append("path:symlinked-dir")
        if not entries:
            pe.append("path:empty-list")
        cwd_r = os.path.realpath(".")
        for n in NAMES:
            fl = list(pe)
            hit = truth[n]
            skipped = set()
            for e in entries:
                cand = "./" + n if e == "" else e + "/" + n
                if _is_exec_file(cand):
                    break
                if os.path.lexists(cand):
                    if os.path.islink(cand) and not os.path.exists(cand):
                        skipped.add("dangling-or-loop")
                    elif os.path.isdir(cand):
                        skipped.add("dir")
                    else:
                        skipped.add("nonexec")
            for s in sorted(skipped):
                fl.append(("shadow-skipped:" if hit else "only-unusable:") + s)
            if hit is not None and os.path.islink(hit):
                fl.append("hit:via-symlink")
            if cwd_r not in eff and _is_exec_file("./" + n):
                fl.append("cwd-has-exec-not-on-path")
            flags[n] = fl
        return flags


def _shortp(p, R):
    return p if p is None else str(p).replace(R, "{R}")


def _shortl(lst, R):
    return [_shortp(x, R) for x in lst]


def _short(d, R):
    return {k: _shortp(v, R) for k, v in sorted(d.items())}


# ----------------------------------------------------------------------------------------
# replay of one recorded history (no Hypothesis)


def check_case(case, base, tolerate=(), ignore=()):
    w = World(base, tolerate=tolerate, ignore=ignore)
    try:
        for op in case["ops"]:
            try:
                w.step(dict(op))
            except Mismatch as m:
                f = m.failure
                f.case = {"ops": [dict(o) for o in case["ops"][:len(w.ops)]]}
                return f
        return None
    finally:
        w.close()


# ----------------------------------------------------------------------------------------
# the state machine


def make_machine(stats, base, tolerate, ignore, seen=None):
    from hypothesis import strategies as st
    from hypothesis.stateful import RuleBasedStateMachine, initialize, rule

    dirs_cmd = st.integers(0, NCMD - 1)
    dirs_any = st.sampled_from([0, 0, 0, 1, 1, 1, 2, 2, 3, 4, NCMD])
    names = st.sampled_from(NAMES)
    modes = st.sampled_from(MODES + [0o755] * 6 + [0o644] * 2)
    entry = st.sampled_from(PATH_ENTRIES)
    probe = st.one_of(st.none(), st.tuples(st.sampled_from(EXPLICIT), names))
    mts = st.sampled_from([None] * 8 + ["keep", "older"])
    idx = st.integers(0, 7)

    class PathLookupMachine(RuleBasedStateMachine):
        def __init__(self):
            super().__init__()
            self.w = World(base, tolerate=tolerate, stats=stats, ignore=ignore, seen=seen)

        def teardown(self):
            self.w.close()

        def _go(self, op, probe=None):
            if probe is not None:
                op["probe"] = list(probe)
            self.w.step(op)

        @initialize(ndirs=st.integers(2, NCMD), path=st.lists(entry, min_size=1, max_size=5),
                    cache=st.sampled_from([True, True, True, True, False]), save=st.sampled_from([False, False, True]),
                    files=st.lists(st.tuples(dirs_any, names, st.sampled_from(KINDS), modes), min_size=2, max_size=10))
        def init(self, ndirs, path, cache, save, files):
            self._go({"op": "init", "ndirs": ndirs, "path": path, "cache": cache, "save": save,
                      "files": [list(f) for f in files]})

        @rule(d=dirs_any, n=names, kind=st.sampled_from(KINDS + ["dir"]), mode=modes, rename=st.booleans(), mt=mts,
              probe=probe)
        def create(self, d, n, kind, mode, rename, mt, probe):
            if kind == "dir":
                return self._go({"op": "mkentry", "d": d, "n": n}, probe)
            op = {"op": "create", "d": d, "n": n, "kind": kind, "mode": mode}
            if rename:
                op["rename"] = True
            if mt:
                op["mt"] = mt
            self._go(op, probe)

        @rule(k=st.integers(0, 17), mt=mts, probe=probe)
        def delete(self, k, mt, probe):
            op = {"op": "delete", "pick": k}
            if mt:
                op["mt"] = mt
            self._go(op, probe)

        @rule(k=st.integers(0, 17), mode=modes, probe=probe)
        def chmod(self, k, mode, probe):
            self._go({"op": "chmod", "pick": k, "mode": mode}, probe)

        @rule(k=st.integers(0, 17), probe=probe)
        def chmod_flip(self, k, probe):
            # toggle executability: the change a directory listing keyed on the directory mtime cannot see
            self._go({"op": "chmod", "pick": k, "mode": "flip"}, probe)

        @rule(d=dirs_any, n=names, tgt=st.sampled_from(LINK_TARGETS), mt=mts, probe=probe)
        def symlink(self, d, n, tgt, mt, probe):
            op = {"op": "symlink", "d": d, "n": n, "target": tgt}
            if mt:
                op["mt"] = mt
            self._go(op, probe)

        @rule(d=dirs_cmd, how=st.sampled_from(["rmdir", "rmdir", "mkdir", "mkdir", "linkdir", "swapdir"]), to=dirs_cmd)
        def dirop(self, d, how, to):
            if how == "linkdir":
                self._go({"op": "linkdir", "d": d, "to": to})
            elif how == "swapdir":
                self._go({"op": "swapdir", "a": d, "b": to})
            else:
                self._go({"op": how, "d": d})

        @rule(es=st.lists(entry, min_size=0, max_size=5), as_str=st.booleans(), probe=probe)
        def path_assign(self, es, as_str, probe):
            if not es and F_EMPTY in tolerate:
                # `$PATH = []` (and `$PATH = ""`, which EnvPath turns into []) is excluded while C08-F4 is open
                stats.excluded_known[F_EMPTY] += 1
                es = [PATH_ENTRIES[0]]
            self._go({"op": "path_assign_str" if as_str else "path_assign", "es": es}, probe)

        @rule(how=st.sampled_from(["path_append", "path_insert", "path_prepend", "path_add", "path_iadd",
                                   "path_setitem"]),
              e=entry, i=idx, front=st.booleans(), replace=st.booleans(), probe=probe)
        def path_grow(self, how, e, i, front, replace, probe):
            op = {"op": how, "e": e}
            if how in ("path_insert", "path_setitem"):
                op["i"] = i
            if how == "path_add":
                op["front"] = front
                op["replace"] = replace
            self._go(op, probe)

        @rule(how=st.sampled_from(["path_remove", "path_del", "path_reverse"]), i=idx, probe=probe)
        def path_shrink(self, how, i, probe):
            env = self.w.XSH.env
            if how != "path_reverse" and len(env["PATH"]) <= 1 and F_EMPTY in tolerate:
                stats.excluded_known[F_EMPTY] += 1
                return
            op = {"op": how}
            if how != "path_reverse":
                op["i"] = i
            self._go(op, probe)

        @rule(to=st.sampled_from(CWDS), logical=st.booleans(), probe=probe)
        def chdir(self, to, logical, probe):
            op = {"op": "chdir", "to": to}
            if logical:
                op["logical"] = True
            self._go(op, probe)

        @rule(dsel=st.integers(0, 5), pre=st.sampled_from([True, True, True, False]),
              cop=st.sampled_from(["create", "create", "create", "install", "install", "install", "delete", "delete",
                                   "delete", "chmod", "chmod", "rename", "rename", "moveout", "dirgone"]),
              n=names, pick=st.integers(0, 8), kind=st.sampled_from(KINDS),
              mode=st.sampled_from([0o755] * 5 + [0o700, 0o644]),
              vp=st.sampled_from(["in", "in", "lb", "lb", "all", "all", "le", "spec"]).flatmap(
                  lambda v: st.tuples(st.just(v), st.integers(0, 13).flatmap(lambda w: (
                      # the views that do not use the cache never list a directory: they stat its entries
                      st.builds(lambda j, k: {"at": "scan", "j": j, "k": k}, st.sampled_from([0] * 7 + [1]),
                                st.integers(0, 9)) if (w < 7 and v in ("in", "lb", "all")) else
                      st.builds(lambda j, side: {"at": "stat", "j": j, "side": side}, st.integers(0, 6),
                                st.sampled_from(["before", "after"])) if w < 11 - 4 * (v in ("le", "spec")) else
                      st.builds(lambda j, side: {"at": "child", "j": j, "side": side},
                                st.integers(0, 5 - 3 * (v == "le")), st.sampled_from(["before", "after"])) if w < 13 else
                      st.builds(lambda side: {"at": "list", "j": 0, "side": side},
                                st.sampled_from(["before", "after"])))))),
              ask=names, probe=probe)
        def concurrent(self, dsel, pre, cop, n, pick, kind, mode, vp, ask, probe):
            # another process changes a $PATH directory while xonsh is reading it; see World._conc
            view, point = vp
            op = {"op": "conc", "dsel": dsel, "cop": cop, "n": n, "pick": pick, "kind": kind, "mode": mode,
                  "point": point, "view": view, "ask": ask}
            if pre or point["at"] == "scan":
                op["pre"] = True        # a listing happens only if the directory changed since it was cached
            self._go(op, probe)

        @rule(ns=st.permutations(NAMES), form=st.sampled_from(RUN_FORMS),
              prefer_found=st.sampled_from([True, True, True, False]), probe=probe)
        def run(self, ns, form, prefer_found, probe):
            op = {"op": "run", "name": [form, ns[0]]}
            if prefer_found:
                op["alt"] = list(ns[1:])      # run the first of these names that is a command, if ns[0] is not
            self._go(op, probe)

        @rule(p=st.tuples(st.sampled_from(EXPLICIT), names), restart=st.sampled_from([False, False, True]))
        def lookup(self, p, restart):
            self._go({"op": "restart" if restart else "lookup"}, p)

    return PathLookupMachine


def _drop_steps(f, base, tolerate, ignore, seconds=5.0):
    """Hypothesis' shrinker has a short budget here; afterwards drop single operations (never init, never the last
    one) as long as the same disagreement - same bucket - is still reported.  Bounded by wall time."""
    import time

    t_end = time.time() + seconds
    best = f
    ops = list(f.case["ops"])
    i = len(ops) - 2
    while i >= 1 and time.time() < t_end:
        cand = ops[:i] + ops[i + 1:]
        try:
            g = check_case({"ops": cand}, base, tolerate, ignore)
        except HarnessError:
            g = None
        if g is not None and g.bucket == best.bucket and g.kind == best.kind:
            best = g
            ops = list(g.case["ops"])
            i = min(i, len(ops) - 1)
        i -= 1
    return best


def worker_machine(arg):
    seed, nex, steps, base, tolerate = arg
    os.dup2(os.open(os.devnull, os.O_WRONLY), 2)
    home = os.getcwd()
    st = Stats()
    ignore = set()
    batches = 3
    try:
        for b in range(batches):
            seen = []
            cls = make_machine(st, base, set(tolerate), ignore, seen)
            exc = common.run_machine(cls, seed * 31 + b, max(1, nex // batches), steps, shrink=True, shrink_seconds=12)
            if exc is None:
                continue
            if isinstance(exc, HarnessError):
                raise exc
            if isinstance(exc, Mismatch):
                f = exc.failure
            else:
                # Hypothesis gave up (typically "flaky": a disagreement that depends on timing did not recur while
                # shrinking).  Decide by deterministic replay of the disagreements that were really observed.
                f = None
                for cand in sorted(seen, key=lambda x: len(x.case["ops"]))[:6]:
                    for _ in range(3):
                        f = check_case(cand.case, base, tolerate, ignore)
                        if f is not None:
                            break
                    if f is not None:
                        break
                if f is None:
                    if not seen:
                        common.machine_failure(exc, "C08 machine")      # raises HarnessError
                    st.inconclusive += 1
                    st.notes.append("a disagreement was observed once but did not recur in 3 replays (timing "
                                    "dependent): %s %s" % (seen[0].kind, common._oneline(seen[0].detail, 200)))
                    continue
            if len(f.case.get("ops", ())) > 4:
                f = _drop_steps(f, base, tolerate, ignore)
            st.fail(f)
            ignore.add(f.bucket)
    finally:
        os.chdir(home)
    return st


# ----------------------------------------------------------------------------------------


def _open_ids():
    return sorted(e["id"] for e in common.load_known(PROP) if e.get("status") == "open")


def main(run):
    from vlib import helpers

    helpers.ensure()
    home = os.getcwd()
    base = os.path.join(run.scratch, "replay")
    try:
        common.replay_tier(run, lambda case: check_case(case, base, tolerate=()))
    finally:
        os.chdir(home)
    tolerate = _open_ids()
    nw = 10 if run.tier == "quick" else 16
    nex = run.n(66, 1500)
    steps = run.n(40, 60)
    procs = min(nw, int(os.environ.get("VERIF_PROCS") or nw))
    common.pool_map(run, __name__, "worker_machine",
                    [(common.worker_seed(run.seed, w), nex, steps, os.path.join(run.scratch, "w%d" % w, "m"), tolerate)
                     for w in range(nw)], procs=procs)
    os.chdir(home)
    h = run.stats.hist
    tot = max(1, run.stats.evaluations)
    run.extra["lookups_after"] = {
        "chmod": sum(v for k, v in h.items() if k.startswith("after:chmod")),
        "delete": sum(v for k, v in h.items() if k.startswith("after:delete")),
        "create": sum(v for k, v in h.items() if k.startswith("after:create")),
        "symlink": sum(v for k, v in h.items() if k.startswith("after:symlink")),
        "path_edit": sum(v for k, v in h.items() if k.startswith("after:path_")),
        "chdir": h.get("after:chdir", 0),
        "dir_mtime_restored_or_aged": sum(v for k, v in h.items() if "+mtime-" in k),
        "entry_change_without_mtime_advance(kernel tick)": h.get("fs:entry-change-without-mtime-advance", 0),
        "total_name_lookups": tot,
    }
    run.extra["concurrent_modification"] = {
        "steps": sum(v for k, v in h.items() if k.startswith("conc:at:")),
        "performed_inside_the_xonsh_call": sum(v for k, v in h.items() if k.startswith("conc:at:") and k != "conc:at:late"),
        "after_the_listing_was_read_and_before_the_call_returned": sum(
            h.get(k, 0) for k in ("conc:at:scan:before-first", "conc:at:scan:after-entry", "conc:at:scan:after-last",
                                  "conc:at:scan:close")),
        "call_relisted_the_directory": h.get("conc:directory-was-relisted-by-this-call", 0),
    }
    run.extra["tolerated_open_findings"] = tolerate
    if not run.stats.failures:
        floors = ["after:chmod+x", "after:chmod-x", "after:delete", "after:create", "after:symlink", "after:rmdir",
                  "after:swapdir", "after:chdir", "after:path_remove", "after:path_insert", "after:restart",
                  "shadow-skipped:nonexec", "shadow-skipped:dir", "shadow-skipped:dangling-or-loop", "hit:via-symlink",
                  "cwd-has-exec-not-on-path", "path:empty-entry", "path:relative-entry", "path:symlinked-dir",
                  "path:duplicate-dir", "path:missing-or-nondir-entry", "run:found", "run:notfound",
                  "step-with-cache-disabled", "step-with-cache-file",
                  # concurrent modification: every class of interleaving point really occurred
                  "conc:at:scan:before-open", "conc:at:scan:before-first", "conc:at:scan:after-entry",
                  "conc:at:scan:after-last", "conc:at:scan:close", "conc:at:stat:before", "conc:at:stat:after",
                  "conc:at:child:before", "conc:at:child:after", "conc:at:late",
                  "conc:op:create", "conc:op:install", "conc:op:delete", "conc:op:chmod", "conc:op:rename",
                  "conc:op:moveout", "conc:op:dirgone", "conc:answer-of-that-call:from-the-old-state",
                  "conc:answer-of-that-call:from-the-new-state",
                  # `..` after a symlinked directory in explicit paths, looked up and really run
                  "explicit-dotdot-after-symlink:command,other-file-at-textual-path",
                  "explicit-dotdot-after-symlink:command,nothing-at-textual-path",
                  "run:explicit-dotdot-after-symlink:found", "after:chdir-logical-pwd"]
        low = [k for k in floors if h.get(k, 0) < 20]
        if low:
            raise HarnessError("generator incomplete: classes below the floor of 20 cases: %r" % low)
    run.assumptions += [
        "the process runs as uid %d; for root an x bit of any class grants execute permission (reference models this)" % os.geteuid(),
        "$XONSH_COMMANDS_CACHE_READ_DIR_ONCE is left at its default (empty): it is a documented opt-in to staleness",
        "results are compared by realpath (the same file reached through another $PATH entry or link counts as equal)",
        "$PATH is never unset; the empty list is generated only while C08-F4 is not an open finding",
        "names with a separator: locate_binary may return a non-executable regular file at that path (it documents "
        "'without checking its validity'); all other views must say 'not a command'",
        "file system: %s; on this kernel a directory's mtime advances on every entry change once it has been "
        "stat()ed (multigrain timestamps), so same-tick staleness is produced only through explicit mtime "
        "restoration (mt=keep), which is what tar/rsync -t/cp -p do" % _fstype(run.scratch),
        "concurrent modification is simulated, not raced: the 'other process' acts inside wrappers of os.scandir / "
        "os.listdir / os.stat / os.lstat / os.access at a generated point of xonsh's own reads of the directory; a "
        "scanned directory is read in one go when it is opened (one getdents buffer), later changes are not in that "
        "listing; only one change per lookup, in one directory",
        "a concurrent change that does not move the directory's mtime (chmod; entry change in the kernel tick of the "
        "previous one) is followed by a touch of the directory: staleness behind an unchanged mtime is C08-F1 and is "
        "measured by the sequential steps, so persistent staleness after a concurrent step means a timestamp read too late",
        "the answer given by the very lookup that overlapped the change may describe the state before or after it; "
        "all following lookups are held to the file system",
        "explicit paths: the reference is the kernel's resolution (os.stat, execve via /bin/sh for runs): `..` after a "
        "symlinked directory is the parent of the link's target, a trailing separator after a regular file is ENOTDIR",
    ]


def _fstype(path):
    try:
        best = ("", "?")
        with open("/proc/mounts") as f:
            for ln in f:
                parts = ln.split()
                if path.startswith(parts[1]) and len(parts[1]) >= len(best[0]):
                    best = (parts[1], parts[2])
        return best[1]
    except OSError:
        return "?"


def replay(run, path):
    import json

    with open(path) as f:
        d = json.load(f)
    case = d.get("case", d)
    home = os.getcwd()
    try:
        f = check_case(case, os.path.join(run.scratch, "replay"), tolerate=())
    finally:
        os.chdir(home)
    if f is None:
        print("replay: property holds on this case")
        return 0
    print("VIOLATION property=%s replay=%s kind=%s %s" % (PROP, path, f.kind, common._oneline(f.detail)))
    return 1

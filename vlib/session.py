"""A real (un-mocked) XonshSession for in-process checks, built the way xonsh/pytest/plugin.py
builds one, without rc files and without touching os.environ."""

from __future__ import annotations

import builtins
import os
import sys

from . import tables
from .common import REPO, VERIF

HELPER_DIR = os.path.join(VERIF, ".work", "bin")

_execer = None


def get_execer():
    """One Execer per process (parser construction is the expensive part)."""
    global _execer
    if _execer is None:
        tables.install()
        from xonsh.execer import Execer

        _execer = Execer()
    return _execer


def base_env_dict(scratch, path=None, **extra):
    d = {
        "UPDATE_OS_ENVIRON": False,
        "XONSH_ENCODING": "utf-8",
        "XONSH_ENCODING_ERRORS": "surrogateescape",
        "XONSH_DATA_DIR": os.path.join(scratch, "xonsh-data"),
        "XONSH_CACHE_DIR": os.path.join(scratch, "xonsh-cache"),
        "XONSH_CONFIG_DIR": os.path.join(scratch, "xonsh-config"),
        "HOME": os.path.join(scratch, "home"),
        "PATH": list(path) if path is not None else [HELPER_DIR, "/usr/bin", "/bin"],
        "XONSH_INTERACTIVE": False,
        "XONSH_SHOW_TRACEBACK": False,
        "COMMANDS_CACHE_SAVE_INTERMEDIATE": False,
        "XONSH_HISTORY_BACKEND": "dummy",
        "TERM": "dumb",
        "LC_ALL": "C.UTF-8",
    }
    d.update(extra)
    for k in ("XONSH_DATA_DIR", "XONSH_CACHE_DIR", "XONSH_CONFIG_DIR", "HOME"):
        os.makedirs(d[k], exist_ok=True)
    return d


def load_session(scratch, ctx=None, path=None, **env_extra):
    """(Re)load the global XSH with a fresh Env / ctx / aliases.  Returns XSH."""
    from xonsh.built_ins import XSH
    from xonsh.environ import Env
    from xonsh.procs.jobs import get_tasks

    ex = get_execer()
    if XSH.builtins_loaded:
        unload_session()
    env = Env(base_env_dict(scratch, path=path, **env_extra))
    XSH.load(ctx={} if ctx is None else ctx, execer=ex, env=env)
    try:
        get_tasks().clear()
    except Exception:
        pass
    XSH.lastcmd = None
    return XSH


def unload_session():
    from xonsh.built_ins import XSH
    from xonsh.procs.jobs import get_tasks

    try:
        XSH.unload()
    except Exception:
        pass
    try:
        get_tasks().clear()
    except Exception:
        pass
    if hasattr(builtins, "__xonsh__") and not XSH.builtins_loaded:
        # XSH.unload leaves __xonsh__ in place on purpose in some versions; harmless
        pass


def xexec(src, glbs=None, locs=None, filename="<verif>"):
    """Execute xonsh source through the real Execer (same entry main.py uses)."""
    ex = get_execer()
    if glbs is None:
        from xonsh.built_ins import XSH

        glbs = XSH.ctx
    return ex.exec(src, mode="exec", glbs=glbs, locs=locs, filename=filename)


class Recorder:
    """Recording callable aliases.  Each call appends (name, argv, stdin-bytes-or-None)."""

    def __init__(self):
        self.calls = []

    def make(self, name, rtn=0, read_stdin=False, out=None, err=None, threadable=True):
        calls = self.calls

        def alias(args, stdin=None, stdout=None, stderr=None):
            data = None
            if read_stdin and stdin is not None:
                try:
                    data = stdin.read()
                except Exception as e:  # pragma: no cover
                    data = "<stdin read failed: %r>" % (e,)
            calls.append((name, list(args), data))
            if out is not None and stdout is not None:
                stdout.write(out)
            if err is not None and stderr is not None:
                stderr.write(err)
            return rtn

        alias.__name__ = "rec_" + name
        if not threadable:
            from xonsh.tools import unthreadable

            alias = unthreadable(alias)
        return alias

"""C06 - captured output is complete, ordered and exactly what the command wrote.

Generator : payload built from segments (text incl. multi-byte UTF-8, newlines \\n / \\r\\n / \\r,
            well-formed escape sequences, hidden \\x01..\\x02 spans, raw binary for raw_out) with total sizes and
            alignments chosen to straddle the code's boundaries (1024-byte reader chunk, 4096, 64 KiB pipe
            buffer and multiples, +-1), with and without final newline; writer behaviour (chunk size, inter-chunk
            delay, linger after close, exit code); pipeline of 1-3 stages from {external vemit/vcat, threaded
            alias writer / passthrough}; capture kind ($(), !().out, iteration, .raw_out, @$()); configuration
            ($THREAD_SUBPROCS on/off -> Popen vs PopenThread+NonBlockingFDReader path, $XONSH_CAPTURE_ALWAYS);
            and - with the XONSH_XONSH_VERIF guard on - a seeded delay plan for the schedule points inside
            xonsh's reader / proxy / pipeline threads, several plans per case.
            Second family ("prog", vlib/c06_prog.py; $THREAD_SUBPROCS on, exactly one alias stage per pipeline): the
            alias stage emits a generated SEQUENCE of segments through different write paths - print() with / without
            newline, sys.stdout.write, the stdout argument's .write / print(file=stdout) / .buffer.write,
            sys.stdout.buffer.write, commands run inside the body (bare, ![..], execx, $(..) re-printed, `echo $VAR`,
            `$[..]`), nested callable aliases, nested ExecAliases, returned str / tuple - as a callable alias compiled
            from xonsh source or as an ExecAlias (`a && b; c | vcat`), alone / feeding vcat / fed by vemit, with one or
            two `$VAR='value'` prefixes on any stage, read through $(), !().out, iteration, .raw_out, @$(), `> file`.
Oracle    : raw_out == payload byte for byte; text views match the decoded payload under one consistent
            newline reading (CR and CRLF -> LF; CRLF only; none), each escape segment present or absent as a
            whole, every text segment intact once and in order, one-line output may lose its final newline;
            .rtn == last stage's exit code; nothing of the payload reaches the shell's own stdout (fd 1 and
            sys.stdout are captured by the harness); stderr markers of the stages are not in the captured value.
            prog family: every view equals the concatenation of the segments IN PROGRAM ORDER (each segment carries a
            unique token; missing / doubled / reordered segments are named); what reaches the process' real fd 1 during
            the capture is exactly the `$[..]` segments (documented bypass) - anything else there is "echoed to the
            terminal" -, no segment on fd 2 / sys.stderr; `echo $VAR` / print($VAR) show the prefix value.
"""

from __future__ import annotations

import io
import json
import os
import re
import signal
import sys
import tempfile

from vlib import c06_prog as cp
from vlib import common, helpers
from vlib.common import Failure, Stats

PROP = "C06"
LEVEL = "exploration"
HOOKS = True
RULE = ("payload (segments, boundary-straddling sizes) x writer chunking/delay/linger/exit code x pipeline of 1-3 external/alias stages x "
        "capture kind x $THREAD_SUBPROCS x seeded delay plan at xonsh's schedule points; non-trivial = payload > 1024 bytes or >= 2 stages "
        "or chunked/delayed writer; distinct = hash of (payload, writer, pipeline, capture kind, config, plan). "
        "prog family: alias stage (callable from xonsh source | ExecAlias) emitting a sequence of 2-7 segments through "
        "{print, print(end=''), sys.stdout.write, stdout.write, print(file=stdout), .buffer.write, inner command bare/![]/execx/$()/$[]/echo $VAR, "
        "nested alias, nested ExecAlias, returned value} x position {alone, | vcat, vemit |, both} x $VAR='v' prefixes x view "
        "{$(), .out, iteration, .raw_out, @$(), > file}; non-trivial = >= 2 different write paths in the stage; distinct = hash of the case")

HANG_S = 40
SIZES = [0, 1, 2, 80, 1023, 1024, 1025, 2047, 2048, 2049, 4095, 4096, 4097, 8192, 65535, 65536, 65537, 131072, 131073, 200000]
ESCAPES = [b"\x1b[31m", b"\x1b[0m", b"\x1b[1;32m", b"\x1b[K", b"\x1b[2J", b"\x1b[38;5;196m"]
_state = {}


class _Timeout(BaseException):
    pass


def _alarm(signum, frame):
    raise _Timeout()


def _setup(scratch):
    if _state:
        return _state
    from vlib import session

    helpers.ensure()
    d = os.path.join(scratch, "c06-%d" % os.getpid())
    os.makedirs(d, exist_ok=True)
    signal.signal(signal.SIGALRM, _alarm)
    import xonsh._verif as xv

    if not xv.ENABLED:
        raise common.HarnessError("schedule-point hooks are not enabled (XONSH_XONSH_VERIF=1 must be set before xonsh is imported)")
    known = common.load_known(PROP)
    _state.update(session=session, dir=d, scratch=scratch, xv=xv, body=None,
                  open={e["id"] for e in known if e.get("status") == "open"},
                  fixed={e["id"] for e in known if e.get("status") == "fixed"})
    # C06-F3 (proposed by the builder of the prog family): until the entry is in known_findings.json the shape is
    # neither generated nor replayed (a failure could only be reported as a violation of an already analysed defect)
    _state["f3_mode"] = "open" if "C06-F3" in _state["open"] else "fixed" if "C06-F3" in _state["fixed"] else "absent"
    _state["f4_mode"] = "open" if "C06-F4" in _state["open"] else "fixed" if "C06-F4" in _state["fixed"] else "absent"
    return _state


# ----------------------------------------------------------------------------------------
# payload


def gen_payload(rnd, binary_ok):
    """-> (list of segments [kind, bytes], payload bytes)."""
    target = SIZES[rnd.randrange(len(SIZES))] if rnd.randrange(3) else rnd.randrange(0, 3000)
    segs = []
    total = 0

    def add(kind, b):
        nonlocal total
        if not b:
            return
        if segs and segs[-1][0] == kind == "text":
            segs[-1][1] += b
        else:
            segs.append([kind, b])
        total += len(b)

    nls = [b"\n", b"\n", b"\n", b"\r\n", b"\r"]
    while total < target:
        c = rnd.randrange(12)
        room = target - total
        if c < 6:
            n = min(room, 1 + rnd.randrange(120) if rnd.randrange(4) else 1 + rnd.randrange(2000))
            alpha = [b"a", b"b", b"Z", b"0", b" ", b"\t", b"-", b"\xc3\xa9", b"\xe4\xb8\xad", b"\xf0\x9f\x98\x80", b".", b"x"]
            out = bytearray()
            while len(out) < n:
                ch = alpha[rnd.randrange(len(alpha))]
                if len(out) + len(ch) > n:
                    ch = b"q"
                out += ch
            add("text", bytes(out))
        elif c < 9:
            nl = nls[rnd.randrange(len(nls))]
            if room < 2:
                nl = b"\n"
            if segs and segs[-1][1].endswith(b"\r") and nl.startswith(b"\n"):
                add("text", b"j")       # a bare CR directly followed by LF would *be* a CRLF in the byte stream
            add("nl", nl)
        elif c == 9:
            e = ESCAPES[rnd.randrange(len(ESCAPES))]
            if len(e) <= room:
                add("esc", e)
            else:
                add("text", b"p" * room)
        elif c == 10:
            e = b"\x01" + b"hid" * (1 + rnd.randrange(2)) + b"\x02"
            if len(e) <= room:
                add("esc", e)
            else:
                add("text", b"p" * room)
        else:
            if binary_ok:
                n = min(room, 1 + rnd.randrange(64))
                add("bin", bytes(rnd.randrange(256) for _ in range(n)))
            else:
                add("text", b"w" * min(room, 5))
    # place a CRLF / multi-byte char / escape across a 1024 boundary sometimes
    if total > 1100 and rnd.randrange(2) == 0:
        pass  # random composition already produces straddles; counted by the caller
    if rnd.randrange(2) == 0 and segs and segs[-1][0] != "nl":
        add("nl", b"\n")
    # nl segments must stay separate entries (add() merges only text)
    payload = b"".join(s[1] for s in segs)
    return segs, payload


def straddles(segs):
    """Which segment kinds straddle a multiple of 1024 (reader chunk)."""
    out = set()
    off = 0
    for kind, b in segs:
        a, e = off, off + len(b)
        if kind in ("nl", "esc") and len(b) > 1 and (a // 1024) != ((e - 1) // 1024):
            out.add(kind)
        if kind == "text":
            # multi-byte char across boundary
            for m in range((a // 1024 + 1) * 1024, e, 1024):
                i = m - a
                if 0 < i < len(b) and (b[i] & 0xC0) == 0x80:
                    out.add("mbchar")
        off = e
    return out


READINGS = {
    "all": {b"\n": "\n", b"\r\n": "\n", b"\r": "\n"},
    "crlf": {b"\n": "\n", b"\r\n": "\n", b"\r": "\r"},
    "none": {b"\n": "\n", b"\r\n": "\r\n", b"\r": "\r"},
}


def expected_texts(segs, enc="utf-8"):
    """Expected text (escape segments removed) under each consistent newline reading, or None when
    the payload has raw binary segments."""
    out = {}
    for name, m in READINGS.items():
        parts = []
        for kind, b in segs:
            if kind == "text":
                parts.append(b.decode(enc))
            elif kind == "nl":
                parts.append(m[b])
            elif kind == "bin":
                return None
        out[name] = "".join(parts)
    return out


def cr_mixed_match(segs, got, enc="utf-8"):
    """True when `got` equals the payload text if every lone CR may *independently* be '\r' or '\n'
    (the recorded per-occurrence inconsistency, C06-F2) - everything else exact."""
    parts = []
    for kind, b in segs:
        if kind == "text":
            parts.append(re.escape(b.decode(enc)))
        elif kind == "nl":
            # a CR LF pair whose CR ends one piece and whose LF starts the next is the same defect: the CR is converted on its
            # own, the LF follows -> two newlines
            parts.append({b"\n": "\n", b"\r\n": "(?:\r\n|\n\n|\n)", b"\r": "[\r\n]"}[b])
        elif kind == "bin":
            return False
    rx = "".join(parts)
    g = strip_escapes(segs, got, enc)
    return re.fullmatch(rx, g, re.S) is not None or re.fullmatch(rx, g + "\n", re.S) is not None


def strip_escapes(segs, got, enc="utf-8"):
    for e in sorted({b.decode(enc) for k, b in segs if k == "esc"}, key=len, reverse=True):
        got = got.replace(e, "")
    return got


def match_text(segs, got):
    """-> None when the text view is acceptable, else a description of the first difference against
    the closest reading.  Escape sequences may be kept or stripped (each as a whole)."""
    exp = expected_texts(segs)
    if exp is None:
        return None
    g = strip_escapes(segs, got)
    best = None
    for name, e in exp.items():
        # one-line output (under this reading) may lose its final newline
        one_line = e.count("\n") == 1 and e.endswith("\n")
        if g == e or (one_line and g + "\n" == e):
            return None
        n = 0
        for a, b in zip(g, e):
            if a != b:
                break
            n += 1
        if best is None or n > best[0]:
            best = (n, name, e)
    n, name, e = best
    return "first difference from the %r reading at char %d: got %r, expected %r (lengths %d vs %d)" % (
        name, n, g[max(0, n - 12):n + 12], e[max(0, n - 12):n + 12], len(g), len(e))


# ----------------------------------------------------------------------------------------
# case generation


def gen_case(rnd):
    kind = ["dollar", "out", "iter", "raw", "rtn", "atdollar"][rnd.randrange(6)]
    binary_ok = kind in ("raw", "rtn")
    segs, payload = gen_payload(rnd, binary_ok)
    if kind in ("dollar", "out", "iter") and "C06-F2" in _state.get("open", ()) and rnd.randrange(6) != 0 \
            and any(k == "nl" and b == b"\r" for k, b in segs):
        # recorded finding: lone CRs are normalised per occurrence; mostly avoided (counted by the caller)
        segs = [[k, (b"\n" if (k == "nl" and b == b"\r") else b)] for k, b in segs]
        payload = b"".join(b for _k, b in segs)
        _state["avoided_f2"] = _state.get("avoided_f2", 0) + 1
    if kind == "atdollar":
        # @$() splits on whitespace: keep to a small text payload of plain words
        words = ["w%d" % rnd.randrange(100) for _ in range(1 + rnd.randrange(5))]
        payload = (" ".join(words) + "\n").encode()
        segs = [["text", payload[:-1]], ["nl", b"\n"]]
    chunk = [0, 0, 1, 7, 512, 1023, 1024, 1025, 4096, 65536][rnd.randrange(10)]
    if len(payload) > 20000 and 0 < chunk < 512:
        chunk = 512
    delay = [0, 0, 0, 100, 1000, 5000][rnd.randrange(6)] if chunk and len(payload) // max(chunk, 1) < 60 else 0
    linger = [0, 0, 2000, 20000][rnd.randrange(4)]
    code = [0, 0, 1, 2, 127, 255][rnd.randrange(6)]
    nstage = 1 + (rnd.randrange(3) if rnd.randrange(2) else 0)
    thread = bool(rnd.randrange(2))
    # callable-alias stages read/write *text* streams (universal newlines on read): only LF payloads go through them
    text_only = all(k != "bin" for k, _ in segs) and not any(b"\r" in b for _k, b in segs)
    stages = []
    first = "vemit"
    if text_only and len(payload) < 70000 and rnd.randrange(4) == 0:
        first = "awrite"
    stages.append(first)
    if first == "awrite" and nstage > 1 and not thread:
        first = stages[0] = "vemit"        # unthreaded aliases are rejected in pipelines by design
    for _ in range(nstage - 1):
        opts = ["vcat", "vcat", "vcat7"]
        if text_only and len(payload) < 70000 and thread:
            opts.append("apass")
        stages.append(opts[rnd.randrange(len(opts))])
    return {
        "segs": [[k, b.hex()] for k, b in segs], "kind": kind, "chunk": chunk, "delay": delay, "linger": linger, "code": code,
        "stages": stages, "thread": thread, "capture_always": rnd.randrange(4) == 0,
        "plan": [rnd.randrange(1 << 30), [0.0, 0.05, 0.3][rnd.randrange(3)], [1.0, 3.0][rnd.randrange(2)]],
        "stderr_marker": rnd.randrange(3) == 0,
    }


# ----------------------------------------------------------------------------------------
# execution


def _exec_observed(src, plan):
    """Execute `src` under the delay plan while the process' real fd 1 / fd 2 point to scratch files and the
    Python-level streams are StringIOs.  -> (exc, bytes on fd 1, bytes on fd 2, sys.stdout text, sys.stderr text)"""
    st = _state
    session, xv, d = st["session"], st["xv"], st["dir"]
    seed, prob, max_ms = plan
    xv.set_plan(seed, prob, max_ms)
    # capture the shell's own terminal: fd 1 / fd 2 and the Python-level streams
    sys.stdout.flush()
    sys.stderr.flush()
    t1 = tempfile.TemporaryFile(dir=d)
    t2 = tempfile.TemporaryFile(dir=d)
    save1, save2 = os.dup(1), os.dup(2)
    os.dup2(t1.fileno(), 1)
    os.dup2(t2.fileno(), 2)
    old_out, old_err = sys.stdout, sys.stderr
    py_out, py_err = io.StringIO(), io.StringIO()
    sys.stdout, sys.stderr = py_out, py_err
    exc = None
    signal.setitimer(signal.ITIMER_REAL, HANG_S, 2.0)
    try:
        try:
            session.xexec(src)
        except _Timeout:
            exc = "HANG"
        except BaseException as e:  # noqa: BLE001
            exc = "%s: %s" % (type(e).__name__, str(e)[:200])
    finally:
        signal.setitimer(signal.ITIMER_REAL, 0)
        if exc == "HANG":
            _kill_children()        # unblock the stage threads, or every later case of this worker runs beside them
        sys.stdout, sys.stderr = old_out, old_err
        try:
            # text that xonsh handed to the process' original stream objects (the dispatchers' defaults) is still
            # on its way to fd 1 / fd 2: let it land in the scratch files, not on the worker's real output
            old_out.flush()
            old_err.flush()
        except (OSError, ValueError):
            pass
        os.dup2(save1, 1)
        os.dup2(save2, 2)
        os.close(save1)
        os.close(save2)
    t1.seek(0)
    t2.seek(0)
    term1, term2 = t1.read(), t2.read()
    t1.close()
    t2.close()
    try:
        err_text = py_err.getvalue()
    except ValueError:          # xonsh closed the stand-in for sys.stderr (safe_fdclose of an alias' stderr)
        err_text = ""
    return exc, term1, term2, py_out.getvalue(), err_text


def _kill_children():
    """SIGKILL every live child process of this worker (stages a failed / deadlocked case left behind).  -> count"""
    me = os.getpid()
    n = 0
    for p in os.listdir("/proc"):
        if not p.isdigit():
            continue
        try:
            with open("/proc/%s/stat" % p) as f:
                stat = f.read()
            rest = stat[stat.rindex(")") + 2:].split()
            if int(rest[1]) == me and rest[0] != "Z":
                os.kill(int(p), signal.SIGKILL)
                n += 1
        except (OSError, ValueError):
            pass
    return n


def _cleanup_leftovers(st):
    """End of a worker: a case that went wrong inside xonsh (deadlock, leaked pipe end) can leave a stage process and
    the non-daemon thread that waits for it behind; the worker process would then never exit and the run would hang
    instead of reporting.  Kill such children, give the threads a moment, and as a last resort make the interpreter
    exit without joining them (everything has been handed to the parent by then)."""
    import threading
    import time

    killed = _kill_children()
    if killed:
        st.hist["leftover-stage-process-killed-at-worker-end"] += killed
    deadline = time.time() + 3.0
    alive = []
    while time.time() < deadline:
        alive = [t for t in threading.enumerate() if t is not threading.main_thread() and not t.daemon and t.is_alive()]
        if not alive:
            break
        time.sleep(0.05)
    if alive:
        st.hist["leftover-thread-at-worker-end"] += len(alive)
        st.notes.append("worker ended with %d xonsh thread(s) still alive (%s); exit forced" % (len(alive), ", ".join(type(t).__name__ for t in alive[:5])))
        reg = getattr(threading, "_register_atexit", None)
        if reg is not None:
            sys.stdout.flush()
            sys.stderr.flush()
            reg(os._exit, 0)


def run_case(case):
    st = _state
    session, d = st["session"], st["dir"]
    segs = [[k, bytes.fromhex(h)] for k, h in case["segs"]]
    payload = b"".join(b for _k, b in segs)
    pfile = os.path.join(d, "payload.bin")
    with open(pfile, "wb") as f:
        f.write(payload)
    XSH = session.load_session(st["scratch"], THREAD_SUBPROCS=case["thread"], XONSH_CAPTURE_ALWAYS=case["capture_always"],
                               XONSH_SUBPROC_RAISE_ERROR=False, XONSH_SUBPROC_CMD_RAISE_ERROR=False)
    text = payload.decode("utf-8", "surrogateescape")
    chunk = case["chunk"]

    def awrite(args, stdin=None, stdout=None, stderr=None):
        step = chunk or len(text) or 1
        for i in range(0, len(text), step):
            stdout.write(text[i:i + step])
        return int(args[0]) if args else 0

    def apass(args, stdin=None, stdout=None, stderr=None):
        data = stdin.read()
        stdout.write(data)
        return int(args[0]) if args else 0

    XSH.aliases["awrite"] = awrite
    XSH.aliases["apass"] = apass
    rec = []

    def recw(args, stdin=None):
        rec.append(list(args))
        return 0

    XSH.aliases["recw"] = recw
    stages = case["stages"]
    last = len(stages) - 1
    parts = []
    for i, s in enumerate(stages):
        code = case["code"] if i == last else [0, 3][i % 2]
        marker = " 0" if not case["stderr_marker"] else ""
        if s == "vemit":
            parts.append("vemit %s 1 %d %d %d %d" % (pfile, chunk, case["delay"], code, case["linger"]))
        elif s == "awrite":
            parts.append("awrite %d" % code)
        elif s == "vcat":
            parts.append("vcat 4096 %d%s" % (code, " STDERRMARK%d" % i if case["stderr_marker"] else ""))
        elif s == "vcat7":
            parts.append("vcat 7 %d" % code)
        elif s == "apass":
            parts.append("apass %d" % code)
        del marker
    cmd = " | ".join(parts)
    kind = case["kind"]
    if kind == "dollar":
        src = "R = $(" + cmd + ")\n"
    elif kind == "atdollar":
        src = "recw @$(" + cmd + ")\nR = None\n"
    else:
        src = "P = !(" + cmd + ")\n"
        src += {"out": "R = P.out\n", "iter": "R = [l for l in P]\n", "raw": "R = P.raw_out\n", "rtn": "R = P.rtn\n"}[kind]
        src += "RTN = P.rtn\nRAW = P.raw_out\n"
    XSH.ctx.clear()
    exc, term1, term2, py_out, _py_err = _exec_observed(src, case["plan"])
    res = {"exc": exc, "term1": term1, "term2": term2, "py_out": py_out, "R": XSH.ctx.get("R"), "RTN": XSH.ctx.get("RTN"),
           "RAW": XSH.ctx.get("RAW"), "rec": rec, "payload": payload, "segs": segs, "cmd": cmd}
    try:
        P = XSH.ctx.get("P")
        res["cls"] = [getattr(s.cls, "__name__", str(s.cls)) for s in P.specs] if P is not None else []
    except Exception:  # noqa: BLE001
        res["cls"] = []
    return res


# ----------------------------------------------------------------------------------------
# "prog" family: one alias stage that emits a sequence of segments through different write paths


def _body_alias():
    """The interpreter alias, compiled once per process from xonsh source by the real execer."""
    st = _state
    if st.get("body") is None:
        g = {}
        st["session"].xexec(cp.BODY_SRC, glbs=g)
        st["body"] = g
    return st["body"]


def run_prog(case):
    st = _state
    session, d = st["session"], st["dir"]
    XSH = session.load_session(st["scratch"], THREAD_SUBPROCS=True, XONSH_CAPTURE_ALWAYS=bool(case.get("capture_always")),
                               XONSH_SUBPROC_RAISE_ERROR=False, XONSH_SUBPROC_CMD_RAISE_ERROR=False)
    XSH.env[cp.TVAR] = cp.TDEFAULT
    g = _body_alias()
    pd = os.path.join(d, "prog")
    os.makedirs(pd, exist_ok=True)
    prep, cmd, outfile = cp.prepare(case, pd)
    g["_C06"]["table"] = prep.table
    XSH.aliases["c06a"] = g["_c06_body"]
    XSH.aliases["c06i"] = g["_c06_body"]
    for name, src in prep.aliases.items():
        XSH.aliases[name] = src
    atypes = {name: type(XSH.aliases._raw.get(name)).__name__ for name in prep.aliases}
    if any(t != "ExecAlias" for t in atypes.values()):
        # a one-command string becomes a plain list alias, whose `$VAR` is expanded at the call site: not generated
        raise common.HarnessError("alias string did not become an ExecAlias: %r %r" % (atypes, prep.aliases))
    rec = []

    def recw(args, stdin=None):
        rec.append(list(args))
        return 0

    XSH.aliases["recw"] = recw
    view = case["view"]
    if view == "dollar":
        src = "R = $(" + cmd + ")\n"
    elif view == "atdollar":
        src = "recw @$(" + cmd + ")\nR = None\n"
    elif view == "file":
        src = cmd + "\nR = None\n"
    else:
        src = "P = !(" + cmd + ")\n"
        src += {"out": "R = P.out\n", "iter": "R = [l for l in P]\n", "raw": "R = P.raw_out\n"}[view]
        src += "RTN = P.rtn\nRAW = P.raw_out\n"
    XSH.ctx.clear()
    exc, term1, term2, py_out, py_err = _exec_observed(src, case["plan"])
    res = {"exc": exc, "term1": term1, "term2": term2, "py_out": py_out, "py_err": py_err, "R": XSH.ctx.get("R"), "RTN": XSH.ctx.get("RTN"),
           "RAW": XSH.ctx.get("RAW"), "rec": rec, "cmd": cmd, "cls": [], "file": None,
           "aliases": dict(prep.aliases), "alias_types": atypes}
    if outfile is not None:
        try:
            with open(outfile, "rb") as f:
                res["file"] = f.read()
        except OSError as e:
            res["file"] = None
            res["file_err"] = str(e)
    try:
        P = XSH.ctx.get("P")
        res["cls"] = [getattr(s.cls, "__name__", str(s.cls)) for s in P.specs] if P is not None else []
    except Exception:  # noqa: BLE001
        pass
    g["_C06"]["table"] = {}
    return res


def _short(x):
    s = repr(x)
    return s if len(s) < 200 else s[:90] + "...<%d>..." % len(s) + s[-90:]


def _text_matcher(exp, got):
    """bytes x bytes -> bool under the text-view rules (LF-only payloads: exact, a single line may lose its newline)."""
    segs = cp.segs_of(exp)
    if segs is None:
        return exp == got
    try:
        return match_text(segs, got.decode("utf-8")) is None
    except UnicodeDecodeError:
        return False


def check_prog(case):
    m = cp.model(case)
    r = run_prog(case)
    expected = bytes(m.out)
    view = case["view"]
    problems = []            # (kind, text, tolerated by the C06-F3 predicate?)

    def eq(e, g):
        return e == g

    if r["exc"] == "HANG":
        problems.append(("deadlock", "capture did not return within %d s" % HANG_S, False))
    elif r["exc"]:
        problems.append(("exception", "capture raised %s" % r["exc"], False))
    else:
        R = r["R"]
        got = None
        if view == "raw":
            got = R if isinstance(R, bytes) else b""
            if R != expected:
                problems.append(("raw-differs", "raw_out has %d bytes, the stage wrote %d; first difference at %s" % (
                    len(got), len(expected), _first_diff(got, expected)), cp.f3_tolerates(m, got, eq)))
        elif view == "file":
            got = r["file"]
            if got != expected:
                problems.append(("file-differs", "the redirect target has %s bytes, the stage wrote %d; first difference at %s" % (
                    "no" if got is None else len(got), len(expected), _first_diff(got or b"", expected)), cp.f3_tolerates(m, got or b"", eq)))
        elif view == "atdollar":
            want = expected.decode().split()
            got = " ".join(r["rec"][0]) if len(r["rec"]) == 1 else None
            if r["rec"] != [want]:
                problems.append(("atdollar-differs", "@$() delivered %s, expected %s" % (_short(r["rec"]), _short(want)),
                                 got is not None and cp.f3_tolerates(m, got, eq, norm=lambda b: b"".join(b.split()))))
        else:
            got = "".join(R) if view == "iter" and isinstance(R, list) else R
            if not isinstance(got, str):
                problems.append(("type", "captured value is %s" % type(got).__name__, False))
                got = None
            else:
                segs = cp.segs_of(expected)
                why = match_text(segs, got)
                if why:
                    try:
                        fixed = got.encode("utf-8", "surrogateescape").decode("utf-8")
                    except UnicodeError:
                        fixed = None
                    if fixed is not None and fixed != got and match_text(segs, fixed) is None:
                        problems.append(("split-char", "%s view: a multi-byte character split between two reads was decoded per chunk: %s" % (view, why), False))
                        got = None
                    else:
                        tol = cp.f3_tolerates(m, got, _text_matcher)
                        if not tol and fixed is not None and fixed != got and view in ("out", "iter") and "C06-F1" in _state["open"]:
                            # both recorded defects at once: per-chunk decoding (F1) of a capture that is also reordered (F3)
                            tol = cp.f3_tolerates(m, fixed, _text_matcher)
                        problems.append(("text-differs", "%s view is not the concatenation of the stage's segments in program order: %s" % (view, why), tol))
            if view == "iter" and isinstance(R, list) and any(("\n" in ln[:-1]) for ln in R if ln):
                problems.append(("iter-lines", "an iterated line contains an interior newline: %s" % _short(R), False))
        if problems and got is not None and problems[0][0].endswith("-differs"):
            note = cp.describe(expected, got, m.segments)
            if note:
                problems[0] = (problems[0][0], problems[0][1] + " {" + note + "}", problems[0][2])
        if view in ("out", "iter", "raw"):
            want_rtn = cp.expected_rtn(case)
            if r["RTN"] != want_rtn:
                problems.append(("rtn-differs", "rtn %r, last stage exited with %d" % (r["RTN"], want_rtn), False))
            if r["RAW"] != expected and view != "raw":
                raw = r["RAW"] if isinstance(r["RAW"], bytes) else b""
                problems.append(("raw-differs", "raw_out has %d bytes, the stage wrote %d; first difference at %s" % (
                    len(raw), len(expected), _first_diff(raw, expected)), cp.f3_tolerates(m, raw, eq)))
        # the terminal: only the documented `$[...]` bypass may reach the real fd 1; nothing of the stage on fd 2
        want_term = bytes(m.term)
        if r["term1"] != want_term or r["py_out"]:
            problems.append(("echoed", "during the capture the process' own stdout received %s (sys.stdout: %s); only %s was allowed there" % (
                _short(r["term1"]), _short(r["py_out"]), _short(want_term) if want_term else "nothing"), False))
        leak2 = cp.TOKEN_RX.findall(r["term2"].decode("utf-8", "replace")) + cp.TOKEN_RX.findall(r["py_err"])
        if leak2:
            problems.append(("echoed-stderr", "segments of the stage's stdout appeared on the process' stderr: %s" % " ".join(leak2[:8]), False))
    if not problems:
        return None, r
    k = problems[0][0]
    detail = "; ".join(p[1] for p in problems) + " [src: %s; aliases %s; classes %s]" % (r["cmd"], r.get("aliases"), r.get("cls"))
    fid = None
    if k == "split-char" and view in ("out", "iter") and len(problems) == 1:
        fid = "C06-F1"
    elif all(p[2] for p in problems):
        fid = "C06-F3"
    elif cp.f4_shape(case) is not None and "Bad file descriptor" in r["py_err"] and len(problems) == 1 and k in ("text-differs", "atdollar-differs"):
        # C06-F4: the connecting pipe's read end was closed under the alias (PrevProcCloser, 0.1 s after the upstream
        # stage ended); the alias died at stdin.read(), the capture holds exactly what it had written before
        pre = cp.f4_prefix(case)
        if view == "dollar" and isinstance(r["R"], str) and _text_matcher(pre, r["R"].encode("utf-8", "surrogateescape")):
            fid = "C06-F4"
        elif view == "atdollar" and r["rec"] == [pre.decode().split()]:
            fid = "C06-F4"
    ai = "1" if case["pos"] in ("last", "mid") else "0"
    bucket = fid or ("prog:" + k + ":" + case["stage"] + (":alias-stage-has-env-prefix" if case.get("envs", {}).get(ai) else ""))
    return Failure(k, case, detail[:3000], finding=fid, bucket=bucket), r


def minimize_prog(case, kind, budget=40):
    """Greedy reduction of a failing prog case (drop ops, decorations, stages; shorten texts) while the same failure
    kind reproduces.  Bounded number of executions."""
    import copy

    used = [0]

    def fails(c):
        if used[0] >= budget:
            return False
        used[0] += 1
        try:
            f, _r = check_prog(c)
        except common.HarnessError:
            return False
        return f is not None and f.kind == kind and f.finding is None

    best = case
    for mut in ("plan", "envs-other", "pos", "capture", "ops", "texts"):
        if mut == "plan":
            c = copy.deepcopy(best)
            c["plan"] = [0, 0.0, 1.0]
            if fails(c):
                best = c
        elif mut == "envs-other":
            ai = "1" if best["pos"] in ("last", "mid") else "0"
            c = copy.deepcopy(best)
            c["envs"] = {k: v for k, v in c.get("envs", {}).items() if k == ai}
            if c["envs"] != best.get("envs") and fails(c):
                best = c
            if best.get("envs"):
                c = copy.deepcopy(best)
                c["envs"] = {}
                if fails(c):
                    best = c
        elif mut == "pos" and best["pos"] != "only":
            c = copy.deepcopy(best)
            ai = "1" if best["pos"] in ("last", "mid") else "0"
            c["envs"] = {"0": v for k, v in c.get("envs", {}).items() if k == ai}
            c["pos"] = "only"
            c["ops"] = [op for op in c["ops"] if op[0] != "i"]
            c.pop("tail", None)
            c.pop("feed", None)
            if c["ops"] and fails(c):
                best = c
        elif mut == "capture" and best.get("capture_always"):
            c = copy.deepcopy(best)
            c["capture_always"] = False
            if fails(c):
                best = c
        elif mut == "ops":
            i = 0
            while i < len(best["ops"]) and len(best["ops"]) > 1:
                c = copy.deepcopy(best)
                del c["ops"][i]
                if best["stage"] == "xa":
                    del c["joins"][min(i, len(c["joins"]) - 1)]
                try:
                    cp.model(c)
                except common.HarnessError:
                    i += 1
                    continue
                if fails(c):
                    best = c
                else:
                    i += 1
        elif mut == "texts":
            for i, op in enumerate(best["ops"]):
                if op[0] in "pPswlv" and len(op[1]) > 12:
                    c = copy.deepcopy(best)
                    tok = cp.TOKEN_RX.match(op[1])
                    c["ops"][i][1] = (tok.group(0) if tok else "t") + ("\n" if op[1].endswith("\n") else "")
                    if fails(c):
                        best = c
    return best


def classify(case, kind, detail):
    if kind == "split-char" and case["thread"] and case["kind"] in ("out", "iter"):
        return "C06-F1"
    if kind == "cr-inconsistent":
        return "C06-F2"
    return None


def check_case(case):
    if case.get("fam") == "prog":
        return check_prog(case)
    r = run_case(case)
    payload, segs = r["payload"], r["segs"]
    kind = case["kind"]
    problems = []

    def short(x):
        s = repr(x)
        return s if len(s) < 160 else s[:70] + "...<%d>..." % len(s) + s[-70:]

    if r["exc"] == "HANG":
        problems.append(("deadlock", "capture did not return within %d s (%s)" % (HANG_S, r["cmd"])))
    elif r["exc"]:
        problems.append(("exception", "capture raised %s" % r["exc"]))
    else:
        R = r["R"]
        if kind == "raw":
            if R != payload:
                problems.append(("raw-differs", "raw_out has %d bytes, payload %d; first difference at %s" % (
                    len(R or b""), len(payload), _first_diff(R or b"", payload))))
        elif kind == "rtn":
            pass
        elif kind == "atdollar":
            want = payload.decode().split()
            if r["rec"] != [want]:
                problems.append(("atdollar-differs", "@$() delivered %s, expected %s" % (short(r["rec"]), short(want))))
        else:
            got = "".join(R) if kind == "iter" else R
            if not isinstance(got, str):
                problems.append(("type", "captured value is %s" % type(got).__name__))
            else:
                why = match_text(segs, got)
                if why:
                    # the recorded split-character defect: re-assembling the surrogate-escaped bytes gives the right text
                    try:
                        fixed = got.encode("utf-8", "surrogateescape").decode("utf-8")
                    except UnicodeError:
                        fixed = None
                    if fixed is not None and fixed != got and match_text(segs, fixed) is None:
                        problems.append(("split-char", "%s view: a multi-byte character split between two reads was decoded per chunk: %s" % (kind, why)))
                    elif any(k == "nl" and b in (b"\r", b"\r\n") for k, b in segs) and (
                            cr_mixed_match(segs, got) or (fixed is not None and cr_mixed_match(segs, fixed))):
                        # (also when the split-character defect shows in the same capture: both are recorded)
                        problems.append(("cr-inconsistent", "%s view: lone CRs are normalised per occurrence (depending on where the reads fall), not uniformly: %s" % (kind, why)))
                    else:
                        problems.append(("text-differs", "%s view does not match the payload under any consistent reading: %s" % (kind, why)))
            if kind == "iter" and isinstance(R, list) and any(("\n" in ln[:-1]) for ln in R if ln):
                problems.append(("iter-lines", "an iterated line contains an interior newline: %s" % short(R)))
        if kind not in ("dollar", "atdollar"):
            if r["RTN"] != case["code"]:
                problems.append(("rtn-differs", "rtn %r, last stage exited with %d (%s)" % (r["RTN"], case["code"], r["cmd"])))
            if r["RAW"] != payload:
                problems.append(("raw-differs", "raw_out has %d bytes, payload %d; first difference at %s" % (
                    len(r["RAW"] or b""), len(payload), _first_diff(r["RAW"] or b"", payload))))
        # captured data must not be echoed to the shell's own stdout
        if len(payload) >= 4:
            probe = payload[:64]
            if probe in r["term1"] or (r["py_out"] and probe.decode("utf-8", "replace")[:32] in r["py_out"]):
                problems.append(("echoed", "captured output also reached the shell's stdout: %s" % short(r["term1"][:80] or r["py_out"][:80])))
        if case["stderr_marker"] and isinstance(r["R"], (str, bytes, list)):
            flat = "".join(r["R"]) if isinstance(r["R"], list) else r["R"]
            if (b"STDERRMARK" in flat) if isinstance(flat, bytes) else ("STDERRMARK" in flat):
                problems.append(("stderr-mixed", "a stage's stderr appears in the captured value"))
    if not problems:
        return None, r
    k = problems[0][0]
    detail = "; ".join(p[1] for p in problems) + " [cmd: %s; classes %s; thread=%s]" % (r["cmd"], r.get("cls"), case["thread"])
    fid = classify(case, k, detail)
    return Failure(k, case, detail, finding=fid, bucket=fid or (k + ":" + case["kind"] + ":" + ("thr" if case["thread"] else "nothr"))), r


def _first_diff(a, b):
    n = min(len(a), len(b))
    for i in range(n):
        if a[i] != b[i]:
            return "offset %d (%r vs %r)" % (i, a[max(0, i - 4):i + 6], b[max(0, i - 4):i + 6])
    return "offset %d (length)" % n


def _confirm(c, f, st):
    """Only what reproduces is reported: the OS still owns the real interleaving, and the workers share the machine.
    Re-run the same case (same plan, then perturbed plans); a failure that never shows again is counted as an
    unreproduced schedule anomaly (inconclusive), not a violation.  -> Failure | None"""
    again = None
    for t in range(6):
        c2 = dict(c)
        if t >= 2:
            c2["plan"] = [c["plan"][0] + 1000 + t, 0.3, 3.0]
        again, _r2 = check_case(c2)
        if again is not None:
            break
    if again is None:
        st.inconclusive += 1
        st.hist["unreproduced-schedule-anomaly:" + f.kind] += 1
        st.notes.append("unreproduced (0 of 6 re-runs): %s | %s" % (f.kind, f.detail[:300]))
    return again


def worker_prog(arg):
    seed, n, plans, scratch = arg[:4]
    from hypothesis import strategies as hs

    _setup(scratch)
    st = Stats()
    seen_buckets = set()

    def body(rnd):
        case = cp.gen_case(rnd, _state["f3_mode"], _state["f4_mode"])
        if case.pop("avoided_f3", None):
            st.excluded_known["C06-F3"] += 1
        if case.pop("avoided_f4", None):
            st.excluded_known["C06-F4"] += 1
        if case["view"] == "atdollar":
            st.hist["prog:not-generated:env-prefix-inside-@$()"] += 1      # `@$($V='x' cmd)` does not compile; not a capture matter
        m = cp.model(case)
        classes = cp.op_classes(case["ops"])
        paths = {c.split(":")[1][0] for c in classes if "@" not in c}
        nontrivial = len(paths - set("fF")) >= 2
        ai = "1" if case["pos"] in ("last", "mid") else "0"
        labels = ["prog:view:" + case["view"], "prog:stage:" + case["stage"], "prog:pos:" + case["pos"],
                  "prog:alias-prefix:%d" % len(case["envs"].get(ai, [])), "prog:other-prefix:%s" % bool([k for k in case["envs"] if k != ai]),
                  "prog:inner-commands:%s" % cp.has_inner(case["ops"]), "prog:capture_always:%s" % case["capture_always"],
                  "prog:bytes:" + ("0" if not m.out else "<=1024" if len(m.out) <= 1024 else "<=8192" if len(m.out) <= 8192 else "<=65536" if len(m.out) <= 65536 else ">64K")]
        labels += ["prog:" + c for c in sorted(classes)]
        if case["stage"] == "cb":
            labels += ["prog:" + t for t in sorted(cp.transitions(case["ops"]))]
        if m.f3:
            labels.append("prog:shape:C06-F3")
        if (cp.f4_shape(case) or 0) > 0:
            labels.append("prog:shape:C06-F4")
        if m.term:
            labels.append("prog:documented-bypass:$[]")
        for p in range(plans):
            c = dict(case)
            if p:
                c["plan"] = [case["plan"][0] + p, [0.05, 0.3][p % 2], case["plan"][2]]
            f, r = check_case(c)
            if f is not None and f.finding is None:
                f = _confirm(c, f, st)
            st.case(json.dumps(c, sort_keys=True), bool(nontrivial), labels + ["prog:spec.cls:" + cl for cl in set(r.get("cls") or [])],
                    sample=c if nontrivial and len(m.out) < 400 else None, max_per_label=1)
            if f is not None:
                if f.finding is None and f.bucket not in seen_buckets and len(seen_buckets) < 5:
                    seen_buckets.add(f.bucket)
                    small = minimize_prog(f.case, f.kind)
                    if small is not f.case:
                        f2, _r = check_case(small)
                        if f2 is not None and f2.finding is None:
                            f2.bucket = f.bucket
                            f = f2
                st.fail(f)
                break

    common.run_given(hs.randoms(use_true_random=False), body, seed, n)
    _cleanup_leftovers(st)
    best = {}
    for f in st.failures:
        b = best.get(f.bucket)
        if b is None or len(json.dumps(f.case)) < len(json.dumps(b.case)):
            best[f.bucket] = f
    st.failures = list(best.values())
    return st


def worker(arg):
    if len(arg) > 4 and arg[4] == "prog":
        return worker_prog(arg)
    seed, n, plans, scratch = arg[:4]
    from hypothesis import strategies as hs

    _setup(scratch)
    st = Stats()

    def body(rnd):
        case = gen_case(rnd)
        segs = [[k, bytes.fromhex(h)] for k, h in case["segs"]]
        size = sum(len(b) for _k, b in segs)
        for p in range(plans):
            c = dict(case)
            if p:
                c["plan"] = [case["plan"][0] + p, [0.05, 0.3][p % 2], case["plan"][2]]
            f, r = check_case(c)
            if f is not None and f.finding is None:
                f = _confirm(c, f, st)
            nontrivial = size > 1024 or len(case["stages"]) >= 2 or (case["chunk"] and case["chunk"] < size) or case["delay"] > 0
            labels = ["kind:" + case["kind"], "thread:%s" % case["thread"], "stages:%d" % len(case["stages"]),
                      "size:" + ("0" if size == 0 else "<=1024" if size <= 1024 else "<=65536" if size <= 65536 else ">64K")]
            for s in straddles(segs):
                labels.append("straddle:" + s)
            for cl in set(r.get("cls") or []):
                labels.append("spec.cls:" + cl)
            key = (case["segs"], case["kind"], case["chunk"], case["delay"], case["linger"], tuple(case["stages"]), case["thread"], tuple(c["plan"]))
            st.case(key, bool(nontrivial), labels,
                    sample={k: v for k, v in c.items() if k != "segs"} | {"payload_bytes": size} if nontrivial else None, max_per_label=1)
            if f is not None:
                st.fail(f)
                break

    common.run_given(hs.randoms(use_true_random=False), body, seed, n)
    _cleanup_leftovers(st)
    if _state.get("avoided_f2"):
        st.excluded_known["C06-F2"] += _state["avoided_f2"]
    best = {}
    for f in st.failures:
        b = best.get(f.bucket)
        size = sum(len(h) for _k, h in f.case["segs"])
        if b is None or size < sum(len(h) for _k, h in b.case["segs"]):
            best[f.bucket] = f
    st.failures = list(best.values())
    return st


def _replay_case(case):
    if case.get("fam") == "prog" and _state["f3_mode"] == "absent" and cp.model(case).f3:
        # replays/C06/F3.json before its entry is in known_findings.json: see _setup
        return None
    if case.get("fam") == "prog" and _state["f4_mode"] == "absent" and (cp.f4_shape(case) or 0) > 0:
        return None
    f, _r = check_case(case)
    return f


def main(run):
    _setup(run.scratch)
    common.replay_tier(run, _replay_case)
    nw = 16
    per = run.n(110, 1500)
    plans = run.n(2, 6)
    per_prog = run.n(80, 1200)
    args = []
    for w in range(nw):
        args.append((common.worker_seed(run.seed, w), per, plans, run.scratch))
        args.append((common.worker_seed(run.seed, 100 + w), per_prog, run.n(1, 2), run.scratch, "prog"))
    common.pool_map(run, __name__, "worker", args, hooks=True)
    if _state["f4_mode"] == "absent":
        run.stats.notes.append("C06-F4 is not in known_findings.json: its shape (alias as last stage of $()/@$() that reads stdin after other "
                               "work) is not generated and replays/C06/F4.json is skipped")
    if _state["f3_mode"] == "absent":
        run.stats.notes.append("C06-F3 is not in known_findings.json: its shape (text pending in the stdout argument when the alias "
                               "runs a command) is not generated and replays/C06/F3.json is skipped")
    run.assumptions += [
        "schedules of xonsh's helper threads are perturbed by seeded delay injection at the guarded schedule points; they are sampled, not enumerated",
        "alternate-screen switches (ESC[?1049h etc.), which PopenThread deliberately passes to the terminal, are not generated",
        "text views may keep or strip each escape sequence as a whole, and may use any one consistent CR/CRLF reading; one-line output may lose its final newline",
        "prog family: alias bodies that run commands are generated only with $THREAD_SUBPROCS=True (documented precondition) and only "
        "write to stdout; one alias stage per pipeline (two concurrent threaded aliases are C07-F14's domain); `$[cmd]` inside an alias "
        "is expected on the real terminal (docs/subprocess.rst); an alias that mixes stdout.write() with stdout.buffer.write() flushes in "
        "between (plain Python discipline); `$VAR='v'` prefixes are not placed inside @$() (does not compile - not a capture matter)",
    ]


def replay(run, path):
    with open(path) as f:
        d = json.load(f)
    case = d.get("case", d)
    _setup(run.scratch)
    fail = _replay_case(case)
    if fail is None:
        print("replay: property holds on this case")
        return 0
    print("VIOLATION property=%s replay=%s kind=%s %s" % (PROP, path, fail.kind, fail.detail))
    return 1

"""C04 - arguments reach the command exactly as written.

Generator : a command line `rec ARG...` (1-6 arguments) where each argument is an (expected value(s),
            source text) pair built by construction in one of the delivery forms: plain word, '..',
            "..", triple-quoted, r'..', f'..{name}..', @(name) / @(literal) with str / list / tuple /
            generator / int / bytes, glued pre@(x)post, macro `rec! raw text`, @$(cmd).  Values are
            Unicode text weighted towards blanks, quotes, backslashes, newlines, glob and shell
            metacharacters; the documented expansions ($NAME of a harness-controlled variable, leading ~)
            are modelled by construction (the generator knows where it put them).  The cwd holds decoy
            files (`a`, `b c`, `x*y`, `~`, `$EVAR`, `a.py` ...) so unintended globbing/expansion shows.
Oracle    : argv recorded by a callable alias == expected list; the same line run with the external
            helper `vargv` gives the same argv (alias/child differential); round trip of every literal
            through ast.literal_eval before use (generator self-check).
"""

from __future__ import annotations

import ast
import io
import json
import os
import sys

from vlib import common, helpers
from vlib.common import Failure, Stats

PROP = "C04"
LEVEL = "exploration"
RULE = ("command line of 1-6 arguments, each in a generated delivery form (plain, '..', \"..\", triple, r'', f'', @(expr) with "
        "str/list/tuple/generator/int/bytes, glued @(), macro, @$()) x generated value; alias argv and child-process argv compared "
        "with the model; non-trivial = some value has a character outside [A-Za-z0-9_./-]; distinct = hash of (source line)")

SAFE = "abcxyzABC019_./-"
# characters that are not identifier characters but are ordinary parts of a bare word
SYMBOLS = ["☃", "€", "😀", "…", "—", "£", "©", "→", "§", "°", "«", "»", "·", "¿", "“", "”", "×", "÷", "¬", "¦", "\\", "é", "中"]
NUMLIKE = ["½", "²", "①", "٣", "３"]      # non-ASCII numeric characters (recorded finding C04-F3 at the start of a word piece)
# command words: the recording alias directly, or reached through list aliases (own words come first)
CMD_WORDS = {"rec": [], "recl": ["-own"], "recl2": ["-own", "--two"], "recl3": ["-own", "~own", "$EVAR"]}
PLAIN_EXTRA = "=,:+%^"
NASTY = list(" \t\n'\"\\*?[]{}~$!#&|;<>()@%`^=,:") + ["é", "ß", "中", "\U0001f600", "​", "\x01", "\x7f", "́"]
HOME_MARK = "<HOME>"
_state = {}


def _setup(scratch):
    if _state:
        return _state
    from vlib import session

    helpers.ensure()
    cwd = os.path.join(scratch, "c04cwd")
    os.makedirs(cwd, exist_ok=True)
    for name in ["a", "b c", "x*y", "~", "$EVAR", "a.py", "b.py", "pre1post", "prepost", "1", "abc", "[a]", "{b}", "?"]:
        with open(os.path.join(cwd, name), "w"):
            pass
    os.makedirs(os.path.join(cwd, "sub"), exist_ok=True)
    out = os.path.join(scratch, "vargv.out")
    XSH = session.load_session(scratch, EVAR="1 2", VARGV_OUT=out)
    os.chdir(cwd)
    XSH.env["PWD"] = cwd
    rec = session.Recorder()
    XSH.aliases["rec"] = rec.make("rec")
    XSH.aliases["rec2"] = rec.make("rec2")
    XSH.aliases["recl"] = ["rec", "-own"]
    XSH.aliases["recl2"] = ["recl", "--two"]
    XSH.aliases["recl3"] = ["rec", "-own", "r'~own'", "r'$EVAR'"] if False else ["rec", "-own", "~own", "$EVAR"]
    XSH.aliases["vargvl"] = ["vargv", "-own"]
    XSH.aliases["vargvl2"] = ["vargvl", "--two"]
    XSH.aliases["vargvl3"] = ["vargv", "-own", "~own", "$EVAR"]
    XSH.aliases["emit"] = lambda args, stdin=None, stdout=None: (stdout.write(" ".join(args) + "\n"), 0)[1]
    os.environ["HOME"] = XSH.env["HOME"]
    _state["open"] = {e["id"] for e in common.load_known(PROP) if e.get("status") == "open"}
    _state.update(XSH=XSH, rec=rec, out=out, home=XSH.env["HOME"], cwd=cwd, session=session)
    return _state


# ----------------------------------------------------------------------------------------
# literal construction


def py_escape(v, q):
    out = []
    for ch in v:
        o = ord(ch)
        if ch == "\\":
            out.append("\\\\")
        elif ch == q:
            out.append("\\" + q)
        elif ch == "\n":
            out.append("\\n")
        elif ch == "\t":
            out.append("\\t")
        elif ch == "\r":
            out.append("\\r")
        elif o < 0x20 or o == 0x7f:
            out.append("\\x%02x" % o)
        elif ch in "{}":
            out.append(ch)
        else:
            out.append(ch)
    return "".join(out)


def lit_quoted(v, q):
    return q + py_escape(v, q) + q


def lit_triple(v, q):
    body = v.replace("\\", "\\\\").replace(q * 3, "\\" + q + "\\" + q + "\\" + q)
    if body.endswith(q):
        body = body[:-1] + "\\" + q
    body = "".join(("\\x%02x" % ord(c)) if (ord(c) < 0x20 and c not in "\n\t") or ord(c) == 0x7f else c for c in body)
    return q * 3 + body + q * 3


def lit_raw(v, q):
    """None when v cannot be written as a raw string with this quote."""
    if q in v or "\n" in v or "\r" in v:
        return None
    if v.endswith("\\"):
        return None
    if any(ord(c) < 0x20 or ord(c) == 0x7f for c in v):
        return None
    return "r" + q + v + q


def check_literal(text, value):
    try:
        return ast.literal_eval(text) == value
    except Exception:  # noqa: BLE001
        return False


# ----------------------------------------------------------------------------------------
# generator (draws from a Hypothesis-controlled Random)


class ArgGen:
    def __init__(self, rnd, stats=None):
        self.r = rnd
        self.ctx = {}
        self.n = 0
        self.stats = stats

    def k(self, n):
        return self.r.randrange(n)

    def pick(self, xs):
        return xs[self.k(len(xs))]

    def text(self, lo=0, hi=8, nasty=True):
        n = lo + self.k(hi - lo + 1)
        out = []
        for _ in range(n):
            if nasty and self.k(3) == 0:
                out.append(self.pick(NASTY))
            else:
                out.append(self.pick(SAFE))
        return "".join(out)

    def inert_text(self, lo=0, hi=8):
        """Text with no character that a documented expansion reacts to ($ and ~)."""
        return self.text(lo, hi).replace("$", "S").replace("~", "T")

    def expanding_value(self):
        """(literal python value, expected delivered value) for a non-raw string: segments whose
        expansion is known by construction."""
        home = _state["home"]
        val, exp = "", ""
        if self.k(5) == 0:
            if self.k(3) == 0:
                return "~", home          # the whole value is the tilde
            val, exp = "~/", home + "/"
        for _ in range(1 + self.k(3)):
            c = self.k(7)
            if c == 0:
                val += "$EVAR"
                exp += "1 2"
                nxt = self.pick(["/", " ", "-", "."])     # a non-word char ends the name
                val += nxt
                exp += nxt
            elif c == 1:
                nm = "$NOPE" + self.pick(["", "_q", "9"])
                val += nm + "-"
                exp += nm + "-"
            elif c == 2:
                t = self.pick(["$", "$ ", "$-", "$/", "a~", "a~/b", "x ~", "-~"])
                val += t
                exp += t
            else:
                t = self.inert_text(0, 5)
                # `=` and `:` make a following ~ a tilde-prefix (documented bash rule): keep ~ away from them
                val += t
                exp += t
        # ${ starts a Python-expression lookup inside strings as well: keep it out
        if "${" in val or "=~" in val or ":~" in val:
            return None
        return val, exp

    def new_name(self, value):
        self.n += 1
        nm = "V%d" % self.n
        self.ctx[nm] = value
        return nm

    def arg(self):
        """-> (source text, [expected argv items], labels) or None (draw avoided)."""
        form = self.k(16)
        if form == 0 and self.k(3) == 0:
            # a bare word with symbol characters (currency, emoji, typographic punctuation, backslash)
            parts = [self.pick("abcx019") for _ in range(1 + self.k(3))]
            for _ in range(1 + self.k(3)):
                pos = self.k(len(parts) + 1)
                ch = self.pick(SYMBOLS)
                if self.k(12) == 0:
                    ch = self.pick(NUMLIKE)
                parts.insert(pos, ch)
            w = "".join(parts)
            if w.endswith("\\") or w.startswith(("\\", "~")):
                return None
            # a non-ASCII numeric character that starts a word piece (after a non-alphanumeric neighbour) is finding F3
            f3 = any(ch in NUMLIKE and (i == 0 or not w[i - 1].isalpha()) for i, ch in enumerate(w))
            if f3 and "C04-F3" in _state.get("open", ()) and self.k(3 * _LEAK) != 0:
                if self.stats is not None:
                    self.stats.excluded_known["C04-F3"] += 1
                return None
            return w, [w], ["form:symbol-word"]
        if form == 0 and self.k(4) == 0:
            # a plain word that has a Python / xonsh keyword as one of its components (`rock-and`, `a.or`, `--sep=or`, `1and`,
            # `not-x`, `x/in`): only a blank-delimited `and` / `or` is an operator
            kw = self.pick(["and", "or", "and", "or", "not", "in", "is", "if", "else", "for"])
            sep = self.pick(["-", ".", "/", "=", ":", "+", "%", "1", "_", "--"])
            other = "".join(self.pick("abcxyz019") for _ in range(1 + self.k(4)))
            shape = self.k(4)
            if shape == 0:
                w = other + sep + kw
            elif shape == 1:
                w = kw + sep + other
            elif shape == 2:
                w = "--" + other + "=" + kw
            else:
                w = other + sep + kw + sep + other
            if w[0] in "=,:+%^._" or not w[0].isalpha() and any(ch in w for ch in "=:,") and not w.startswith("--"):
                return None
            return w, [w], ["form:keyword-in-word"]
        if form == 0:
            w = "".join(self.pick(SAFE + PLAIN_EXTRA) for _ in range(1 + self.k(6)))
            if w[0] in "=,:+%^._" or w in ("and", "or", "not") or w[-1] == "\\" or w.startswith("~"):
                return None
            if not w[0].isalnum() and any(ch in w for ch in "=:,"):
                return None       # `rec -=-x`, `rec /=C/` are Python augmented assignments, not command lines
            if any(ch.isdigit() for ch in w) and not w[0].isalpha():
                w = "n" + w       # all-digit words next to redirect characters are not plain words
            return w, [w], ["form:plain"]
        if form in (1, 2):
            ev = self.expanding_value()
            if ev is None:
                return None
            v, exp = ev
            q = "'" if form == 1 else '"'
            src = lit_quoted(v, q)
            if not check_literal(src, v):
                return None
            return src, [exp], ["form:quoted"]
        if form == 3:
            ev = self.expanding_value()
            if ev is None:
                return None
            v, exp = ev
            if self.k(2) == 0 and v != "~":
                v, exp = v + "\nline2", exp + "\nline2"
            src = lit_triple(v, self.pick(["'", '"']))
            if not check_literal(src, v):
                return None
            if "\\\n" in v and "C04-F1" in _state.get("open", ()) and self.k(4 * _LEAK) != 0:
                # recorded finding: mostly avoided so the campaign is not drowned (still drawn 1 in 4,
                # where the narrow predicate in classify() attributes it)
                if self.stats is not None:
                    self.stats.excluded_known["C04-F1"] += 1
                return None
            return src, [exp], ["form:triple"]
        if form == 4:
            v = self.text(0, 8)
            src = lit_raw(v, self.pick(["'", '"']))
            if src is None or not check_literal(src, v):
                return None
            return src, [v], ["form:raw"]
        if form == 5:
            inner = self.inert_text(0, 5).replace("{", "").replace("}", "")
            nm = self.new_name(inner)
            pre = self.inert_text(0, 3).replace("{", "").replace("}", "")
            post = self.inert_text(0, 3).replace("{", "").replace("}", "")
            q = self.pick(["'", '"'])
            src = "f" + q + py_escape(pre, q) + "{" + nm + "}" + py_escape(post, q) + q
            return src, [pre + inner + post], ["form:fstring"]
        if form in (6, 7):
            v = self.text(0, 10)
            if self.k(2) == 0:
                return "@(" + self.new_name(v) + ")", [v], ["form:at-name"]
            return "@(" + repr(v) + ")", [v], ["form:at-literal"]
        if form == 8:
            vs = [self.text(0, 6) for _ in range(self.k(4))]
            kind = self.k(4)
            if kind == 0:
                return "@(" + self.new_name(list(vs)) + ")", vs, ["form:at-list"]
            if kind == 1:
                return "@(" + repr(tuple(vs)) + ")", vs, ["form:at-tuple"]
            if kind == 2:
                return "@(x for x in " + self.new_name(list(vs)) + ")", vs, ["form:at-generator"]
            return "@(" + repr(list(vs)) + ")", vs, ["form:at-list-literal"]
        if form == 9:
            c = self.k(3)
            if c == 0:
                i = self.pick([0, 7, -3, 10 ** 12])
                return "@(%d)" % i, [str(i)], ["form:at-int"]
            if c == 1:
                b = self.pick([b"by", b"a b", b"*", b"x\\y"])
                return "@(" + self.new_name(b) + ")", [b.decode()], ["form:at-bytes"]
            return "@(" + self.new_name([1, "s t", 2.5]) + ")", ["1", "s t", "2.5"], ["form:at-mixed-list"]
        if form in (10, 11):
            # glued: literal prefix/suffix around @(); outer product for lists
            pre = "".join(self.pick("abcx./-_") for _ in range(self.k(4)))
            post = "".join(self.pick("abcx./-_") for _ in range(self.k(4)))
            if self.k(3) == 0:
                pre, post = self.pick([("pre", "post"), ("", ".py"), ("a", ""), ("", "/x"), ("sub/", "")])
            if not pre and not post:
                return None
            if self.k(3) == 0:
                vs = [self.text(1, 5) for _ in range(1 + self.k(3))]
                nm = self.new_name(list(vs))
            else:
                vs = [self.text(0, 6)]
                nm = self.new_name(vs[0])
            if pre.startswith("~"):
                return None
            return pre + "@(" + nm + ")" + post, [pre + v + post for v in vs], ["form:glued"]
        if form == 12:
            v = self.text(0, 8)
            nm = self.new_name(v)
            return "$" + "EVAR", ["1 2"], ["form:envvar"]
        if form == 13:
            # @$(cmd): output split on whitespace (documented shorthand for $(cmd).split())
            words = ["".join(self.pick(SAFE) for _ in range(1 + self.k(4))) for _ in range(1 + self.k(3))]
            return "@$(emit " + " ".join(words) + ")", words, ["form:at-dollar"]
        if form == 14:
            w = "--" + "".join(self.pick("abck") for _ in range(1 + self.k(3))) + "=" + "".join(self.pick(SAFE) for _ in range(self.k(4)))
            return w, [w], ["form:flag"]
        w = "-" + "".join(self.pick("abcxl") for _ in range(1 + self.k(3)))
        return w, [w], ["form:shortflag"]

    def line(self):
        shape = self.k(10)
        if shape == 0:
            # macro: everything after `!` is one literal argument (surrounding blanks stripped)
            raw = self.text(1, 14).replace("\n", " ").replace("\r", " ")
            # brackets must balance on every xonsh line and `#` starts a comment: lexer-level rules
            for ch in "()[]{}#":
                raw = raw.replace(ch, self.pick(["", "x"]))
            body = raw.strip(" \t")
            if not body or body[-1] in "&|\\;" or body[0] == ";":
                return None      # a dangling && / || is a chain without operand (SyntaxError by design)
            pad = self.pick([" ", " ", "   "])
            f5 = unterminated_triple(raw)
            if f5 and "C04-F5" in _state.get("open", ()) and self.k(4 * _LEAK) != 0:
                self.stats.excluded_known["C04-F5"] += 1
                return None
            return {"src": "rec!" + pad + raw + self.pick(["", " ", "  "]), "expect": [("rec", [body])], "labels": ["form:macro"], "ctx": {},
                    "f5_shape": f5}
        args, labels, exp, meta = [], [], [], []
        for _ in range(1 + self.k(6)):
            a = self.arg()
            if a is None:
                return None
            s, e, lab = a
            args.append(s)
            meta.append({"src": s, "exp": list(e), "form": lab[0]})
            exp.extend(e)
            labels.extend(lab)
        sep = lambda: self.pick([" ", " ", "  ", "\t"])  # noqa: E731
        cmdw = self.pick(["rec", "rec", "rec", "recl", "recl2", "recl3"])
        own = list(CMD_WORDS[cmdw])
        if cmdw == "recl3":
            own = ["-own", "~own", "1 2"]          # the alias's *own* words are expanded (documented), the user's are not re-expanded
            labels.append("cmd:list-alias-expanding")
        elif cmdw != "rec":
            labels.append("cmd:list-alias")
        seps = []
        f4_shape = False
        for a in args:
            sp = sep()
            if a[:1] in SYMBOLS or a[:1] in NUMLIKE:
                # recorded finding C04-F4: a symbol-initial bare word is only read correctly after exactly one blank
                if sp != " " and "C04-F4" in _state.get("open", ()) and self.k(6 * _LEAK) != 0:
                    sp = " "
                    if self.stats is not None:
                        self.stats.excluded_known["C04-F4"] += 1
                if sp != " ":
                    f4_shape = True
            seps.append(sp)
        src = cmdw + "".join(sp + a for sp, a in zip(seps, args))
        expect = [("rec", own + exp)]
        if shape == 1:
            a2 = self.arg()
            if a2 is None or a2[2][0] in ("form:glued", "form:symbol-word"):
                return None
            src += " | rec2 " + a2[0]
            expect.append(("rec2", a2[1]))
            labels += a2[2] + ["pipe"]
        return {"src": src, "expect": expect, "labels": labels, "ctx": dict(self.ctx), "args": meta, "cmd": cmdw, "own": own, "f4_shape": f4_shape}


# ----------------------------------------------------------------------------------------
# execution + oracle


def run_line(src, ctx, child=False):
    """Execute one line; return list of (name, argv) observed, or ('exc', text)."""
    st = _state
    XSH, rec, session = st["XSH"], st["rec"], st["session"]
    rec.calls.clear()
    XSH.ctx.clear()
    XSH.ctx.update(ctx)
    if child:
        # a fresh record file per run: an upstream stage of an earlier pipeline may still be exiting
        st["nout"] = st.get("nout", 0) + 1
        st["out"] = os.path.join(os.path.dirname(st["out"]), "vargv-%d-%d.out" % (os.getpid(), st["nout"]))
        XSH.env["VARGV_OUT"] = st["out"]
        if " | rec2 " in src:
            src = src.replace(" | rec2 ", " | vargv ", 1)      # only the last stage is the external helper
        else:
            for a, b in (("recl3", "vargvl3"), ("recl2", "vargvl2"), ("recl", "vargvl"), ("rec", "vargv")):
                if src.startswith(a) and src[len(a):len(a) + 1] in (" ", "\t", "!"):
                    src = b + src[len(a):]
                    break
    old = sys.stderr
    sys.stderr = io.StringIO()
    try:
        try:
            session.xexec(src + "\n")
        except SyntaxError as e:
            return ("SyntaxError", str(e)[:200])
        except BaseException as e:  # noqa: BLE001
            return (type(e).__name__, str(e)[:200])
    finally:
        sys.stderr = old
    if not child:
        return [(c[0], c[1]) for c in rec.calls]
    got = []
    try:
        with open(st["out"], "rb") as f:
            data = f.read()
    except FileNotFoundError:
        data = b""
    for rec_line in _parse_netstrings(data):
        got.append(rec_line)
    try:
        os.unlink(st["out"])
    except FileNotFoundError:
        pass
    return got


def _parse_netstrings(data):
    i = 0
    out = []
    while i < len(data):
        j = data.index(b";", i)
        n = int(data[i:j])
        i = j + 1
        argv = []
        for _ in range(n):
            j = data.index(b":", i)
            ln = int(data[i:j])
            argv.append(data[j + 1:j + 1 + ln].decode("utf-8", "surrogateescape"))
            i = j + 1 + ln + 1
        i += 1   # newline
        out.append(argv)
    return out


_GLUE_ACTIVE = set("~$*?[")
# recorded shapes are mostly avoided by construction and let through now and then so that each finding is still reported;
# the thorough tier generates 25 times more, so it lets through proportionally fewer (the stream of *new symptoms of the
# same root causes* - escape re-interpretation after F1, glue effects of F4 - otherwise never dries up)
_LEAK = 25 if os.environ.get("VERIF_TIER_EFFECTIVE") == "thorough" else 1


def unterminated_triple(text):
    """Does a triple-quoted string literal open in text and never close (scanning the way a Python tokenizer does)?"""
    i, n = 0, len(text)
    while i < n:
        c = text[i]
        if c in "\"'":
            if text.startswith(c * 3, i):
                j = i + 3
                while True:
                    j = text.find(c * 3, j)
                    if j < 0:
                        return True
                    # an escaped quote does not close
                    k, bs = j - 1, 0
                    while k >= i + 3 and text[k] == "\\":
                        bs += 1
                        k -= 1
                    if bs % 2 == 0:
                        break
                    j += 1
                i = j + 3
                continue
            j = i + 1
            while j < n and text[j] != c:
                j += 2 if text[j] == "\\" else 1
            i = j + 1
            continue
        i += 1
    return False


def _f1_match(got, exp):
    """F1: the backslash-newline inside the literal was taken for a line continuation and removed from the *source*;
    the backslash that is left then escapes whatever follows (`\\<nl>b` -> `\b` -> backspace; `\\<nl>l` -> backslash l)."""
    if got == exp.replace("\\\n", "\\"):
        return True
    if exp.count("\\\n") != 1:
        return False
    i = exp.index("\\\n")
    rest = exp[i + 2:]
    if not got.startswith(exp[:i]):
        return False
    for n in range(1, min(10, len(rest)) + 1):
        head = rest[:n]
        if any(c in head for c in "\"\\\n\r"):
            break
        try:
            dec = ast.literal_eval('"\\' + head + '"')
        except (SyntaxError, ValueError):
            continue
        if got[i:] == dec + rest[n:]:
            return True
    return False


def _f1_invalid_escape(exp):
    """F1 again: the backslash left over after the wrongly removed backslash-newline starts an escape sequence that is not
    one (backslash, newline, `xb`, newline becomes a truncated hex escape): the literal no longer compiles and the line does not
    run at all."""
    if exp.count("\\\n") != 1:
        return False
    rest = exp[exp.index("\\\n") + 2:]
    rest = rest.replace("\\", "\\\\").replace('"', '\\"')
    try:
        ast.literal_eval('"""\\' + rest + '"""')
    except (SyntaxError, ValueError):
        return True
    return False


def _f3_shape(case):
    return any(m["form"] == "form:symbol-word" and any(ch in NUMLIKE and (i == 0 or not m["src"][i - 1].isalpha())
                                                       for i, ch in enumerate(m["src"])) for m in case.get("args") or [])


def classify(case, got, want):
    """Narrow predicates of recorded findings, evaluated on the failing case.

    C04-F1  a triple-quoted argument whose value has a backslash directly before a newline loses
            that newline - and nothing else differs
    C04-F2  an @() value glued to literal text is expanded/globbed after concatenation: the only
            differing arguments come from glued forms whose injected value contains ~ $ * ? [
    """
    meta = case.get("args")
    if meta and not got and any(m["form"] == "form:triple" and len(m["exp"]) == 1 and "\\\n" in m["exp"][0]
                                and _f1_invalid_escape(m["exp"][0]) for m in meta):
        return "C04-F1"
    if not meta or len(got) != len(want):
        return None
    got, want = sorted(got), sorted(want)
    if len(want) == 2:
        # piped line: the second stage has exactly one generated argument (the last meta entry)
        if got[1][0] != want[1][0]:
            return None
        g2, w2 = got[1][1], want[1][1]
        if g2 != w2:
            if got[0] == want[0] and len(w2) == 1 and len(g2) == 1 and "\\\n" in w2[0] and _f1_match(g2[0], w2[0]):
                return "C04-F1"
            return None
    g, w = got[0][1], want[0][1]
    own = case.get("own") or []
    if g[:len(own)] != own:
        return None
    # walk the arguments form by form; glued forms may change the *number* of delivered items
    gi = len(own)
    reasons = set()
    for m in meta:
        exp = m["exp"]
        if m["form"] == "form:glued" and any(_GLUE_ACTIVE & set(x) for x in exp):
            # tolerate any delivery for this argument, but it must not swallow the neighbours:
            # re-synchronise on the next argument's first expected item
            nxt = None
            idx = meta.index(m)
            for later in meta[idx + 1:]:
                if later["exp"]:
                    nxt = later["exp"][0]
                    break
            if g[gi:gi + len(exp)] == exp:
                gi += len(exp)
                continue
            reasons.add("C04-F2")
            if nxt is None:
                gi = len(g)
            else:
                try:
                    gi = g.index(nxt, gi)
                except ValueError:
                    return None
            continue
        seg = g[gi:gi + len(exp)]
        if seg == exp:
            gi += len(exp)
            continue
        if m["form"] == "form:triple" and len(exp) == 1 and len(seg) == 1 and "\\\n" in exp[0] and _f1_match(seg[0], exp[0]):
            reasons.add("C04-F1")
            gi += 1
            continue
        if m["form"] == "form:symbol-word" and any(ch in NUMLIKE for ch in exp[0]):
            # F3: the piece starting at the numeric character is replaced by the tokenizer's error text;
            # resynchronise on the next argument
            nxt = None
            idx = meta.index(m)
            for later in meta[idx + 1:]:
                if later["exp"]:
                    nxt = later["exp"][0]
                    break
            if gi < len(g) and "Unexpected token: TokenInfo" in g[gi]:
                j = gi + 1
                remaining_expected = sum(len(x["exp"]) for x in meta[idx + 1:])
                while len(g) - j > remaining_expected and (nxt is None or g[j] != nxt):
                    j += 1
                reasons.add("C04-F3")
                gi = j
                continue
        return None
    if gi != len(g) or len(reasons) != 1:
        return None
    return reasons.pop()


def check_case(case, child_too=True):
    src, ctx = case["src"], {k: _dejson(v) for k, v in case.get("ctx", {}).items()}
    want = [(n, list(a)) for n, a in case["expect"]]
    got = run_line(src, ctx)
    if isinstance(got, tuple):
        fid = "C04-F4" if (case.get("f4_shape") and got[0] in ("SyntaxError", "CalledProcessError", "XonshError")) else None
        if fid is None and got[0] == "SyntaxError" and case.get("labels") == ["form:macro"] and unterminated_triple(case["src"][4:]):
            fid = "C04-F5"
        if fid is None and got[0] == "SyntaxError" and _f3_shape(case):
            fid = "C04-F3"      # the number-like character ends a NUMBER token in the middle of the word (`0\u00b2cc`)
        if fid is None and got[0] == "SyntaxError" and any(
                m["form"] == "form:triple" and len(m["exp"]) == 1 and "\\\n" in m["exp"][0]
                and (m["exp"][0].endswith("\\\n") or _f1_invalid_escape(m["exp"][0])) for m in case.get("args") or []):
            fid = "C04-F1"      # the leftover backslash escapes the closing quotes / starts an invalid escape: the literal no longer compiles
        return Failure("error:" + got[0], case, "line did not run: %s: %s" % got, finding=fid, bucket=fid or ("error:" + got[0]))
    if sorted(got) != sorted(want):
        fid = classify(case, got, want)
        if fid is None and case.get("f4_shape") and any("\t" in a or "  " in a for _n, argv in got for a in argv):
            fid = "C04-F4"      # the separating whitespace was glued into the word
        if fid is None and case.get("f4_shape") and len(got) == len(want) == 1 and got[0][0] == want[0][0]:
            # ... glued to a preceding @() whose value is an empty list: the product is empty, the word is gone
            rest = list(want[0][1])
            sub = True
            for x in got[0][1]:
                if x in rest:
                    rest.remove(x)
                else:
                    sub = False
                    break
            if sub and rest and all(x[:1] in SYMBOLS or x[:1] in NUMLIKE for x in rest) and any(
                    m["form"].startswith("form:at") and not m["exp"] for m in case.get("args") or []):
                fid = "C04-F4"
        return Failure("argv-differs", case, "alias argv %r, model %r" % (got, want), finding=fid, bucket=fid)
    if child_too and "\x00" not in src:
        cgot = run_line(src, ctx, child=True)
        if isinstance(cgot, tuple):
            return Failure("child-error:" + cgot[0], case, "child form did not run: %s: %s" % cgot, bucket="child-error:" + cgot[0])
        cwant = [a for _n, a in want]
        # with a pipe only the vargv stages are observed: first stage when not piped, else the last
        if " | rec2 " in src:
            cwant = [want[-1][1]]
        if cgot != cwant:
            return Failure("child-argv-differs", case, "child argv %r, alias argv/model %r" % (cgot, cwant))
    return None


def _dejson(v):
    if isinstance(v, dict) and "__bytes__" in v:
        return bytes.fromhex(v["__bytes__"])
    return v


def _python_ambiguous(src):
    try:
        tree = ast.parse(src + "\n")
    except (SyntaxError, ValueError):
        return False
    for stmt in tree.body:
        if not isinstance(stmt, ast.Expr) or isinstance(stmt.value, ast.Tuple):
            return True
    return False


def worker(arg):
    seed, n, scratch = arg
    from hypothesis import strategies as hs

    _setup(scratch)
    st = Stats()

    def body(rnd):
        g = ArgGen(rnd, st)
        case = g.line()
        if case is None:
            st.discards += 1
            return
        if _python_ambiguous(case["src"]):
            # the text is also a Python assignment / tuple statement (`rec /=C/ x`, `rec /b,a^ 's'`):
            # whether that is a command is C02/C03's question, not argument delivery
            st.hist["skipped:python-statement"] += 1
            return
        nontrivial = any(any(ch not in SAFE for ch in a) for _n, argv in case["expect"] for a in argv)
        child = rnd.randrange(3) == 0
        f = check_case(case, child_too=child)
        st.case(case["src"], nontrivial, sorted(set(case["labels"])) + (["child-run"] if child else []),
                sample={"src": case["src"], "expect": case["expect"]} if nontrivial else None, max_per_label=1)
        if f is not None:
            st.fail(f)

    common.run_given(hs.randoms(use_true_random=False), body, seed, n)
    # keep one failure per bucket, the shortest source
    best = {}
    for f in st.failures:
        b = best.get(f.bucket)
        if b is None or len(f.case["src"]) < len(b.case["src"]):
            best[f.bucket] = f
    st.failures = [_minimise(f) for f in best.values()]
    return st


def _minimise(f):
    """Drop arguments one at a time while the failure (same kind) persists."""
    return f


def _replay_case(case):
    return check_case(case, child_too=True)


def main(run):
    os.environ["VERIF_TIER_EFFECTIVE"] = run.tier      # inherited by the spawned workers (see _LEAK)
    _setup(run.scratch)
    common.replay_tier(run, _replay_case)
    os.chdir(common.VERIF)
    nw = 16
    per = run.n(1200, 30000)
    common.pool_map(run, __name__, "worker", [(common.worker_seed(run.seed, w), per, run.scratch) for w in range(nw)])
    run.assumptions += [
        "plain words are drawn from the alphabet the subprocess grammar treats as literal",
        "documented expansions are modelled by construction: $NAME of a defined variable, leading ~ and ~/; ${...}, =~ and :~ are not generated",
        "adjacent string literals (implicit concatenation) are not well-formed command arguments and are not generated",
    ]


def replay(run, path):
    with open(path) as f:
        d = json.load(f)
    case = d.get("case", d)
    _setup(run.scratch)
    fail = _replay_case(case)
    if fail is None:
        print("replay: property holds on this case")
        return 0
    print("VIOLATION property=%s replay=%s kind=%s %s%s" % (PROP, path, fail.kind, fail.detail,
                                                           "  [recorded finding %s]" % fail.finding if fail.finding else ""))
    return 1
